"""C02 - file names generated from a template parse back to the same times and attributes.

Writer/reader agreement is decided structurally: the keyword table of get_filename against the
regex table (source object, field, printed width) (T3); the two-digit-year round trip,
exhaustively over 1965..2064 (T4); day-of-year and sub-second offsets/scales (T5); completion
and roll-over of partially written end times (T6+T4); defaulting of a missing end, merge order
of file-name and handler information (T1); rejection of non-matching names and the dedicated
placeholder errors (T1).  String-level behaviour of re / str.format for arbitrary user
regexes and duplicate placeholders is not decided.
"""
import ast
import re as _re
from ..core import AnalysisError, norm, dotted, calls_in, walk_no_nested, parent, enclosing_stmt, const_value
from ..flow import Flow, guard_chain, conjuncts
from ..cfg import stmt_before
from ..order import Interp
from ..algebra_lin import linear_form

FILESET = "typhon/files/fileset.py"
HCOMMON = "typhon/files/handlers/common.py"
EXPECT = {"C02.args": 3, "C02.table": 19, "C02.repeat": 4, "C02.year2": 1, "C02.doy": 4, "C02.subsec": 2, "C02.endfill": 5, "C02.default_end": 3, "C02.merge": 4, "C02.reject": 5, "C02.fill": 1, "C02.trip": 1, "C02.helpers": 2, "C02.memo": 1}

DOCUMENTED = ["year", "year2", "month", "day", "doy", "hour", "minute", "second", "millisecond"]
FIELD = {"year": "year", "month": "month", "day": "day", "hour": "hour", "minute": "minute", "second": "second"}


def _table(ctx, name):
    mod = ctx.mod(FILESET)
    t = mod.table(name, scope="FileSet")
    if isinstance(t, ast.Call) and t.args and isinstance(t.args[0], ast.Dict):
        t = t.args[0]
    if not isinstance(t, ast.Dict):
        raise AnalysisError("%s is not a dict literal" % name)
    return t


def _regex_width(v):
    m = _re.fullmatch(r"\\d\{(\d+)\}", v)
    return int(m.group(1)) if m else None


def _fmt_width(call):
    """'{:0Nd}'.format(x) -> (N, x)"""
    if isinstance(call, ast.Call) and isinstance(call.func, ast.Attribute) and call.func.attr == "format" \
            and isinstance(call.func.value, ast.Constant) and isinstance(call.func.value.value, str) and len(call.args) == 1:
        m = _re.fullmatch(r"\{:0(\d+)d\}", call.func.value.value)
        if m:
            return int(m.group(1)), call.args[0]
    if isinstance(call, ast.JoinedStr) and len(call.values) == 1 and isinstance(call.values[0], ast.FormattedValue):
        fv = call.values[0]
        if fv.format_spec is not None and len(fv.format_spec.values) == 1 and isinstance(fv.format_spec.values[0], ast.Constant):
            m = _re.fullmatch(r"0(\d+)d", fv.format_spec.values[0].value)
            if m:
                return int(m.group(1)), fv.value
    return None


def writer_entry(p, v, sv, ev):
    """classify the value written for placeholder p -> (source object, field kind, width) or raise"""
    fw = _fmt_width(v)
    if fw is not None:
        w, inner = fw
        t = norm(inner).replace(" ", "")
        for obj in (sv, ev):
            for fld in ("month", "day", "hour", "minute", "second"):
                if t == "%s.%s" % (obj, fld):
                    return obj, fld, w, None
            if t in ("int(%s.microsecond/1000)" % obj, "%s.microsecond//1000" % obj):
                return obj, "millisecond", w, None
        # day of year: (X - datetime(Y.year, 1, 1)).days + a
        if isinstance(inner, ast.BinOp) and isinstance(inner.op, ast.Add) and isinstance(inner.right, ast.Constant):
            a = inner.right.value
            d = inner.left
            if isinstance(d, ast.Attribute) and d.attr == "days" and isinstance(d.value, ast.BinOp) and isinstance(d.value.op, ast.Sub):
                X = norm(d.value.left)
                ref = d.value.right
                if isinstance(ref, ast.Call) and dotted(ref.func) == "datetime" and len(ref.args) == 3 and [norm(x) for x in ref.args[1:]] == ["1", "1"]:
                    Y = norm(ref.args[0])
                    return X, "doy", w, {"offset": a, "year_of": Y}
        raise AnalysisError("unrecognised value for placeholder %s: %s" % (p, norm(v)))
    t = norm(v).replace(" ", "")
    for obj in (sv, ev):
        if t == "%s.year" % obj:
            return obj, "year", 4, None
        if t == "str(%s.year)[-2:]" % obj:
            return obj, "year2", 2, None
        if t in ("'{:04d}'.format(%s.year)" % obj,):
            return obj, "year", 4, None
    raise AnalysisError("unrecognised value for placeholder %s: %s" % (p, norm(v)))


def _format_keywords(call, flow):
    """keyword -> value of template.format(...): explicit keywords plus the entries of every `**table` that is statically a table
    (user supplied mappings such as **fill are not)"""
    from ..flow import dict_entries
    kws = {}
    for k in call.keywords:
        if k.arg:
            kws[k.arg] = k.value
        else:
            ent = dict_entries(k.value, flow, call)
            if ent is not None:
                for name, v in ent:
                    kws.setdefault(name, v)
    return kws


def rule_table(ctx):
    ctx.rule("C02.table", "T3", "get_filename writes every documented temporal placeholder from the right object and field with the width its regex reads")
    f = ctx.func(FILESET, "FileSet.get_filename")
    flow = Flow(f)
    fc = [c for c in calls_in(f.node, "format") if isinstance(c.func, ast.Attribute) and norm(c.func.value) == f.params[2]]
    if not fc:
        raise AnalysisError("get_filename: template.format(...) not found")
    kws = _format_keywords(fc[0], flow)
    # names of the start / end time objects
    sv = ev = None
    for st in flow.stmts:
        if isinstance(st, ast.Assign) and isinstance(st.targets[0], ast.Name) and norm(st.value) == "to_datetime(%s[0])" % f.params[1]:
            sv = st.targets[0].id
        if isinstance(st, ast.Assign) and isinstance(st.targets[0], ast.Name) and norm(st.value) == "to_datetime(%s[1])" % f.params[1]:
            ev = st.targets[0].id
    if not sv or not ev:
        raise AnalysisError("get_filename: start/end time variables not identified")
    # discrete call: end = start
    single = [st for st in flow.stmts if isinstance(st, ast.Assign) and norm(st.targets[0]) == ev and norm(st.value) == sv]
    ctx.ob("FileSet.get_filename.times", bool(single), "start=%s end=%s; single timestamp: %s" % (sv, ev, [norm(s) for s in single]),
           "(s, e) -> start, end; a single timestamp is its own end", node=fc[0], func=f)
    tab = _table(ctx, "_time_placeholder")
    regex = {const_value(k): const_value(v) for k, v in zip(tab.keys, tab.values)}
    for base in DOCUMENTED:
        for p, obj_want in ((base, sv), ("end_" + base, ev)):
            v = kws.get(p)
            if v is None:
                ctx.ob("FileSet.get_filename[%s]" % p, False, "placeholder %s is not passed to format()" % p, "every documented placeholder is written", node=fc[0], func=f)
                continue
            try:
                obj, kind, width, extra = writer_entry(p, flow.resolve(v, at=fc[0], depth=2, stop=(sv, ev)), sv, ev)
            except AnalysisError as e:
                raise
            rw = _regex_width(regex.get(p, ""))
            ok = obj == obj_want and kind == base and rw == width
            why = []
            if obj != obj_want:
                why.append("taken from %s instead of %s" % (obj, obj_want))
            if kind != base:
                why.append("field %s instead of %s" % (kind, base))
            if rw != width:
                why.append("printed width %s, regex %s" % (width, regex.get(p)))
            if extra is not None:
                if extra["year_of"] != "%s.year" % obj_want:
                    ok = False
                    why.append("day of year counted from 1 January of %s instead of %s.year" % (extra["year_of"], obj_want))
            ctx.ob("FileSet.get_filename[%s]" % p, ok, "%s = %s%s" % (p, norm(v)[:80], ("  [%s]" % "; ".join(why)) if why else ""),
                   "value of field '%s' of the %s time, %s digits (regex %s)" % (base, "end" if p.startswith("end_") else "start", rw, regex.get(p)),
                   node=v, func=f)


def rule_year2(ctx):
    ctx.rule("C02.year2", "T4 (exhaustive)", "reader(writer(y)) = y for all y in 1965..2064")
    from ..flow import guard_chain
    f = ctx.func(FILESET, "FileSet._standardise_datetime_args")
    flow = Flow(f)
    mod = ctx.mod(FILESET)
    thr = const_value(mod.table("year2_threshold", scope="FileSet"))
    a = f.params[1]
    # the local holding the two-digit year: name = args.pop('year2', None)
    yv = None
    for st in flow.stmts:
        if isinstance(st, ast.Assign) and isinstance(st.targets[0], ast.Name) and "year2" in norm(st.value) and (".pop(" in norm(st.value) or ".get(" in norm(st.value)):
            yv = st.targets[0].id
    if yv is None:
        raise AnalysisError("_standardise_datetime_args: the two-digit year is not read into a local")
    stores = [st for st in flow.stmts if isinstance(st, ast.Assign) and norm(st.targets[0]).replace('"', "'") == "%s['year']" % a]
    if not stores:
        raise AnalysisError("_standardise_datetime_args: no store into args['year']")
    bad = None
    for y in range(1965, 2065):
        y2 = y % 100          # writer: str(year)[-2:]
        env = {yv: y2, "self.year2_threshold": thr, "FileSet.year2_threshold": thr}
        got = []
        for st in stores:
            try:
                active = all(bool(Interp(dict(env, **{"%s is not None" % yv: True, "%s is None" % yv: False})).ev(t)) == pol for t, pol in guard_chain(st))
                if active:
                    got.append(Interp(env).ev(flow.resolve(st.value, at=st, depth=3, stop=(yv,))))
            except AnalysisError as e:
                raise AnalysisError("_standardise_datetime_args: year2 branch outside the order model: %s" % e)
        if got != [y]:
            bad = {"year": y, "written": "%02d" % y2, "parsed": got}
            break
    ctx.models.append({"rule": "C02.year2", "cases": 100, "exhaustive": True, "domain": "1965..2064"})
    ctx.ob("FileSet._standardise_datetime_args.year2", bad is None, "stores %s (threshold %s)" % ([norm(s)[:60] for s in stores], thr),
           "two-digit years round-trip over 1965..2064 (65..99 -> 19xx, 00..64 -> 20xx)", node=stores[0], func=f, witness=bad)


def rule_doy_subsec(ctx):
    ctx.rule("C02.doy", "T5", "day of year: writer offset +1 and reader offset -1 relative to 1 January of the same year")
    f = ctx.func(FILESET, "FileSet.get_filename")
    fc = [c for c in calls_in(f.node, "format") if isinstance(c.func, ast.Attribute) and norm(c.func.value) == f.params[2]][0]
    kws = _format_keywords(fc, Flow(f))
    offs = []
    for p in ("doy", "end_doy"):
        fw = _fmt_width(kws[p]) if p in kws else None
        if fw and isinstance(fw[1], ast.BinOp) and isinstance(fw[1].right, ast.Constant):
            offs.append(fw[1].right.value if isinstance(fw[1].op, ast.Add) else -fw[1].right.value)
    ctx.ob("FileSet.get_filename.doy_offset", offs == [1, 1], "writer offsets: %s" % offs, "+1: 1 January is day 001", node=fc, func=f)
    g = ctx.func(FILESET, "FileSet._standardise_datetime_args")
    a = g.params[1]
    rd = None
    for st in walk_no_nested(g.node):
        if isinstance(st, ast.Assign) and calls_in(st.value, "timedelta") and calls_in(st.value, "datetime"):
            rd = st
    ok = False
    fact = None
    if rd is not None:
        fact = norm(rd.value)
        v = rd.value
        if isinstance(v, ast.BinOp) and isinstance(v.op, ast.Add):
            d, td = v.left, v.right
            if dotted(getattr(td, "func", None)) != "timedelta":
                d, td = td, d
            gflow_ = Flow(g)
            yarg = str(norm(gflow_.resolve(d.args[0], at=rd, depth=2, stop=(a,)))).replace('"', "'") if isinstance(d, ast.Call) and d.args else None
            year_ok = yarg is not None and (yarg == "%s['year']" % a or yarg.startswith("%s.get('year'," % a))
            okd = isinstance(d, ast.Call) and dotted(d.func) == "datetime" and year_ok and [norm(x) for x in d.args[1:]] == ["1", "1"]
            try:
                targ = td.args[0] if td.args else next((k.value for k in td.keywords if k.arg == "days"), None)
                lf = linear_form(targ, {"doy": "D"}, consts=True) if targ is not None else None
            except AnalysisError:
                lf = None
            ok = okd and lf == {"D": 1, 1: -1}
    ctx.ob("FileSet._standardise_datetime_args.doy", ok, "date = %s" % fact, "datetime(year, 1, 1) + timedelta(doy - 1), then month/day taken from it", node=rd or g.node, func=g)
    # a day of year that does not exist in its year is rejected like an impossible month/day (datetime() does that for month/day)
    rng = []
    if rd is not None:
        dn = rd.targets[0].id if isinstance(rd.targets[0], ast.Name) else None
        for st in walk_no_nested(g.node):
            if isinstance(st, ast.If) and any(isinstance(x, ast.Raise) and x.exc is not None and "ValueError" in norm(x.exc) for x in st.body) \
                    and dn is not None and ("%s.year" % dn) in str(norm(st.test)) and any(isinstance(c_, ast.Compare) and isinstance(c_.ops[0], ast.NotEq) for c_ in ast.walk(st.test)):
                rng.append(st)
    ctx.ob("FileSet._standardise_datetime_args.doy_range", bool(rng), "range checks on the day of year: %s" % ([str(norm(r_.test))[:70] for r_ in rng] or "none"),
           "ValueError when datetime(year, 1, 1) + (doy - 1) days leaves the year (name '2017366' was parsed as 2018-01-01)",
           node=rng[0] if rng else (rd or g.node), func=g, witness=None if rng else {"name": "2017366", "template": "{year}{doy}", "parsed as": "2018-01-01"})
    # the end's day of year is converted with the START's year when the end has none of its own
    t_ = ctx.func(FILESET, "FileSet._to_datetime_args")
    tflow = Flow(t_)
    ecalls = [c_ for c_ in calls_in(t_.node, "_standardise_datetime_args")]
    end_ok = None
    end_raw_witness = None
    for c_ in ecalls:
        a0 = tflow.resolve(c_.args[0], at=c_, depth=1) if c_.args else None
        txt0 = str(norm(c_.args[0])) if c_.args else ""
        if "end" not in txt0:
            continue
        kws_ = {k_.arg: str(norm(k_.value)).replace('"', "'") for k_ in c_.keywords}
        pos_ = [str(norm(x_)).replace('"', "'") for x_ in c_.args[1:]]
        given = list(kws_.values()) + pos_
        end_ok = any(".get('year')" in v_ or "['year']" in v_ for v_ in given) and any("start" in v_ for v_ in given)
        if not end_ok and isinstance(a0, ast.Dict) and any(k_ is None and "start" in str(norm(v_)) for k_, v_ in zip(a0.keys, a0.values)):
            # the end fields merged over start fields BEFORE they are standardised: with the raw start fields the start's {doy} / {year2}
            # overwrites the end's own month and day / year when both are converted (start in one notation, end in another)
            merged_ = [v_ for k_, v_ in zip(a0.keys, a0.values) if k_ is None and "start" in str(norm(v_))]
            raw_ = []
            for v_ in merged_:
                rv_ = tflow.resolve(v_, at=c_, depth=2)
                if calls_in(rv_, "_standardise_datetime_args") or (isinstance(rv_, ast.Name) and "datetime" in rv_.id):
                    raise AnalysisError("_to_datetime_args: the end fields are merged over the standardised start fields before their own standardisation: "
                                        "outside the scheme the rules read (which end fields were given is needed for the roll-over)")
                raw_.append(str(norm(v_)))
            end_ok = False
            end_raw_witness = {"template": "{year}{doy}_{hour}-{end_year}{end_month}{end_day}_{end_hour}", "name": "2017365_23-20180102_01",
                               "end": "2017-12-31 01h (the start's day of year replaced the end's month and day)", "expected": "2018-01-02 01h"}
        end_call = c_
    if end_ok is None:
        raise AnalysisError("_to_datetime_args: the standardisation of the end arguments was not found")
    ctx.ob("FileSet._to_datetime_args.end_year", end_ok, "%s" % str(norm(end_call))[:110],
           "the end arguments are standardised with the start's year as default: {end_doy} without {end_year} is a day of the start's year (KeyError: 'year' before)",
           node=end_call, func=t_, witness=None if end_ok else (end_raw_witness if end_raw_witness else
                                                                {"template": "{year}{doy}_{hour}{minute}-{end_doy}_{end_hour}{end_minute}", "raises": "KeyError: 'year'"}))
    ctx.rule("C02.subsec", "T5", "sub-second fields: millisecond writer scale x reader scale = 1; reader weights 10^5, 10^4, 10^3, 1")
    ms = kws.get("millisecond")
    fw = _fmt_width(ms) if ms is not None else None
    okw = fw is not None and norm(fw[1]).replace(" ", "") in ("int(start_time.microsecond/1000)", "start_time.microsecond//1000")
    ctx.ob("FileSet.get_filename.millisecond", okw, "millisecond = %s" % (norm(ms) if ms is not None else None), "microsecond / 1000, truncated", node=ms or fc, func=f)
    sub = None
    for st in walk_no_nested(g.node):
        if isinstance(st, ast.Assign) and norm(st.targets[0]).replace('"', "'") == "%s['microsecond']" % a:
            sub = st
    oks = False
    if sub is not None:
        env = {}
        for nm in ("decisecond", "centisecond", "millisecond", "microsecond"):
            for q in ("'", '"'):
                env["%s.pop(%s%s%s, 0)" % (a, q, nm, q)] = nm
        from ..flow import closed_form
        subval = closed_form(sub.value, sub)
        try:
            # weights: evaluate with unit vectors
            w = {}
            for nm in ("decisecond", "centisecond", "millisecond", "microsecond"):
                e = {k: (1 if v == nm else 0) for k, v in env.items()}
                w[nm] = _ev_arith(subval, e)
            oks = w == {"decisecond": 100000, "centisecond": 10000, "millisecond": 1000, "microsecond": 1}
            fact = w
        except AnalysisError as ex:
            raise AnalysisError("_standardise_datetime_args: sub-second expression %s outside the linear class (%s)" % (norm(subval)[:80], ex))
    ctx.ob("FileSet._standardise_datetime_args.microsecond", oks, "weights %s" % (fact if sub is not None else None),
           "microsecond = 100000*deci + 10000*centi + 1000*milli + micro", node=sub or g.node, func=g)


def _ev_arith(n, env):
    t = norm(n)
    if t in env:
        return env[t]
    if isinstance(n, ast.Constant) and isinstance(n.value, int):
        return n.value
    if isinstance(n, ast.BinOp):
        l, r = _ev_arith(n.left, env), _ev_arith(n.right, env)
        if isinstance(n.op, ast.Add):
            return l + r
        if isinstance(n.op, ast.Mult):
            return l * r
        if isinstance(n.op, ast.Sub):
            return l - r
    raise AnalysisError("sub-second expression outside the linear class: %s" % t)


def rule_endfill(ctx):
    ctx.rule("C02.endfill", "T6+T4", "partial end times are completed from the start (end fields win) and rolled over by the next coarser unit "
             "exactly when they would precede the start")
    f = ctx.func(FILESET, "FileSet._retrieve_time_coverage")
    flow = Flow(f)
    # the end time is built as datetime(**X); X must be the start fields overlaid by the end fields
    from ..canon import canon
    ends = [st for st in flow.stmts if isinstance(st, ast.Assign) and norm(st.targets[0]) == "end_date" and isinstance(st.value, ast.Call)
            and dotted(st.value.func) == "datetime"]
    if not ends:
        raise AnalysisError("_retrieve_time_coverage: `end_date = datetime(**...)` not found")
    e0 = ends[0]
    kw = [k.value for k in e0.value.keywords if k.arg is None]
    if len(kw) != 1 or e0.value.args:
        raise AnalysisError("_retrieve_time_coverage: end_date is not built from one ** mapping")
    full = canon(flow.resolve(kw[0], at=e0, depth=5))
    roles = []
    if isinstance(full, ast.Dict) and all(k is None for k in full.keys):
        for v in full.values:
            if isinstance(v, ast.Subscript) and isinstance(v.slice, ast.Constant) and isinstance(v.value, ast.Call) and dotted(v.value.func).endswith("_to_datetime_args"):
                roles.append({0: "start", 1: "end"}.get(v.slice.value, "?"))
            else:
                raise AnalysisError("_retrieve_time_coverage: operand %s of the end-time mapping is not a result of _to_datetime_args" % norm(v))
    elif isinstance(full, ast.Subscript) and isinstance(full.value, ast.Call) and dotted(full.value.func).endswith("_to_datetime_args"):
        roles = [{0: "start", 1: "end"}.get(getattr(full.slice, "value", None), "?")]
    else:
        raise AnalysisError("_retrieve_time_coverage: end-time mapping %s is not an overlay of the parsed fields" % norm(full)[:80])
    ok = roles == ["start", "end"]
    ctx.ob("FileSet._retrieve_time_coverage.merge", ok, "end_date = datetime(**%s): overlay order %s" % (norm(kw[0]), roles),
           "{**start_args, **end_args}: missing end fields come from the start, given ones win", node=e0, func=f)
    ro = [st for st in flow.stmts if isinstance(st, ast.If) and isinstance(st.test, ast.Compare) and {"end_date", "start_date"} <= {n_.id for n_ in ast.walk(st.test) if isinstance(n_, ast.Name)}]
    okr = False
    fact = None
    okcal = None
    if ro:
        st = ro[0]
        augs = [s for s in walk_no_nested(st) if isinstance(s, ast.AugAssign) and norm(s.target) == "end_date"]
        moves = [s for s in walk_no_nested(st) if isinstance(s, ast.Assign) and norm(s.targets[0]) == "end_date"]
        fact = "if %s: %s" % (norm(st.test), [str(norm(x_))[:70] for x_ in augs + moves])
        tt = {}
        for e, s in ((0, 1), (1, 1), (2, 1)):
            tt[(e, s)] = bool(Interp({"end_date": e, "start_date": s}).ev(st.test))
        ok_aug = bool(augs) and all(isinstance(a_.op, ast.Add) and norm(a_.value) == "self._end_time_superior" for a_ in augs)
        okr = tt == {(0, 1): True, (1, 1): False, (2, 1): False} and ok_aug
        # months and years have no fixed length: their period is added as a calendar offset, the fixed timedelta only for the others
        cal = [c_ for m_ in moves for c_ in calls_in(m_.value, ("DateOffset", "relativedelta"))]
        if moves and not cal:
            raise AnalysisError("_retrieve_time_coverage: re-binding of end_date in the roll-over is not understood: %s" % str(norm(moves[0]))[:80])
        if cal:
            # how many calendar months are added for a superior period of one month / one year / anything else: decided under the
            # three assumptions about self._end_time_superior (a table keyed by the entries of _temporal_resolution, or an if / elif chain)
            SUP = "self._end_time_superior"
            M_, Y_ = "self._temporal_resolution['month']", "self._temporal_resolution['year']"

            def assume(which):
                a_ = {}
                for q_ in ("'", '"'):
                    m_, y_ = M_.replace("'", q_), Y_.replace("'", q_)
                    a_["%s == %s" % (SUP, m_)] = which == "month"
                    a_["%s == %s" % (m_, SUP)] = which == "month"
                    a_["%s == %s" % (SUP, y_)] = which == "year"
                    a_["%s == %s" % (y_, SUP)] = which == "year"
                return a_
            kwv = [k_.value for c_ in cal for k_ in c_.keywords if k_.arg == "months"]
            got_m = {}
            if len(kwv) == 1:
                for which in ("month", "year", "other"):
                    v_ = flow.resolve_under(kwv[0], assume(which), at=cal[0], depth=3)
                    # a table look-up {month entry: 1, year entry: 12}.get(superior[, None])
                    if isinstance(v_, ast.Call) and isinstance(v_.func, ast.Attribute) and v_.func.attr == "get" and isinstance(v_.func.value, ast.Dict) and v_.args \
                            and str(norm(v_.args[0])) == SUP:
                        ent = {str(norm(k_)).replace('"', "'"): v2_ for k_, v2_ in zip(v_.func.value.keys, v_.func.value.values)}
                        v_ = ent.get({"month": M_, "year": Y_}.get(which), v_.args[1] if len(v_.args) > 1 else ast.Constant(None))
                    got_m[which] = const_value(v_) if isinstance(v_, ast.Constant) else str(norm(v_))
            kw_ = {k_.arg for c_ in cal for k_ in c_.keywords}
            # the fixed timedelta is added only when the calendar offset is not (months is None)
            aug_guarded = all(isinstance(parent(a_), ast.If) for a_ in augs)
            okcal = got_m == {"month": 1, "year": 12, "other": None} and kw_ == {"months"} and aug_guarded
            fact = "%s; months added for a superior period of (month, year, other): %s" % (fact, got_m)
        else:
            okcal = False
    ctx.ob("FileSet._retrieve_time_coverage.rollover", okr, fact, "`if end < start:` (strict: an end equal to the start is not moved) the end moves by self._end_time_superior",
           node=ro[0] if ro else f.node, func=f)
    if ro:
        ctx.ob("FileSet._retrieve_time_coverage.rollover.calendar", bool(okcal), fact,
               "a superior period of one month / one year is added as a calendar offset (1 / 12 months), only the fixed-length units as a timedelta: "
               "{end_day}{end_hour} after 28 February moved the end to 4 March (31 days), {end_month}{end_day} across New Year by 366 days",
               node=ro[0], func=f, witness=None if okcal else {"template": "{year}{month}{day}{hour}-{end_day}{end_hour}", "period": "2017-02-28 22h .. 2017-03-01 02h",
                                                             "parsed end": "2017-03-04 02h"})
    # an end given by {end_doy} without its year: a day of year that precedes the start is the day of the NEXT year and has to be counted
    # there (day 001 after 31 December; leap years shift the date of a day number) - the generic roll-over adds one DAY (the next coarser
    # entry of a table that does not know doy) or nothing at all
    fp_ = f.params[1]
    doy_ifs = []
    for st in flow.stmts:
        if isinstance(st, ast.If) and any(isinstance(n_, ast.Compare) and {"end_date", "start_date"} <= {x_.id for x_ in ast.walk(n_) if isinstance(x_, ast.Name)} for n_ in ast.walk(st.test)):
            t_ = str(norm(flow.resolve(st.test, at=st, depth=2, stop=(fp_,)))).replace('"', "'")
            if "end_doy" in t_:
                doy_ifs.append((st, t_))
    ok_doy = False
    fact_doy = "no branch for an end_doy without year that precedes the start"
    if len(doy_ifs) == 1:
        st, t_ = doy_ifs[0]
        mv = [s_ for s_ in st.body if isinstance(s_, ast.Assign) and norm(s_.targets[0]) == "end_date"]
        no_year = "end_year" in t_ and "end_year2" in t_
        if len(mv) == 1 and len(st.body) == 1:
            v_ = str(norm(flow.resolve(mv[0].value, at=mv[0], depth=2, stop=(fp_, "end_date", "start_date")))).replace(" ", "").replace('"', "'")
            doyv = ("%s.get('end_doy',None)" % fp_, "%s.get('end_doy')" % fp_, "%s['end_doy']" % fp_)
            forms = ["end_date.replace(year=start_date.year+1,month=1,day=1)+timedelta(days=int(%s)-1)" % d_ for d_ in doyv]
            forms += ["timedelta(days=int(%s)-1)+end_date.replace(year=start_date.year+1,month=1,day=1)" % d_ for d_ in doyv]
            if v_ not in forms:
                raise AnalysisError("_retrieve_time_coverage: end for an end_doy in the next year %s not understood" % v_[:100])
            ok_doy = no_year
            fact_doy = "if %s: %s" % (t_[:110], norm(mv[0])[:110])
        else:
            raise AnalysisError("_retrieve_time_coverage: the branch for an end_doy that precedes the start is not a single re-binding of end_date")
    elif len(doy_ifs) > 1:
        raise AnalysisError("_retrieve_time_coverage: several branches test end_doy against the start")
    ctx.ob("FileSet._retrieve_time_coverage.rollover.doy", ok_doy, fact_doy,
           "end < start with {end_doy} and no end year: end = 1 January of the year after the start + (end_doy - 1) days, time of day kept",
           node=doy_ifs[0][0] if doy_ifs else (ro[0] if ro else f.node), func=f,
           witness=None if ok_doy else {"template": "{year}{doy}_{hour}{minute}-{end_doy}_{end_hour}{end_minute}", "period": "2016-12-31 23:10 .. 2017-01-01 01:05",
                                        "parsed end": "2016-01-02 01:05"})
    # the merged fields may name a day that the month / year of the START does not have (the 31st, 29 February): the end then lies in the
    # next month / year - datetime() must not be allowed to raise before the roll-over is tried
    from ..flow import lexically_inside
    tr, fld = lexically_inside(e0, (ast.Try,))
    retry = False
    fact_v = "datetime(**merged fields) outside any try"
    if tr is not None and fld == "body":
        hs = [h_ for h_ in tr.handlers if h_.type is not None and str(norm(h_.type)) in ("ValueError", "(ValueError, OverflowError)")]
        if len(hs) != 1:
            raise AnalysisError("_retrieve_time_coverage: handler around datetime(**end fields) not understood")
        again = [s_ for s_ in walk_no_nested(hs[0]) if isinstance(s_, ast.Assign) and norm(s_.targets[0]) == "end_date" and calls_in(s_.value, ("datetime", "DateOffset", "replace"))]
        reraise = [s_ for s_ in walk_no_nested(hs[0]) if isinstance(s_, ast.Raise)]
        if not again:
            raise AnalysisError("_retrieve_time_coverage: the ValueError handler does not build the end again")
        retry = bool(reraise)           # an end that is invalid whatever the month / year is still rejected
        fact_v = "try: %s except ValueError: ... %s" % (norm(e0)[:50], norm(again[0])[:80])
        # the month arithmetic of the retry, evaluated for every start month and a step of 1 / 12 months: (year, month) of the retried end
        # must be the calendar month `months` later (month 13 -> January of the next year, never month 0)
        arith = _next_period_arith(hs[0], again[0])
        if arith is not None:
            retry = retry and not arith
            if arith:
                fact_v += "  [month arithmetic: %s]" % arith[0]
    ctx.ob("FileSet._retrieve_time_coverage.merge.next_period", retry, fact_v,
           "a day that does not exist in the start's month / year is tried in the next one (superior period of a month / a year), anything else is re-raised: "
           "{end_month}{end_day} = 0229 after a start in December 2019 is 29 February 2020", node=e0, func=f,
           witness=None if retry else {"template": "{year}{month}{day}-{end_month}{end_day}", "name": "20191201-0229", "raises": "ValueError: day is out of range for month"})
    # the superior unit
    g = ctx.func(FILESET, "FileSet._get_superior_time_resolution")
    gflow = Flow(g)
    # the index of the decisive resolution: <list of the table's values>.index(max(<resolutions of the given fields>))
    idx = [c for c in calls_in(g.node, "index") if isinstance(c.func, ast.Attribute) and len(c.args) == 1]
    if len(idx) != 1:
        raise AnalysisError("_get_superior_time_resolution: expected one <resolutions>.index(...) call")
    ist = enclosing_stmt(idx[0])
    iname = ist.targets[0].id if isinstance(ist, ast.Assign) and isinstance(ist.targets[0], ast.Name) else None
    if iname is None:
        raise AnalysisError("_get_superior_time_resolution: the index is not bound to a name")
    seq = norm(gflow.resolve(idx[0].func.value, at=idx[0], depth=2)).replace(" ", "")
    arg = gflow.resolve(idx[0].args[0], at=idx[0], depth=3, stop=(g.params[0],))
    sel = dotted(arg.func) if isinstance(arg, ast.Call) else None
    oks = seq == "list(FileSet._temporal_resolution.values())" and sel in ("max", "min") and "_temporal_resolution[" in norm(arg)
    coarsest = sel == "max"
    rets = [r_ for r_ in gflow.stmts if isinstance(r_, ast.Return) and r_.value is not None and not (isinstance(r_.value, ast.Constant) and r_.value.value is None)]
    # the fractions of a second (decisecond ... microsecond) are alternative notations, not nested units: an end given by one of them
    # alone wraps at the next SECOND, not at the previous entry of the table
    from ..flow import guard_chain
    SEC = ("FileSet._temporal_resolution['second']", "self._temporal_resolution['second']", "cls._temporal_resolution['second']")
    decisive = str(norm(gflow.resolve(idx[0].args[0], at=idx[0], depth=1))).replace('"', "'")
    special = []
    for r_ in list(rets):
        gc_ = guard_chain(r_, implicit=False)
        tests = [(str(norm(gflow.resolve(t_, at=t_, depth=2, stop=(g.params[0], iname)))).replace('"', "'"), pol_) for t_, pol_ in gc_]
        if any(any(sx in t_ for sx in SEC) for t_, _ in tests):
            special.append((r_, tests))
            rets.remove(r_)
    arg_txt = str(norm(idx[0].args[0])).replace('"', "'")
    ok_sub = False
    sub_fact = "none: a sub-second end field takes the previous table entry as its superior unit"
    if len(special) == 1:
        r_, tests = special[0]
        val = str(norm(r_.value)).replace('"', "'").replace(" ", "")
        val_ok = val in [sx.replace(" ", "") for sx in SEC] + ["pd.Timedelta(%s).to_pytimedelta()" % sx.replace(" ", "") for sx in SEC] + ["timedelta(seconds=1)"]
        # the decisive value: the argument of .index(...), its definition, or the table read back at that index (L[L.index(v)] is v)
        seq_txt = str(norm(idx[0].func.value)).replace(" ", "").replace('"', "'")
        seq_res = str(norm(gflow.resolve(idx[0].func.value, at=idx[0], depth=2))).replace(" ", "").replace('"', "'")
        dec_forms = {arg_txt.replace(" ", ""), decisive.replace(" ", "")} | {"%s[%s]" % (q_, iname) for q_ in (seq_txt, seq_res)}
        t_ok = len(tests) == 1 and tests[0][1] and any(tests[0][0].replace(" ", "") in ("%s<%s" % (x_, sx.replace(" ", "")), "%s>%s" % (sx.replace(" ", ""), x_))
                                                     for sx in SEC for x_ in dec_forms)
        if not t_ok and len(tests) == 1:
            raise AnalysisError("_get_superior_time_resolution: guard %s of the one-second return not understood" % tests[0][0][:80])
        ok_sub = val_ok and t_ok
        sub_fact = "if %s: return %s" % (tests[0][0] if tests else "?", norm(r_.value))
    elif len(special) > 1:
        raise AnalysisError("_get_superior_time_resolution: several returns guarded by the resolution of a second")
    ctx.ob("FileSet._get_superior_time_resolution.subsecond", ok_sub, sub_fact,
           "a decisive end field finer than a second has the second as its superior unit ({end_millisecond} alone: 23:59:59.900-100 ends at 00:00:00.100, not 10 ms later)",
           node=special[0][0] if special else ist, func=g,
           witness=None if ok_sub else {"template": "{year}{month}{day}_{hour}{minute}{second}{millisecond}-{end_millisecond}", "file": "23:59:59.900 - .100", "parsed end": "23:59:59.110"})
    sup_txt = None
    if len(rets) == 1:
        rv = gflow.resolve(rets[0].value, at=rets[0], depth=3, stop=(iname,))
        subs = [n_ for n_ in ast.walk(rv) if isinstance(n_, ast.Subscript) and iname in norm(n_.slice)]
        if len(subs) == 1:
            sup_txt = norm(subs[0]).replace(" ", "")
    else:
        raise AnalysisError("_get_superior_time_resolution: expected one non-None return")
    ok_sup = sup_txt in ("list(FileSet._temporal_resolution.values())[%s-1]" % iname,)
    from ..flow import arms
    zero = []
    for st in gflow.stmts:
        if isinstance(st, ast.If):
            ab = arms(st, "%s == 0" % iname, parent(st).body if hasattr(parent(st), "body") else None)
            if ab is not None and ab[0] and norm(ab[0][0]) == "return None":
                zero.append(st)
    if sel is None:
        raise AnalysisError("_get_superior_time_resolution: the decisive resolution is not selected by max()/min()")
    ctx.ob("FileSet._get_superior_time_resolution", oks and coarsest and ok_sup and bool(zero), "decisive end field: %s of %s; superior: %s; year guard: %s" % (
        sel, norm(arg)[:60], sup_txt, [norm(z.test) for z in zero][:1]),
        "the COARSEST end field (max of the descending table) decides; the roll-over is one unit of the next coarser entry (index - 1); None for the year",
        node=ist, func=g)
    # path setter feeds it with the end placeholders of the path, prefix stripped
    ps = ctx.func(FILESET, "FileSet.path.setter")
    sc = [n for n in walk_no_nested(ps.node) if isinstance(n, ast.SetComp)]
    okp = False
    fact = None
    for c in sc:
        if "end" in norm(c):
            fact = norm(c)
            okp = norm(c.elt).replace('"', "'") == "p[len('end_'):]" and "p in self._time_placeholder" in [norm(i) for i in c.generators[0].ifs][0] \
                and norm(c.generators[0].iter) == "self._path_placeholders"
    asg = [st for st in walk_no_nested(ps.node) if isinstance(st, ast.Assign) and norm(st.targets[0]) == "self._end_time_superior"]
    okp = okp and bool(asg) and "_get_superior_time_resolution(end_time_placeholders)" in norm(asg[0].value)
    ctx.ob("FileSet.path.setter.end_superior", okp, "%s" % fact, "computed from the end_* temporal placeholders of the path (prefix stripped)", node=asg[0] if asg else ps.node, func=ps)


def _next_period_arith(handler, again):
    """[description of the first wrong case] of the (year, month) the handler puts into the retried end, [] if all 24 cases are right, None if the
    handler does not compute them with integer arithmetic this evaluator reads (e.g. a pandas DateOffset: nothing to check here)"""
    v = again.value
    if not (isinstance(v, ast.Call) and (dotted(v.func) or "").split(".")[-1] == "datetime" and len(v.keywords) == 1 and v.keywords[0].arg is None
            and isinstance(v.keywords[0].value, ast.Dict)):
        return None
    d = v.keywords[0].value
    over = {const_value(k_): x_ for k_, x_ in zip(d.keys, d.values) if k_ is not None}
    if set(over) != {"year", "month"}:
        return None
    assigns = [s_ for s_ in walk_no_nested(handler) if isinstance(s_, ast.Assign) and s_ is not again]

    class _NA(Exception):
        pass

    def ev(e, env):
        if isinstance(e, ast.Constant) and isinstance(e.value, int):
            return e.value
        if isinstance(e, ast.Name):
            if e.id in env:
                return env[e.id]
            raise _NA()
        if isinstance(e, ast.Subscript) and isinstance(e.value, ast.Name) and e.value.id in ("end_args", "completed_end_args") and const_value(e.slice) in ("year", "month"):
            return env["@" + const_value(e.slice)]
        if isinstance(e, ast.Attribute) and isinstance(e.value, ast.Name) and e.attr in ("year", "month") and "start" in e.value.id:
            # the START's year / month: a different date than the completed end (the end may name its own month)
            return env["@start_" + e.attr]
        if isinstance(e, ast.Subscript) and isinstance(e.value, ast.Name) and "start" in e.value.id and const_value(e.slice) in ("year", "month"):
            return env["@start_" + const_value(e.slice)]
        if isinstance(e, ast.BinOp) and isinstance(e.op, (ast.Add, ast.Sub, ast.Mult, ast.FloorDiv, ast.Mod)):
            a, b = ev(e.left, env), ev(e.right, env)
            return {ast.Add: a + b, ast.Sub: a - b, ast.Mult: a * b}.get(type(e.op)) if not isinstance(e.op, (ast.FloorDiv, ast.Mod)) else (a // b if isinstance(e.op, ast.FloorDiv) else a % b)
        if isinstance(e, ast.Call) and dotted(e.func) == "divmod" and len(e.args) == 2:
            return divmod(ev(e.args[0], env), ev(e.args[1], env))
        if isinstance(e, ast.Tuple):
            return tuple(ev(x, env) for x in e.elts)
        raise _NA()
    wrong = []
    try:
        for m0 in range(1, 13):
            for step in (1, 12):
                env = {"@year": 2019, "@month": m0, "months": step, "@start_year": 2018, "@start_month": m0 % 12 + 1}
                for a_ in assigns:
                    t_ = a_.targets[0]
                    if isinstance(t_, ast.Name) and t_.id == "months":
                        continue        # the step: a table look-up on the superior period, decided by rollover.calendar
                    val = ev(a_.value, env)
                    if isinstance(t_, ast.Name):
                        env[t_.id] = val
                    elif isinstance(t_, ast.Tuple) and isinstance(val, tuple) and len(val) == len(t_.elts) and all(isinstance(x, ast.Name) for x in t_.elts):
                        env.update({x.id: y for x, y in zip(t_.elts, val)})
                    else:
                        raise _NA()
                got = (ev(over["year"], env), ev(over["month"], env))
                tot = 2019 * 12 + (m0 - 1) + step
                want = (tot // 12, tot % 12 + 1)
                if got != want and not wrong:
                    wrong.append("start month %d + %d months -> (year, month) = %s, expected %s" % (m0, step, got, want))
    except _NA:
        return None
    return wrong


def rule_default_end(ctx):
    ctx.rule("C02.default_end", "T1+T5", "missing end -> start + time_coverage (timedelta) or start; end without start -> ValueError; neither -> whole axis")
    f = ctx.func(FILESET, "FileSet.get_info")
    flow = Flow(f)
    S, E = "info.times[0] is None", "info.times[1] is None"
    TC = "isinstance(self.time_coverage, timedelta)"
    def rs(t_):
        return str(norm(flow.resolve(t_, at=t_, stop=("info",))))
    if not any(S in rs(n.test) for n in walk_no_nested(f.node) if isinstance(n, ast.If)):
        raise AnalysisError("get_info: branch on a missing start time not found")
    store = [st for st in flow.stmts if isinstance(st, ast.Assign) and norm(st.targets[0]).startswith("self.info_cache[")]
    if not store:
        raise AnalysisError("get_info: store into the info cache not found")
    # effects of the defaulting block, per combination of missing times
    cand = [st for st in flow.stmts if (isinstance(st, ast.Raise) and flow._order(st) < flow._order(store[0]))
            or (isinstance(st, ast.Assign) and norm(st.targets[0]) in ("info.times", "info.times[1]", "info.times[0]") and flow._order(st) < flow._order(store[0])
                and any(S in rs(t_) or E in rs(t_) for t_, _ in guard_chain(st, implicit=True)))]

    def effects(assume):
        out = []
        for st in cand:
            if flow.live_under(st, assume, stop=("info",)):
                gs = guard_chain(st, implicit=True)
                # only statements of the defaulting block (guarded by one of the two tests)
                if not gs:
                    continue
                if isinstance(st, ast.Raise):
                    if all(flow.decide_under(t_, assume, at=t_, stop=("info",)) is not None for t_, _ in gs if S in rs(t_) or E in rs(t_)) \
                            and any(S in rs(t_) or E in rs(t_) for t_, _ in gs):
                        out.append("raise " + (norm(st.exc.func) if isinstance(st.exc, ast.Call) else norm(st.exc) if st.exc else ""))
                else:
                    out.append("%s = %s" % (norm(st.targets[0]), norm(flow.resolve_under(st.value, assume, at=st, stop=("info",))).replace(" ", "")))
        return out
    both = effects({S: True, E: True})
    no_start = effects({S: True, E: False})
    ctx.ob("FileSet.get_info.no_start", both == ["info.times = [datetime.min,datetime.max]"] and no_start == ["raise ValueError"],
           "no times: %s; end without start: %s" % (both, no_start),
           "no times at all -> [datetime.min, datetime.max]; an end without a start -> ValueError", node=cand[0] if cand else f.node, func=f)
    end_td = effects({S: False, E: True, TC: True})
    end_no = effects({S: False, E: True, TC: False})
    nothing = effects({S: False, E: False})
    ok_end = end_td in (["info.times[1] = info.times[0]+self.time_coverage"], ["info.times[1] = self.time_coverage+info.times[0]"]) \
        and end_no == ["info.times[1] = info.times[0]"] and nothing == []
    ctx.ob("FileSet.get_info.no_end", ok_end, "end missing, timedelta coverage: %s; otherwise: %s; both present: %s" % (end_td, end_no, nothing),
           "end = start + time_coverage when that is a timedelta (sum, not difference), else end = start", node=cand[0] if cand else f.node, func=f)
    # these defaults apply after both sources were consulted and before the cache store
    okd = bool(cand) and all(flow._order(st) < flow._order(store[0]) for st in cand)
    upd = [c for c in calls_in(f.node, "update") if norm(c.func) == "info.update"]
    okd = okd and all(flow._order(enclosing_stmt(c)) < min(flow._order(st) for st in cand) for c in upd)
    ctx.ob("FileSet.get_info.defaults_before_store", okd, "defaulting after the updates and before the cache store: %s" % okd, "the cached info already has both times", node=store[0], func=f)


def rule_merge(ctx):
    ctx.rule("C02.merge", "T1", "file-name information first, handler information second and unconditionally under 'handler'/'both'; None never overwrites a time")
    f = ctx.func(FILESET, "FileSet.get_info")
    flow = Flow(f)
    fn = [st for st in f.body if isinstance(st, ast.If) and norm(st.test).replace('"', "'") == "retrieve_via in ('filename', 'both')"]
    hd = [st for st in f.body if isinstance(st, ast.If) and "'handler'" in norm(st.test).replace('"', "'")]
    okf = False
    if fn:
        for c in calls_in(fn[0], "update"):
            if norm(c.func) == "info.update" and len(c.args) == 1:
                v = flow.resolve(c.args[0], at=c, depth=3, stop=("info",))
                t = str(norm(v))
                # the update argument is the FileInfo built from the parsed name of this file
                okf = isinstance(v, ast.Call) and dotted(v.func) == "FileInfo" and "self.parse_filename(info.path)" in t and "_retrieve_time_coverage(" in t
    ctx.ob("FileSet.get_info.filename", okf, "%s" % (norm(fn[0].test) if fn else None), "under 'filename'/'both' the parsed placeholders update the info", node=fn[0] if fn else f.node, func=f)
    okh = bool(hd) and norm(hd[0].test).replace('"', "'") == "retrieve_via in ('handler', 'both')" \
        and any(norm(c) == "info.update(handler_info)" for c in calls_in(hd[0], "update")) \
        and any(norm(c.func) == "self.handler.get_info" for c in calls_in(hd[0], "get_info"))
    ctx.ob("FileSet.get_info.handler", okh, "handler consulted under: %s" % (norm(hd[0].test) if hd else None),
           "exactly `retrieve_via in ('handler', 'both')` - not skipped when the name already gave both times (the handler overrides the name)",
           node=hd[0] if hd else f.node, func=f)
    oko = bool(fn) and bool(hd) and f.body.index(fn[0]) < f.body.index(hd[0])
    ctx.ob("FileSet.get_info.order", oko, "file-name block before handler block: %s" % oko, "handler information is applied last and wins", node=hd[0] if hd else f.node, func=f)
    u = ctx.func(HCOMMON, "FileInfo.update")
    other = u.params[1]
    stores = [st for st in walk_no_nested(u.node) if isinstance(st, ast.Assign) and norm(st.targets[0]).startswith("self.times")]
    bad = []
    seen = {}
    for st in stores:
        t = st.targets[0]
        if not (isinstance(t, ast.Subscript) and isinstance(t.slice, ast.Constant) and t.slice.value in (0, 1)):
            raise AnalysisError("FileInfo.update: store %s is not one of self.times[0] / self.times[1]" % norm(st))
        j = t.slice.value
        src = "%s.times[%d]" % (other, j)
        uflow = Flow(u) if "uflow" not in dir() else uflow
        if norm(uflow.resolve(st.value, at=st, stop=(other,))) != src:
            bad.append("%s (wanted %s)" % (norm(st), src))
            continue
        guards = guard_chain(st)
        if not guards:
            bad.append("%s is unconditional" % norm(st))
            continue
        table = {}
        for isnone in (True, False):
            for ign in (True, False):
                val = None if isnone else 7
                env = {"ignore_none_time": ign}
                for k in (0, 1):
                    env["%s.times[%d]" % (other, k)] = val if k == j else 7      # the OTHER time is present: a test on it cannot protect this one
                try:
                    table[(isnone, ign)] = all(bool(Interp(env).ev(uflow.resolve(g, at=g, stop=(other,)))) == pol for g, pol in guards)
                except AnalysisError as e:
                    raise AnalysisError("FileInfo.update: guard of %s outside the model: %s" % (norm(st), e))
        want = {(True, True): False, (True, False): True, (False, True): True, (False, False): True}
        if table != want:
            bad.append("%s under %s: overwrites when %s" % (norm(st), " and ".join(norm(g) for g, _ in guards),
                                                           [("None" if k[0] else "time", "ignore" if k[1] else "keep") for k, v in table.items() if v != want[k]]))
        seen[j] = True
    if not bad and set(seen) != {0, 1}:
        raise AnalysisError("FileInfo.update: the stores into self.times[0] and self.times[1] were not both found (%s)" % [norm(s) for s in stores])
    dfl = u.defaults().get("ignore_none_time")
    attr = any(norm(s).replace(" ", "") in ("self.attr.update(**%s.attr)" % other, "self.attr.update(%s.attr)" % other) for s in u.body)
    if not attr:
        # the merge written as a new dict: the LAST spread wins, it must be the other object's attributes
        for s_ in u.body:
            if isinstance(s_, ast.Assign) and len(s_.targets) == 1 and norm(s_.targets[0]) == "self.attr":
                v_ = s_.value
                spreads = None
                if isinstance(v_, ast.Dict) and all(k_ is None for k_ in v_.keys):
                    spreads = [str(norm(x_)) for x_ in v_.values]
                elif isinstance(v_, ast.Call) and dotted(v_.func) == "dict" and len(v_.args) <= 1 and all(k_.arg is None for k_ in v_.keywords):
                    spreads = [str(norm(x_)) for x_ in list(v_.args) + [k_.value for k_ in v_.keywords]]
                if spreads is not None and sorted(spreads) == sorted(["self.attr", "%s.attr" % other]):
                    attr = True
                    if spreads[-1] != "%s.attr" % other:
                        bad.append("%s: the attributes already present override those of `%s`" % (norm(s_)[:60], other))
    if dfl is None or norm(dfl) != "True":
        bad.append("default of ignore_none_time is %s" % (norm(dfl) if dfl is not None else None))
    if not attr:
        raise AnalysisError("FileInfo.update: the attribute merge self.attr.update(**other.attr) was not found")
    ctx.ob("FileInfo.update", not bad, "%s%s" % ([norm(s)[:50] for s in stores], ("  [%s]" % "; ".join(bad)) if bad else ""),
           "a time is overwritten only by a non-None time (default); attributes are merged", node=u.node, func=u)


def rule_reject(ctx):
    ctx.rule("C02.reject", "T1", "non-matching names raise ValueError; unknown / unfilled placeholders raise their dedicated errors")
    f = ctx.func(FILESET, "FileSet.parse_filename")
    flow = Flow(f)
    m = [st for st in flow.stmts if isinstance(st, ast.Assign) and calls_in(st.value, ("match", "fullmatch"))]
    ok = False
    fact = None
    if m:
        r = norm(m[0].targets[0])
        from ..flow import guard_chain as _gc

        def truth_of_match(st):
            """what the guards of st (guard clauses included) say about the match: True (truthy), False (falsy / None), None (nothing)"""
            says = None
            for t_, pol_ in _gc(st, implicit=True):
                tt = str(norm(t_)).replace(" ", "")
                v_ = {r: True, "not%s" % r: False, "%sisNone" % r: False, "%sisnotNone" % r: True, "not(%s)" % r: False}.get(tt)
                if v_ is not None:
                    says = v_ if pol_ else not v_
            return says
        g = [st for st in flow.stmts if isinstance(st, ast.If) and str(norm(st.test)).replace(" ", "") in (r, "not%s" % r, "%sisNone" % r, "%sisnotNone" % r)]
        reads = [s_ for s_ in flow.stmts if isinstance(s_, ast.Return) and s_.value is not None and "%s.groupdict()" % r in str(norm(s_.value))]
        raisers = [s_ for s_ in flow.stmts if isinstance(s_, ast.Raise) and s_.exc is not None and "ValueError" in str(norm(s_.exc))]
        if not g or not reads:
            raise AnalysisError("parse_filename: the test of the match / the read of its groups was not found")
        ok = all(truth_of_match(s_) is True for s_ in reads) and any(truth_of_match(s_) is False for s_ in raisers)
        fact = "groups read under %s; ValueError under %s" % ([truth_of_match(s_) for s_ in reads], [truth_of_match(s_) for s_ in raisers])
    ctx.ob("FileSet.parse_filename.reject", ok, fact, "ValueError on every path where the match is falsy; groups are read only from a match", node=m[0] if m else f.node, func=f)
    # ... and the match that is tested is THE match of the whole name against the whole template: every definition of the result that reaches the
    # guard is <regex>.match(<the filename given>), and every regex comes from the fileset's filled path or from the template given
    if m and ok:
        pf, pt = f.params[1], f.params[2]
        wrong = None
        nsites = 0
        for d in flow.defs(r, g[0]):
            if d == "param" or not isinstance(d, ast.Assign):
                raise AnalysisError("parse_filename: a definition of %s that is not an assignment reaches the guard" % r)
            v = d.value
            if not (isinstance(v, ast.Call) and isinstance(v.func, ast.Attribute) and v.func.attr in ("match", "fullmatch") and len(v.args) == 1 and not v.keywords):
                raise AnalysisError("parse_filename: %s = %s is not a match of a regex" % (r, norm(v)[:80]))
            nsites += 1
            arg = flow.resolve(v.args[0], at=d)
            if norm(arg) != pf:
                wrong = wrong or "%s: the string that is matched is %s, not the whole name" % (norm(d)[:70], norm(arg)[:60])
                continue
            if not isinstance(v.func.value, ast.Name):
                raise AnalysisError("parse_filename: the regex of %s is not held in a name" % norm(v)[:80])
            for rd in flow.defs(v.func.value.id, d):
                if rd == "param" or not isinstance(rd, ast.Assign):
                    raise AnalysisError("parse_filename: definition of the regex not understood")
                rv = rd.value
                txt = norm(rv)
                good = txt == pt or "self._filled_path" in txt
                for c_ in calls_in(rv, "_fill_placeholders"):
                    a0 = c_.args[0] if c_.args else next((k_.value for k_ in c_.keywords if k_.arg == "path"), None)
                    good = a0 is not None and norm(a0) in (pt, "self.path")
                if not good:
                    wrong = wrong or "%s: the regex is not the one of the whole path / of the template given" % txt[:80]
        ctx.ob("FileSet.parse_filename.whole", wrong is None, "%d match(es) reach the guard%s" % (nsites, "" if wrong is None else "; " + wrong),
               "only a match of the whole name against the whole template is accepted (a name that matches with its last component only contradicts the "
               "template in its directories)", node=m[0], func=f,
               witness=None if wrong is None else {"template": "/data/{sat}/{year}/{month}/{sat}_{year}{month}{day}.nc", "name": "/data/noaa18/2019/07/noaa18_20200105.nc",
                                                  "expected": "ValueError"})
    for fname, where in (("get_filename", "template.format"), ("_fill_placeholders", "path.format")):
        g = ctx.func(FILESET, "FileSet." + fname)
        tr = [st for st in walk_no_nested(g.node) if isinstance(st, ast.Try) and any(calls_in(s, "format") for s in st.body)]
        okk = False
        if tr:
            for h in tr[0].handlers:
                if h.type is not None and "KeyError" in norm(h.type):
                    okk = any(isinstance(s, ast.Raise) and "UnknownPlaceholderError" in norm(s.exc) for s in h.body)
        ctx.ob("FileSet.%s.keyerror" % fname, okk, "KeyError from str.format mapped to UnknownPlaceholderError: %s" % okk, "an unknown placeholder raises UnknownPlaceholderError",
               node=tr[0] if tr else g.node, func=g)
    g = ctx.func(FILESET, "FileSet.get_filename")
    un = [st for st in walk_no_nested(g.node) if isinstance(st, ast.If) and "_special_chars" in norm(st.test)
          and any(isinstance(s, ast.Raise) and "UnfilledPlaceholderError" in norm(s.exc) for s in st.body)]
    oku = bool(un) and norm(un[0].test).replace(" ", "") == "any((cinself._special_charsforcinfilename))"
    rets = [s for s in walk_no_nested(g.node) if isinstance(s, ast.Return)]
    oku = oku and len(rets) == 1 and stmt_before(g.node, un[0], rets[0])
    ctx.ob("FileSet.get_filename.unfilled", oku, "%s" % (norm(un[0].test) if un else None), "a generated name that still contains template characters raises UnfilledPlaceholderError before it is returned",
           node=un[0] if un else g.node, func=g)
    # ... which only sees the characters of _special_chars: a user placeholder left unfilled is replaced by its REGEX, and `.+`, `noaa.`,
    # `^noaa18$` contain none of them.  The regex of an unfilled placeholder may stand for its filling only if it is a plain text.
    need = set(".+^$)]}")
    pre = []
    for lp in [st for st in walk_no_nested(g.node) if isinstance(st, ast.For)]:
        for st in walk_no_nested(lp):
            if isinstance(st, ast.If) and any(isinstance(s_, ast.Raise) and "UnfilledPlaceholderError" in norm(s_.exc) for s_ in st.body):
                chars = set()
                for c_ in ast.walk(st.test):
                    if isinstance(c_, ast.Constant) and isinstance(c_.value, str):
                        chars |= set(c_.value)
                pre.append((lp, st, chars))
    okp = False
    factp = "no check of the placeholders' own regexes"
    if len(pre) == 1:
        lp, st, chars = pre[0]
        fmt_calls = [c_ for c_ in calls_in(g.node, "format") if any(k_.arg is None for k_ in c_.keywords)]
        before = bool(fmt_calls) and stmt_before(g.node, lp, enclosing_stmt(fmt_calls[0]))
        mentions_fill = any(isinstance(n_, ast.Name) and n_.id == g.params[3] for n_ in ast.walk(st.test))
        # raised only for a placeholder the CALLER did not fill: `p not in <the fill argument>` is one of the conjuncts (or the loop leaves the
        # caller's names out), and what is looked at is the placeholder's own regex, never the caller's value (a version "v1.2" is a legitimate filling)
        pfill = g.params[3]
        gflow = Flow(g)
        conj = st.test.values if isinstance(st.test, ast.BoolOp) and isinstance(st.test.op, ast.And) else [st.test]
        unfilled_only = False
        for c_ in conj:
            if isinstance(c_, ast.Compare) and len(c_.ops) == 1 and isinstance(c_.ops[0], ast.NotIn) and norm(c_.left) == norm(lp.target) \
                    and norm(c_.comparators[0]) in (pfill, "%s or {}" % pfill, "(%s or {})" % pfill):
                unfilled_only = gflow.defs(pfill, st) == ["param"]
        if not unfilled_only and isinstance(lp.iter, ast.BinOp):
            sub = [b_ for b_ in ast.walk(lp.iter) if isinstance(b_, ast.BinOp) and isinstance(b_.op, ast.Sub)
                   and any(isinstance(n_, ast.Name) and n_.id == pfill for n_ in ast.walk(b_.right))]
            unfilled_only = bool(sub) and gflow.defs(pfill, lp) == ["param"]
        reads_value = any(isinstance(n_, ast.Subscript) and norm(n_.value) == pfill for c_ in conj for n_ in ast.walk(c_))
        if not unfilled_only and not reads_value and mentions_fill:
            raise AnalysisError("get_filename: how the check is restricted to placeholders the caller left unfilled was not understood: %s" % norm(st.test)[:100])
        okp = need <= chars and before and mentions_fill and unfilled_only
        if need <= chars and before and mentions_fill and not unfilled_only:
            factp_extra = "; the caller's own fillings are checked as well"
        else:
            factp_extra = ""
        factp = "for %s in %s: if %s: raise UnfilledPlaceholderError%s" % (norm(lp.target), norm(lp.iter)[:60], norm(st.test)[:90], factp_extra)
    elif len(pre) > 1:
        raise AnalysisError("get_filename: several loops raise UnfilledPlaceholderError")
    ctx.ob("FileSet.get_filename.unfilled.regex", okp, factp, "before the template is filled: a placeholder of the template that the caller did not fill and whose "
           "regex contains a regex character (. + ^ $ and the closing brackets included) raises UnfilledPlaceholderError", node=pre[0][1] if pre else g.node, func=g,
           witness=None if okp else ({"template": "{version}/{year}{month}{day}.nc", "get_filename(t, fill={'version': 'v1.2'})": "UnfilledPlaceholderError", "expected": "v1.2/20170102.nc"}
                                     if "caller's own" in factp else {"placeholder": {"sat": ".+"}, "get_filename(t, fill={})": "/data/.+/20170102.nc"}))


def rule_anchor(ctx, rule="C01.anchor"):
    """shared with C01: the path regex is anchored at both ends, dots are escaped and `*` rewritten before placeholder regexes are substituted"""
    ctx.rule(rule, "T1+T3", "template -> regex: anchored at both ends; literal dots escaped and '*' rewritten BEFORE the placeholder regexes are substituted")
    f = ctx.func(FILESET, "FileSet._fill_placeholders")
    flow = Flow(f)
    rs = [st for st in flow.stmts if isinstance(st, ast.Assign) and norm(st.targets[0]) == "regex_string"]
    ok = False
    fact = None
    if rs:
        v = rs[0].value
        fact = norm(v)
        parts = []

        def flat(n):
            if isinstance(n, ast.BinOp) and isinstance(n.op, ast.Add):
                flat(n.left)
                flat(n.right)
            else:
                parts.append(n)
        flat(v)
        ok = len(parts) == 3 and isinstance(parts[0], ast.Constant) and parts[0].value == "^" and isinstance(parts[2], ast.Constant) and parts[2].value == "$" \
            and norm(parts[1]) == "path.format(**placeholder)"
    ctx.ob("FileSet._fill_placeholders.anchored", ok, "regex_string = %s" % fact, "'^' + path.format(**placeholder) + '$' (or only ever used with fullmatch)", node=rs[0] if rs else f.node, func=f)
    esc = [st for st in flow.stmts if isinstance(st, ast.Assign) and norm(st.targets[0]) == f.params[1] and ".replace(" in norm(st.value)]
    oke = False
    fact = None
    if esc and rs:
        chain = norm(esc[0].value)
        fact = chain
        # order inside the chain: backslash first, then dot, then star
        i_b, i_d, i_s = chain.find("replace('\\\\', "), chain.find("replace('.', '\\\\.')"), chain.find("replace('*', '.*?')")
        oke = -1 < i_b < i_d < i_s and stmt_before(f.node, esc[0], rs[0])
    ctx.ob("FileSet._fill_placeholders.escape", oke, "%s" % fact, "backslashes, then '.' -> '\\.', then '*' -> '.*?' on the template itself, before format() inserts the placeholder regexes "
           "(which contain dots and stars of their own)", node=esc[0] if esc else f.node, func=f)
    # users: the compiled regex is applied with match (anchored by ^...$)
    g = ctx.func(FILESET, "FileSet._get_matching_files")
    mm = [c for c in calls_in(g.node, ("match", "fullmatch"))]
    ctx.ob("FileSet._get_matching_files.regex", bool(mm) and norm(mm[0].args[0]) == "filename", "%s" % (norm(mm[0]) if mm else None), "regex.match(filename) on the full path", node=mm[0] if mm else g.node, func=g)


MEMO_EXAMPLE = """
class K:
    def a(self):
        if self._m is None:
            self._m = compile(self._src)
        return self._m
    def b(self, v):
        self._src = v
    def c(self, v):
        self._src = v
        self._m = None
"""


def memo_incoherences(class_node):
    """lazy memo attributes (`if self.X is None: self.X = f(self.B...)`) and the methods that store a dependency B without resetting X"""
    memos = {}
    for m in class_node.body:
        if not isinstance(m, ast.FunctionDef):
            continue
        for st in ast.walk(m):
            if isinstance(st, ast.If) and isinstance(st.test, ast.Compare) and len(st.test.ops) == 1 and isinstance(st.test.ops[0], ast.Is) \
                    and isinstance(st.test.comparators[0], ast.Constant) and st.test.comparators[0].value is None:
                x = dotted(st.test.left)
                if not (x and x.startswith("self.")):
                    continue
                for s2 in st.body:
                    if isinstance(s2, ast.Assign) and len(s2.targets) == 1 and dotted(s2.targets[0]) == x:
                        deps = {dotted(n) for n in ast.walk(s2.value) if isinstance(n, ast.Attribute) and dotted(n) and dotted(n).startswith("self.") and dotted(n).count(".") == 1}
                        deps.discard(x)
                        if deps:
                            memos[x] = (deps, m.name)
    out = []
    for x, (deps, where) in memos.items():
        for m in class_node.body:
            if not isinstance(m, ast.FunctionDef):
                continue
            stored = set()
            for st in ast.walk(m):
                if isinstance(st, (ast.Assign, ast.AugAssign)):
                    for t in (st.targets if isinstance(st, ast.Assign) else [st.target]):
                        d = dotted(t)
                        if d:
                            stored.add(d)
            hit = stored & deps
            if hit and x not in stored and m.name != "__init__":
                out.append((x, where, m.name, sorted(hit)))
    return memos, out


def rule_memo(ctx, rule="C02.memo"):
    ctx.rule(rule, "T2 (derived-state coherence)", "a lazily computed attribute is reset wherever the attributes it was computed from are re-assigned")
    ex = ast.parse(MEMO_EXAMPLE).body[0]
    m0, bad0 = memo_incoherences(ex)
    if not (list(m0) == ["self._m"] and [b[2] for b in bad0] == ["b"]):
        raise AnalysisError("memo detector self-check failed: %s %s" % (m0, bad0))
    mod = ctx.mod(FILESET)
    cls = mod.cls("FileSet")
    memos, bad = memo_incoherences(cls)
    f = ctx.func(FILESET, "FileSet.parse_filename")
    ctx.ob("FileSet.memo_coherence", not bad, "lazy attributes: %s; stale after: %s" % (sorted(memos) or "none", ["%s (from %s) not reset in %s which stores %s" % b for b in bad] or "nothing"),
           "every method that stores a dependency also resets the memo (detector verified on an embedded positive example)", node=f.node, func=f)


def rule_regexfill(ctx):
    ctx.rule("C02.repeat", "T6", "_fill_placeholders: repetitions of a placeholder are replaced behind its first occurrence, located in the string as it is NOW")
    # what a repetition is replaced by: the regex of the placeholder without its named group - but still ONE group (a list of values is
    # an alternation a|b: bare, it would split the whole anchored path regex into two alternatives)
    rg = ctx.func(FILESET, "FileSet._remove_group_capturing")
    rets_g = [r_ for r_ in walk_no_nested(rg.node) if isinstance(r_, ast.Return) and r_.value is not None]
    stripped = [r_ for r_ in rets_g if any(isinstance(n_, ast.Subscript) and isinstance(n_.slice, ast.Slice) for n_ in ast.walk(r_.value))]
    if not stripped:
        raise AnalysisError("_remove_group_capturing: the return of the stripped regex was not found")

    def grouped(e):
        """e is '(?:' + <something> + ')'  (or an f-string / format of that shape)"""
        parts = []

        def flat(n_):
            if isinstance(n_, ast.BinOp) and isinstance(n_.op, ast.Add):
                flat(n_.left)
                flat(n_.right)
            else:
                parts.append(n_)
        if isinstance(e, ast.JoinedStr):
            parts.extend(e.values)
        else:
            flat(e)
        first, last = parts[0], parts[-1]
        return isinstance(first, ast.Constant) and str(first.value).startswith("(?:") and isinstance(last, ast.Constant) and str(last.value).endswith(")") and len(parts) >= 3
    in_helper = all(grouped(r_.value) for r_ in stripped)
    # ... the group is added where the repetition is inserted (the dict of the duplicated placeholders in _fill_placeholders)
    fp = ctx.func(FILESET, "FileSet._fill_placeholders")
    class _V:
        def __init__(self, value):
            self.value = value
    dcs = []
    for c_ in calls_in(fp.node, "_remove_group_capturing"):
        top = c_
        while isinstance(parent(top), ast.BinOp) and isinstance(parent(top).op, ast.Add) or isinstance(parent(top), ast.JoinedStr) or isinstance(parent(top), ast.FormattedValue):
            top = parent(top)
        dcs.append(_V(top))
    # ... or the repetition is a back-reference to the named group of the first occurrence: (?P=<name>)

    def backref(e, key):
        parts = []

        def flat(n_):
            if isinstance(n_, ast.BinOp) and isinstance(n_.op, ast.Add):
                flat(n_.left)
                flat(n_.right)
            else:
                parts.append(n_)
        if isinstance(e, ast.JoinedStr):
            parts.extend(v_.value if isinstance(v_, ast.FormattedValue) else v_ for v_ in e.values)
        else:
            flat(e)
        return len(parts) == 3 and isinstance(parts[0], ast.Constant) and parts[0].value == "(?P=" and str(norm(parts[1])) == key \
            and isinstance(parts[2], ast.Constant) and parts[2].value == ")"
    brefs = []
    for dc_ in [n_ for n_ in walk_no_nested(fp.node) if isinstance(n_, ast.DictComp)]:
        if any("count" in str(norm(i_)) for g_ in dc_.generators for i_ in g_.ifs) and backref(dc_.value, str(norm(dc_.key))):
            brefs.append(dc_)
    if not dcs and not brefs:
        # a loop over the repeated names that builds the back-reference for each: v = f"(?P={name})" with `name` the loop variable
        for lp_ in [n_ for n_ in walk_no_nested(fp.node) if isinstance(n_, ast.For) and isinstance(n_.target, ast.Name)]:
            for st_ in lp_.body:
                if isinstance(st_, ast.Assign) and len(st_.targets) == 1 and isinstance(st_.targets[0], ast.Name) and backref(st_.value, lp_.target.id):
                    brefs.append(st_)
    if not dcs and not brefs:
        raise AnalysisError("_fill_placeholders: what is inserted for the repeated placeholders (helper call or back-reference) was not found")
    at_site = bool(dcs) and all(grouped(d_.value) for d_ in dcs)
    one_atom = bool(brefs) or at_site or (bool(dcs) and in_helper)
    shown = [str(norm(d_.value))[:70] for d_ in dcs] + [str(norm(d_.value))[:70] for d_ in brefs]
    anchor = dcs[0].value if dcs else brefs[0]
    ctx.ob("FileSet._fill_placeholders.repetition_grouped", one_atom, "inserted for a repetition: %s; helper returns %s" % (shown, [str(norm(r_.value))[:50] for r_ in stripped]),
           "one atom of the path regex - '(?:' + <regex without the named group> + ')' or a back-reference: the repetition of a placeholder with a value list stays one alternative",
           node=anchor, func=fp, witness=None if one_atom else {"template": "/data/{sat}/{year}{month}{day}_{sat}.nc", "placeholder": {"sat": ["noaa18", "metopa"]},
                                                                 "regex": "^/data/(?P<sat>noaa18|metopa)/..._noaa18|metopa\\.nc$"})
    ctx.ob("FileSet._fill_placeholders.repetition_same_value", bool(brefs) and not dcs, "inserted for a repetition: %s" % shown,
           "(?P=<name>): every further occurrence must repeat what the first one captured - an independent copy of the regex accepts a name that fills one "
           "placeholder with two values and reports the first (a name that does not match the template is rejected, not mis-parsed)",
           node=anchor, func=fp, witness=None if (brefs and not dcs) else {"template": "/data/{year}/{month}/{year}{month}{day}_{hour}.nc", "name": "/data/2016/03/20170102_03.nc",
                                                                           "parsed start": "2016-03-02 03:00", "expected": "ValueError"})
    # get_filename fills a user placeholder with the value of the same helper: it must stay the PLAIN value there
    gfn = ctx.func(FILESET, "FileSet.get_filename")
    uses_helper = bool(calls_in(gfn.node, "_remove_group_capturing"))
    ctx.ob("FileSet._remove_group_capturing.plain", not (uses_helper and in_helper), "get_filename uses the helper: %s; helper adds a group: %s" % (uses_helper, in_helper),
           "the helper only strips the named group: get_filename writes its result into the file NAME ('(?:noaa)_20200101.dat' is an unfilled placeholder)",
           node=stripped[0], func=rg, witness=None if not (uses_helper and in_helper) else {"placeholder": {"sat": "noaa"}, "get_filename": "UnfilledPlaceholderError: (?:noaa)_20200101_00.dat"})
    f = ctx.func(FILESET, "FileSet._fill_placeholders")
    flow = Flow(f)
    pth = f.params[1]
    loops = [st for st in flow.stmts if isinstance(st, ast.For) and any(
        isinstance(x, ast.Assign) and norm(x.targets[0]) == pth for x in walk_no_nested(st))]
    if len(loops) != 1:
        raise AnalysisError("_fill_placeholders: the loop that rewrites repeated placeholders was not found")
    lp = loops[0]
    # the split position: the name used in both slices  path[:k] / path[k:]
    cuts = [n_ for n_ in walk_no_nested(lp) if isinstance(n_, ast.Subscript) and norm(n_.value) == pth and isinstance(n_.slice, ast.Slice)]
    ks = {norm(n_.slice.lower or n_.slice.upper) for n_ in cuts if (n_.slice.lower is None) != (n_.slice.upper is None)}
    if len(ks) != 1 or len(cuts) < 2:
        raise AnalysisError("_fill_placeholders: head / tail slices of the path at one split position not found")
    k = list(ks)[0]
    kdefs = [st for st in walk_no_nested(lp) if isinstance(st, ast.Assign) and norm(st.targets[0]) == k]
    fresh = False
    fact = "split position %s is not computed inside the loop" % k
    if kdefs:
        v = flow.resolve(kdefs[0].value, at=kdefs[0], depth=2, stop=(pth,))
        fact = "%s = %s" % (k, norm(v)[:100])
        searches = [c for c in ast.walk(v) if isinstance(c, ast.Call) and isinstance(c.func, ast.Attribute) and c.func.attr in ("index", "find") and norm(c.func.value) == pth]
        fresh = bool(searches)
        if not fresh and not any(isinstance(c, ast.Call) for c in ast.walk(v)):
            fact += "  [a position remembered from before earlier replacements changed the string]"
    ctx.ob("FileSet._fill_placeholders.position", fresh, fact,
           "the first occurrence is searched in the current string on every iteration (replacing one placeholder shifts all positions behind it)",
           node=kdefs[0] if kdefs else lp, func=f)


FILL_TABLE = [
    # (template, user placeholders {name: regex}, extra placeholders)
    ("/data/{year}/{month}/{day}/{hour}{minute}{second}.nc", {}, {}),
    ("/data/{sat}/{year}/{sat}_{year}{month}{day}.nc", {"sat": "(?P<sat>.+?)"}, {}),
    ("{year}{doy}_{hour}{minute}-{end_hour}{end_minute}.txt.gz", {}, {}),
    ("/archive/*/{year}-{month}-{day}/{year}{month}{day}_{product}_v1.0.h5", {"product": "(?P<product>[a-z0-9]+)"}, {}),
    ("/d/{a}_{b}_{a}_{b}_{a}.dat", {"a": "(?P<a>[A-Z]+)", "b": "(?P<b>\\d+)"}, {}),
    ("/x/{year2}{month}{day}.{millisecond}.bin", {}, {}),
    ("plain/file.name.txt", {}, {}),
    ("/data/{mode}/{year}.nc", {"mode": "(?P<mode>[^/]+)"}, {"mode": "(?P<mode>day|night)"}),
    ("/data/{unknown}/{year}.nc", {}, {}),
    ("/data/{year}{month}{day}_{hour}.nc", {"hour": "(?P<hour>\\d{1,2})"}, {}),          # a user placeholder overrides a temporal one
    ("/data/{year}{month}{day}_{hour}.nc", {"hour": "(?P<hour>\\d{1,2})"}, {"hour": "(?P<hour>0\\d)"}),
]
FILL_VALUES = {"year": ["2017", "2018"], "year2": ["17"], "month": ["01", "12"], "day": ["02", "31"], "doy": ["001", "366"], "hour": ["00", "23"], "minute": ["05"], "second": ["59"],
               "millisecond": ["123"], "end_hour": ["01"], "end_minute": ["30"], "sat": ["noaa18", "metop_a", "a.b"], "product": ["mhs", "l2"], "a": ["AB", "C"], "b": ["1", "22"],
               "mode": ["day", "night", "dusk"]}
FILL_EXTRA_NAMES = ["/data/20170102_7.nc", "/data/20170102_07.nc", "/data/20170102_17.nc", "/data/20170102_007.nc"]


def _fill_reference(template, placeholders):
    """the specification: backslashes, dots and stars of the TEMPLATE are made literal / lazy wildcards first; the first occurrence of a placeholder is
    replaced by its regex (a named group), every later one by a back-reference to that group (the same value); anchored at both ends"""
    import re
    path = template.replace("\\", "\\\\").replace(".", "\\.").replace("*", ".*?")
    out, pos, seen = "", 0, set()
    for m_ in re.finditer(r"{(\w+)}", path):
        out += path[pos:m_.start()]
        p_ = m_.group(1)
        if p_ in seen:
            out += "(?P=%s)" % p_
        else:
            if p_ not in placeholders:
                return ("raises", "UnknownPlaceholderError")
            out += placeholders[p_]
            seen.add(p_)
        pos = m_.end()
    return "^" + out + path[pos:] + "$"


def _fill_names(template):
    """candidate names for a template: its placeholders filled from FILL_VALUES (first value, then one placeholder at a time varied, repetitions filled
    alike and unlike), each also with a prefix, a suffix, and with every literal dot replaced"""
    import re
    keys = re.findall(r"{(\w+)}", template)
    base = {k: FILL_VALUES.get(k, ["x"])[0] for k in keys}
    fills = [dict(base)]
    for k in dict.fromkeys(keys):
        for v in FILL_VALUES.get(k, ["x"])[1:]:
            fills.append(dict(base, **{k: v}))
    names = []
    for f_ in fills:
        nm = template.replace("*", "any/thing")
        for k in dict.fromkeys(keys):
            nm = nm.replace("{%s}" % k, f_[k])
        names.append(nm)
    # repetitions filled unlike
    for k in dict.fromkeys(keys):
        if keys.count(k) > 1 and len(FILL_VALUES.get(k, [])) > 1:
            nm = template.replace("*", "q").replace("{%s}" % k, FILL_VALUES[k][0], 1).replace("{%s}" % k, FILL_VALUES[k][1])
            for k2 in dict.fromkeys(keys):
                nm = nm.replace("{%s}" % k2, base[k2])
            names.append(nm)
    out = []
    for nm in names:
        out += [nm, "X" + nm, nm + "X", nm.replace(".", "_", 1), nm.replace("*", "")]
    return list(dict.fromkeys(out))


TRIP_TEMPLATES = [
    "/data/{year}/{month}/{day}/f_{hour}{minute}{second}.nc",
    "/data/{year}/{doy}/g_{hour}{minute}.dat",
    "{year2}{month}{day}_{hour}{minute}{second}{millisecond}.bin",
    "/a/{year}{month}{day}_{hour}{minute}{second}-{end_year}{end_month}{end_day}_{end_hour}{end_minute}{end_second}.h5",
    "/a/{year}-{doy}T{hour}_{end_year}-{end_doy}T{end_hour}.txt",
    "/b/{year2}{doy}{hour}{minute}{second}{millisecond}_{end_year2}{end_doy}{end_hour}{end_minute}{end_second}{end_millisecond}.raw",
    "/c/{year}/{month}/{year}{month}{day}.{hour}.nc",
    "/d/{year}{month}{day}_{hour}{minute}-{end_hour}{end_minute}.nc",
]
TRIP_TIMES = [((2017, 1, 2, 3, 4, 5, 678000), (2017, 1, 2, 23, 59, 58, 1000)), ((1999, 12, 31, 0, 0, 0, 0), (2000, 1, 1, 0, 0, 0, 0)), ((2016, 2, 29, 12, 30, 0, 999000), (2016, 12, 31, 12, 31, 1, 0)),
              ((1965, 7, 4, 7, 7, 7, 7000), (1965, 7, 4, 8, 0, 0, 0)), ((2064, 10, 10, 10, 10, 10, 10000), (2064, 10, 10, 20, 20, 20, 20000)), ((2020, 12, 31, 23, 59, 59, 999000), (2020, 12, 31, 23, 59, 59, 999000)), ((2018, 3, 4, 12, 0, 0, 0), (2018, 3, 4, 12, 0, 0, 0)),
              ((2019, 12, 30, 6, 0, 0, 50000), (2020, 3, 1, 6, 30, 0, 10000)), ((2021, 3, 1, 0, 0, 0, 5000), (2022, 2, 28, 1, 1, 1, 99000))]


def _trip_expected(template, t, prefix=""):
    """the time a name written from `t` stands for: t cut to the fields the template spells out (None when it spells out none)"""
    import re
    from datetime import datetime
    keys = set(re.findall(r"{(\w+)}", template))
    has = lambda k: (prefix + k) in keys
    if not any(has(k) for k in ("year", "year2", "month", "day", "doy", "hour", "minute", "second", "millisecond")):
        return None
    y, mo, d, h, mi, s_, us = t
    return datetime(y, mo if (has("month") or has("doy")) else 1, d if (has("day") or has("doy")) else 1, h if has("hour") else 0, mi if has("minute") else 0,
                    s_ if has("second") else 0, (us // 1000) * 1000 if has("millisecond") else 0)


def rule_trip_table(ctx, rid="C02.trip"):
    """name -> time -> name on a table: get_filename, parse_filename, _to_datetime_args / _standardise_datetime_args and _retrieve_time_coverage evaluated together"""
    ctx.rule(rid, "T4 (finite table)", "reader(writer(t)) = t cut to the fields of the template: get_filename, parse_filename (through _fill_placeholders), "
             "_to_datetime_args, _standardise_datetime_args and _retrieve_time_coverage evaluated on a table of templates and times with the evaluator for "
             "string helpers (ends that need no roll-over); outside that class: no verdict from this rule")
    from datetime import datetime
    from ..strmachine import call, Stub, Machine
    fs = {q: ctx.func(FILESET, "FileSet." + q) for q in ("get_filename", "parse_filename", "_fill_placeholders", "_to_datetime_args", "_standardise_datetime_args",
                                                         "_retrieve_time_coverage", "_remove_group_capturing")}
    cls = fs["get_filename"].cls
    consts = {}
    for st in cls.body:
        if isinstance(st, ast.Assign) and len(st.targets) == 1 and isinstance(st.targets[0], ast.Name):
            try:
                consts[st.targets[0].id] = Machine().ev(st.value, dict(consts))     # every class-level constant the evaluator can read
            except AnalysisError:
                pass
    if not {"_time_placeholder", "_special_chars", "year2_threshold", "_temporal_resolution"} <= set(consts):
        raise AnalysisError("FileSet: class-level constants %s not found" % sorted({"_time_placeholder", "_special_chars", "year2_threshold"} - set(consts)))
    tp = {k: "(?P<%s>%s)" % (k, v) for k, v in consts["_time_placeholder"].items()}
    # other methods of the class that these call are looked up on demand: every method of the class is available to the evaluation
    methods = {q.split(".", 1)[1]: fn for q, fn in fs["get_filename"].module.funcs.items() if fn.cls is cls and not any(d.endswith(".setter") for d in fn.decorators)}
    funcs = {q: fn for q, fn in fs["get_filename"].module.funcs.items() if fn.cls is None}        # module-level helpers a restructured version may call
    funcs["to_datetime"] = lambda x: x
    modconsts = {}
    for st in fs["get_filename"].module.tree.body:
        if isinstance(st, ast.Assign) and len(st.targets) == 1 and isinstance(st.targets[0], ast.Name):
            try:
                modconsts[st.targets[0].id] = Machine(globs=modconsts).ev(st.value, dict(modconsts))
            except AnalysisError:
                pass
    wrong = None
    ncases = 0
    for template in TRIP_TEMPLATES:
        attrs = dict(consts)
        attrs.update(methods)
        # what the path setter derives from the template: the unit next coarser than the coarsest end field (None without end fields / with an end year)
        import re as _re
        res = consts["_temporal_resolution"]
        order = list(res)
        ends = [k[4:] for k in _re.findall(r"{(\w+)}", template) if k.startswith("end_")]
        ends = ["year" if k == "year2" else ("day" if k == "doy" else k) for k in ends]
        ranks = [order.index(k) for k in ends if k in order]
        sup = None
        if ranks and min(ranks) > 0:
            sup = res[order[min(ranks) - 1]]
            if res[order[min(ranks)]] < res["second"]:
                sup = res["second"]
        attrs.update({"_time_placeholder": dict(tp), "_user_placeholder": {}, "name": "fs", "path": template, "_special_chars": list(consts["_special_chars"]),
                      "year2_threshold": consts["year2_threshold"], "_end_time_superior": sup})
        me = Stub("self", attrs)
        mods = dict(modconsts)
        mods["os"] = Stub("os", {"sep": "/"})
        for t0, t1 in TRIP_TIMES:
            start, end = datetime(*t0), datetime(*t1)
            ncases += 1
            name = call(fs["get_filename"], me, (start, end), template, funcs=funcs, _globals=mods)
            if not isinstance(name, str):
                wrong = wrong or {"template": template, "times": [str(start), str(end)], "get_filename": repr(name)[:100]}
                continue
            fields = call(fs["parse_filename"], me, name, template, funcs=funcs, _globals=mods)
            if not isinstance(fields, dict):
                wrong = wrong or {"template": template, "name": name, "parse_filename": repr(fields)[:100]}
                continue
            cov = call(fs["_retrieve_time_coverage"], me, fields, funcs=funcs, _globals=mods)
            want = (_trip_expected(template, t0), _trip_expected(template, t1, "end_"))
            if want[1] is not None and "{end_year" not in template and "{end_doy" not in template and "{end_day" not in template:
                want = (want[0], want[1].replace(year=start.year, month=start.month, day=start.day))      # an end of hours and minutes lies on the start's day
            if not (isinstance(cov, tuple) and len(cov) == 2 and cov[0] == want[0] and cov[1] == want[1]) and wrong is None:
                wrong = {"template": template, "written from": [str(start), str(end)], "name": name, "read as": [str(x) for x in cov] if isinstance(cov, tuple) else repr(cov)[:100],
                         "expected": [str(want[0]), str(want[1])]}
    ctx.ob("FileSet.roundtrip.table", wrong is None, "%d (template, times) cases evaluated%s" % (ncases, "" if wrong is None else "; first difference: %s" % wrong),
           "the time read from a generated name is the time it was generated from, cut to the fields the template spells out", node=fs["get_filename"].node, func=fs["get_filename"],
           witness=wrong, complete=True)
    ctx.models.append({"rule": rid, "cases": ncases, "domain": "%d templates (year/year2, month+day/doy, milliseconds, complete and partial ends) x %d pairs of times (leap day, year ends, 1965 / 2064)" % (
        len(TRIP_TEMPLATES), len(TRIP_TIMES)), "exhaustive": False})
    return True


def rule_helper_tables(ctx, rid="C02.helpers"):
    """two small helpers of the chain, evaluated on tables"""
    ctx.rule(rid, "T4 (finite table)", "_remove_group_capturing strips exactly the named group of the placeholder; FileInfo.update takes over a time of the other "
             "object unless it is None (or None is not ignored) - both evaluated on tables with the evaluator for string helpers")
    import itertools
    from ..strmachine import call, Stub
    rg = ctx.func(FILESET, "FileSet._remove_group_capturing")
    wrong = None
    table = [("sat", "(?P<sat>noaa\\d+)", "noaa\\d+"), ("sat", "noaa18", "noaa18"), ("sat", "(?P<sat>Pnoaa)", "Pnoaa"), ("s", "(?P<s>(a|b)>)", "(a|b)>"), ("sat", "(sat)", "(sat)"),
             ("a", "(?P<ab>x)", "(?P<ab>x)"), ("p", "(?P<p>)", ""), ("name", "?P<name>", "?P<name>"), ("x", "(?P<x>a(?P<y>b))", "a(?P<y>b)"), ("sat", "<sat>P(", "<sat>P(")]
    for name, value, want in table:
        got = call(rg, name, value)
        if got != want and wrong is None:
            wrong = {"_remove_group_capturing(%r, %r)" % (name, value): repr(got), "expected": repr(want)}
    ctx.ob("FileSet._remove_group_capturing.table", wrong is None, "%d (placeholder, regex) pairs evaluated%s" % (len(table), "" if wrong is None else "; first difference: %s" % wrong),
           "'(?P<name>' + r + ')' -> r for the placeholder's own group; every other string unchanged", node=rg.node, func=rg, witness=wrong, complete=True)
    u = ctx.func(HCOMMON, "FileInfo.update")
    wrong = None
    ncases = 0
    for o0, o1, ign in itertools.product((None, "T0"), (None, "T1"), (True, False, "default")):
        me = Stub("self", {"times": ["S0", "S1"], "attr": {"a": 1, "b": 2}, "path": "p"})
        other = Stub("other", {"times": [o0, o1], "attr": {"b": 3, "c": 4}, "path": "q"})
        r = call(u, me, other) if ign == "default" else call(u, me, other, ign)
        ncases += 1
        ignore = True if ign == "default" else ign
        want = [o0 if (o0 is not None or not ignore) else "S0", o1 if (o1 is not None or not ignore) else "S1"]
        got = me.attrs.get("times")
        if isinstance(r, tuple) and r and r[0] == "raises":
            got = r
        if (list(got) if isinstance(got, (list, tuple)) else got) != want or me.attrs.get("attr") != {"a": 1, "b": 3, "c": 4}:
            wrong = wrong or {"self.times": ["S0", "S1"], "other.times": [o0, o1], "ignore_none_time": ign, "after update": repr(got), "attr": repr(me.attrs.get("attr")), "expected": want}
        if other.attrs["times"] != [o0, o1] or other.attrs["attr"] != {"b": 3, "c": 4}:
            wrong = wrong or {"other object modified": repr(other.attrs)}
    ctx.ob("FileInfo.update.table", wrong is None, "%d combinations of known / unknown times evaluated%s" % (ncases, "" if wrong is None else "; first difference: %s" % wrong),
           "each time of the other object replaces this object's unless it is None and None is ignored; attributes merged, the other's winning", node=u.node, func=u, witness=wrong, complete=True)
    ctx.models.append({"rule": rid, "cases": ncases + len(table), "domain": "start / end known or None x ignore_none_time; placeholder regexes with and without their named group", "exhaustive": True})
    return True


def fill_evaluated(ctx, rid, *structural):
    """run the table evaluation of _fill_placeholders, then the structural rules about it.  Where the evaluation gave a verdict, a structural rule that
    cannot READ a restructured _fill_placeholders (AnalysisError, or an unmet obligation in a function beyond the novelty limit) is not an error: the
    function has been decided by evaluating it.  Structural verdicts on a function they can read stand as before."""
    if _attempt_table(ctx, rule_fill_table, rid, [(FILESET, "FileSet._fill_placeholders")]):
        _decided(ctx, rid, ("_fill_placeholders",), ("FileSet._fill_placeholders.",))
    for fn, args, _rids in structural:
        ctx.attempt(fn, *args)
    apply_decided(ctx)


def trip_evaluated(ctx, rid, *structural):
    """the same for the round trip name -> time -> name: structural rules that cannot read a restructured get_filename / year2 / day-of-year conversion"""
    chain = ["FileSet.get_filename", "FileSet.parse_filename", "FileSet._fill_placeholders", "FileSet._to_datetime_args", "FileSet._standardise_datetime_args",
             "FileSet._retrieve_time_coverage", "FileSet._remove_group_capturing"]
    if _attempt_table(ctx, rule_trip_table, rid, [(FILESET, q) for q in chain]):
        _decided(ctx, rid, ("get_filename", "two-digit year", "year2", "day of year"),
                 ("FileSet.get_filename[", "FileSet.get_filename.times", "FileSet.get_filename.doy_offset", "FileSet.get_filename.millisecond",
                  "FileSet._standardise_datetime_args.year2", "FileSet._standardise_datetime_args.doy"))
    for fn, args, _rids in structural:
        ctx.attempt(fn, *args)
    apply_decided(ctx)
    return any(r_ == rid for r_, _w in getattr(ctx, "decided", []))


def helpers_evaluated(ctx, rid="C02.helpers"):
    if _attempt_table(ctx, rule_helper_tables, rid, [(FILESET, "FileSet._remove_group_capturing"), (HCOMMON, "FileInfo.update")]):
        _decided(ctx, rid, ("FileInfo.update", "_remove_group_capturing"), ("FileInfo.update", "FileSet._remove_group_capturing."))


def _decided(ctx, rid, words, constructs):
    if not hasattr(ctx, "decided"):
        ctx.decided = []
    ctx.decided.append((rid, tuple(words)))
    if not hasattr(ctx, "superseded"):
        ctx.superseded = {}
    for c_ in constructs:
        ctx.superseded[c_] = rid


def apply_decided(ctx):
    """errors of structural rules about a function that a table evaluation has decided are dropped (and noted); the vacuity guard of a structural
    rule that stopped early is waived"""
    keep = []
    for e in ctx.errors:
        head = e.split(":", 1)[0]
        hit = [rid for rid, words in getattr(ctx, "decided", []) if head != rid and any(w in e for w in words)]
        if hit and not e.startswith("rule ") and "vacuity guard" not in e:
            ctx.extra.setdefault("superseded", []).append({"error": e[:200], "decided_by": hit[0]})
            if not hasattr(ctx, "expect_waived"):
                ctx.expect_waived = set()
            ctx.expect_waived.add(head)
        else:
            keep.append(e)
    ctx.errors[:] = keep


def _attempt_table(ctx, fn, rid, quals):
    """run a table evaluation.  When the evaluator refuses a construct, that is an error only on code the evaluation was confirmed on (the functions
    are the snapshot's): on restructured code the refusal is noted and the structural rules alone decide, as they did before the evaluator existed."""
    from .. import novelty as _nov
    import os
    err = None
    try:
        return bool(fn(ctx, rid))
    except RecursionError:
        err = "evaluation too deep"
    except AnalysisError as e0:
        err = str(e0)
    except Exception as e0:          # an operation the evaluator did not anticipate: a refusal, never a crash of the check
        if os.environ.get("TYVERIF_RAISE"):
            raise
        err = "evaluator: %s: %s" % (type(e0).__name__, str(e0)[:120])
    if True:
        e = err
        moved = 0
        for rel, q in quals:
            n_ = _nov.novelty(ctx.repo.mod(rel).tree, rel, q)
            moved += n_ or 0
        if moved == 0:
            ctx.errors.append("%s: %s" % (rid, e))
        else:
            ctx.extra.setdefault("not_evaluated", []).append({"rule": rid, "why": str(e)[:200], "changed_statements": moved})
            if not hasattr(ctx, "expect_waived"):
                ctx.expect_waived = set()
            ctx.expect_waived.add(rid)
        return False


def rule_fill_table(ctx, rid="C02.fill"):
    """_fill_placeholders, evaluated on a table of templates: the regex it builds accepts the same names with the same fields as the specification"""
    ctx.rule(rid, "T4 (finite table)", "_fill_placeholders(template) accepts the same names with the same fields as the specification regex (template characters "
             "literal, first occurrence = named group, repetitions = back-references, anchored) on a table of templates and candidate names, read with the "
             "evaluator for string helpers; outside that class: no verdict from this rule")
    import re
    from ..strmachine import call, Stub, Machine
    f = ctx.func(FILESET, "FileSet._fill_placeholders")
    # the class-level table of temporal placeholders, completed to named groups as __init__ does
    cls = f.cls
    tp = None
    for st in cls.body:
        if isinstance(st, ast.Assign) and len(st.targets) == 1 and norm(st.targets[0]) == "_time_placeholder":
            tp = Machine().ev(st.value, {})
    if not isinstance(tp, dict) or not tp:
        raise AnalysisError("FileSet._time_placeholder: class-level table not found")
    tp = {k: "(?P<%s>%s)" % (k, v) for k, v in tp.items()}
    wrong = None
    ncases = 0
    methods = {q.split(".", 1)[1]: fn for q, fn in f.module.funcs.items() if fn.cls is cls and not any(d.endswith(".setter") for d in fn.decorators)}
    helpers = {q: fn for q, fn in f.module.funcs.items() if fn.cls is None}
    modconsts = {}
    for st in f.module.tree.body:
        if isinstance(st, ast.Assign) and len(st.targets) == 1 and isinstance(st.targets[0], ast.Name):
            try:
                modconsts[st.targets[0].id] = Machine(globs=modconsts).ev(st.value, dict(modconsts))        # module-level constants (tables, compiled patterns)
            except AnalysisError:
                pass
    clsconsts = {}
    for st in cls.body:
        if isinstance(st, ast.Assign) and len(st.targets) == 1 and isinstance(st.targets[0], ast.Name):
            try:
                clsconsts[st.targets[0].id] = Machine(globs=modconsts).ev(st.value, dict(modconsts, **clsconsts))
            except AnalysisError:
                pass
    for template, user, extra in FILL_TABLE:
        attrs = dict(clsconsts)
        attrs.update(methods)
        attrs.update({"_time_placeholder": dict(tp), "_user_placeholder": dict(user), "name": "fs", "path": template})
        me = Stub("self", attrs)
        env_mods = dict(modconsts)
        env_mods["os"] = Stub("os", {"sep": "/"})
        got = call(f, me, template, dict(extra) if extra else None, False, funcs=helpers, _globals=env_mods)
        want = _fill_reference(template, {**tp, **user, **extra})
        if isinstance(want, tuple) or isinstance(got, tuple):
            ncases += 1
            if got != want and wrong is None:
                wrong = {"template": template, "_fill_placeholders": repr(got)[:120], "expected": repr(want)[:120]}
            continue
        if not isinstance(got, str):
            raise AnalysisError("_fill_placeholders(compile=False) returned %s" % type(got).__name__)
        try:
            rg, rw = re.compile(got), re.compile(want)
        except re.error as e_:
            wrong = wrong or {"template": template, "_fill_placeholders": got[:120], "not a regular expression": str(e_)}
            continue
        for nm in _fill_names(template) + FILL_EXTRA_NAMES:
            ncases += 1
            a_, b_ = rg.match(nm), rw.match(nm)
            ga = None if a_ is None else a_.groupdict()
            gb = None if b_ is None else b_.groupdict()
            if ga != gb and wrong is None:
                wrong = {"template": template, "name": nm, "regex": got[:160], "parsed as": ga, "expected": gb}
        comp = call(f, me, template, dict(extra) if extra else None, True, funcs=helpers, _globals=env_mods)
        if not (isinstance(comp, re.Pattern) and comp.pattern == got) and wrong is None:
            wrong = {"template": template, "compile=True": repr(comp)[:100], "expected": "re.compile of the same string"}
    ctx.ob("FileSet._fill_placeholders.table", wrong is None, "%d templates, %d (template, name) cases evaluated%s" % (len(FILL_TABLE), ncases, "" if wrong is None else "; first difference: %s" % wrong),
           "the regex built from a template accepts exactly the names the specification accepts, with the same fields", node=f.node, func=f, witness=wrong, complete=True)
    ctx.models.append({"rule": rid, "cases": ncases, "domain": "table of %d templates (repeated placeholders, wildcards, literal dots, user and extra placeholders, an unknown one) x candidate names" % len(FILL_TABLE),
                       "exhaustive": False})
    return True


def run(ctx):
    from ..calendar_rule import rule_leap
    ctx.attempt(rule_leap, ctx, "C02.calendar", ['typhon/files/fileset.py', 'typhon/files/handlers/common.py', 'typhon/utils/timeutils.py'])
    helpers_evaluated(ctx)
    trip_evaluated(ctx, "C02.trip", (rule_table, (ctx,), ("C02.table",)), (rule_year2, (ctx,), ("C02.year2",)), (rule_doy_subsec, (ctx,), ("C02.doy", "C02.subsec")))
    for r in (rule_endfill, rule_default_end, rule_merge, rule_reject, rule_memo):
        ctx.attempt(r, ctx)
    fill_evaluated(ctx, "C02.fill", (rule_regexfill, (ctx,), ("C02.repeat",)), (rule_anchor, (ctx, "C01.anchor"), ("C01.anchor",)))
    # the caller's arguments (arrays, filter / fill dictionaries) are not modified: an in-place update makes the next call on the same objects wrong
    from ..purity import rule_pure as _rule_args
    ctx.attempt(_rule_args, ctx, "C02.args", [('typhon/files/fileset.py', 'FileSet.get_filename'), ('typhon/files/fileset.py', 'FileSet.parse_filename'), ('typhon/files/fileset.py', 'FileSet._fill_placeholders')], "the caller's arguments are not modified in place")
