"""C18 - BMCI estimates are the importance-weighted statistics of its database.

Provenance rules for the database permutation and the candidate window (T6), formula algebra
on small symbolic instances for the weights, the moments and the window half-width (T5), the
NaN fallback (T1 + T8 API resolution), the cdf / quantile construction (T6).  Floating-point
behaviour (e.g. cancellation in algebraically equal variance formulas) is not decided.
"""
import ast
import sympy as sp
from ..core import AnalysisError, norm, dotted, calls_in, walk_no_nested, parent, enclosing_stmt, const_value
from ..flow import Flow, conjuncts
from ..order import Interp
from .. import apiscan
from ..alg import is_zero

BM = "typhon/retrieval/bmci/bmci.py"
EXPECT = {"C18.args": 4, "C18.perm": 4, "C18.window": 7, "C18.weights": 2, "C18.moments": 2, "C18.slice": 6, "C18.nan": 4, "C18.cdf": 3}


def _self_assigns(f):
    out = {}
    for st in walk_no_nested(f.node):
        if isinstance(st, ast.Assign) and len(st.targets) == 1 and isinstance(st.targets[0], ast.Attribute) \
                and isinstance(st.targets[0].value, ast.Name) and st.targets[0].value.id == "self":
            out.setdefault(st.targets[0].attr, []).append(st)
    for k in out:
        out[k].sort(key=lambda s: s.lineno)
    return out


def rule_perm(ctx):
    ctx.rule("C18.perm", "T6", "one permutation (argsort of the projection) is applied to projection, x and y; x-sorted view from the permuted x")
    from ..flow import straight_env
    f = ctx.func(BM, "BMCI.__init__")
    yp, xp = f.params[1], f.params[2]
    # closed forms of the attributes, keeping mean / axis / covariance symbolic
    env = straight_env(f.node, stop=("self.y_mean", "self.pc1", "self.s_o", "self.pc1_e"))
    proj = env.get("self.pc1_proj")
    if proj is None:
        raise AnalysisError("BMCI.__init__: self.pc1_proj is not assigned on the straight path")
    node = [st for st in f.body if isinstance(st, ast.Assign) and norm(st.targets[0]) == "self.pc1_proj"][-1]
    # sorted projection = E[argsort(E)]
    perm = None
    if isinstance(proj, ast.Subscript):
        k = proj.slice
        from ..canon import canon
        kc = canon(k)
        if isinstance(kc, ast.Call) and (dotted(kc.func) or "").split(".")[-1] == "argsort" and kc.args and not kc.keywords \
                and norm(kc.args[0]) == norm(proj.value):
            perm = k
    if perm is None:
        # recognised wrong forms: sorted by something else / descending / not sorted at all
        has_sort = any(isinstance(n_, ast.Call) and isinstance(n_.func, ast.Attribute) and n_.func.attr in ("argsort", "sort", "sorted") for n_ in ast.walk(proj))
        if not has_sort and not calls_in(f.node, ("argsort",)):
            raise AnalysisError("BMCI.__init__: argsort of the projection not found")
        ctx.ob("BMCI.__init__.perm[pc1_proj]", False, "self.pc1_proj = %s" % norm(proj)[:120], "E[argsort(E)] for the projection E (ascending: searchsorted needs it)", node=node, func=f)
        return
    E = norm(proj.value)
    P = norm(perm)
    ctx.ob("BMCI.__init__.perm[pc1_proj]", True, "self.pc1_proj = E[argsort(E)], E = %s" % E[:80],
           "re-bound to the projection permuted by pi = argsort(projection) (ascending: searchsorted needs it)", node=node, func=f)
    xv, yv = env.get("self.x"), env.get("self.y")
    x_ok = xv is not None and norm(xv) == "%s[%s]" % (xp, P)
    ctx.ob("BMCI.__init__.perm[x]", x_ok, "self.x = %s" % (norm(xv)[:120] if xv is not None else None), "x[pi] - the same permutation", node=node, func=f)
    y_ok = yv is not None and norm(yv).replace(" ", "") in (("%s[%s,:]" % (yp, P)).replace(" ", ""), ("%s[%s]" % (yp, P)).replace(" ", ""))
    ctx.ob("BMCI.__init__.perm[y]", y_ok, "self.y = %s" % (norm(yv)[:120] if yv is not None else None), "y[pi, :] - the same permutation of the rows", node=node, func=f)
    xs = env.get("self.x_sorted_inds")
    xs_ok = xs is not None and xv is not None and norm(xs) == "np.argsort(%s)" % norm(xv)
    ctx.ob("BMCI.__init__.x_sorted_inds", xs_ok, "self.x_sorted_inds = %s" % (norm(xs)[:120] if xs is not None else None),
           "argsort of the permuted self.x (computed after self.x was re-bound)", node=node, func=f)


def rule_window(ctx):
    ctx.rule("C18.window", "T5+T6", "window half-width h with h^2 = c * x2_max * lambda, c >= 1, lambda the eigenvalue belonging to the "
             "projection axis (the smallest), same mean and axis for database and observation")
    f = ctx.func(BM, "BMCI.__init__")
    S = _self_assigns(f)
    flow = Flow(f)
    # eig
    eig = None
    for st in flow.stmts:
        if isinstance(st, ast.Assign) and isinstance(st.targets[0], ast.Tuple) and calls_in(st.value, ("eig", "eigh")):
            eig = st
    if eig is None:
        raise AnalysisError("BMCI.__init__: eigen decomposition not found")
    wn, vn = [norm(e) for e in eig.targets[0].elts]
    c = calls_in(eig.value, ("eig", "eigh"))[0]
    ok_e = norm(c.args[0]) in ("self.s_o", f.params[3])
    callee = (dotted(c.func) or "").split(".")[-1]
    ctx.ob("BMCI.__init__.decomposition", callee == "eigh", "np.linalg.%s(%s)" % (callee, norm(c.args[0])),
           "eigh: the covariance is symmetric, its eigenvalues and eigenvectors are real (numpy's eig returns complex arrays: sqrt(2 * inf / e) is then inf+nanj, "
           "both window bounds are NaN and every estimate NaN for x2_max = inf / 1e308)", node=c, func=f,
           witness=None if callee == "eigh" else {"x2_max": "inf", "bounds": "nan", "predict": "nan instead of the unrestricted estimate"})
    from ..flow import straight_env
    env = straight_env(f.node, stop=(wn, vn, "self.y_mean", "self.s_o"))
    e, v = env.get("self.pc1_e"), env.get("self.pc1")
    if e is None or v is None:
        raise AnalysisError("BMCI.__init__: self.pc1_e / self.pc1 not assigned on the straight path")
    e_txt = norm(e).replace(" ", "")
    smallest = "np.argsort(%s)[0]" % wn
    if "argsort" not in e_txt and "argmin" not in e_txt and "argmax" not in e_txt and "min(" not in e_txt:
        raise AnalysisError("BMCI.__init__: argsort of the eigenvalues not found")
    ok_val = e_txt in ("1.0/%s[%s]" % (wn, smallest), "1/%s[%s]" % (wn, smallest), "1.0/%s[np.argmin(%s)]" % (wn, wn), "1/%s[np.argmin(%s)]" % (wn, wn))
    enode = [st for st in f.body if isinstance(st, ast.Assign) and norm(st.targets[0]) == "self.pc1_e"][-1]
    vnode = [st for st in f.body if isinstance(st, ast.Assign) and norm(st.targets[0]) == "self.pc1"][-1]
    ctx.ob("BMCI.__init__.eigenvalue", ok_e and ok_val, "self.pc1_e = %s from eig(%s)" % (norm(e), norm(c.args[0])),
           "1 / (smallest eigenvalue of the given covariance): first entry of the ascending argsort", node=enode, func=f)
    v_txt = norm(v).replace(" ", "")
    ok_vec = v_txt in ("%s[:,%s]" % (vn, smallest), "%s[:,np.argmin(%s)]" % (vn, wn))
    ctx.ob("BMCI.__init__.eigenvector", ok_vec, "self.pc1 = %s" % norm(v),
           "the COLUMN of the eigenvector matrix with the same index as the eigenvalue (eig returns eigenvectors as columns)", node=vnode, func=f)
    env2 = straight_env(f.node, stop=("self.y_mean", "self.pc1", "self.s_o", "self.pc1_e"))
    pr = env2.get("self.pc1_proj")
    base = pr.value if isinstance(pr, ast.Subscript) else pr
    ok_pr = base is not None and norm(base).replace(" ", "") in ("np.dot(%s-self.y_mean,self.pc1)" % f.params[1],)
    if not ok_pr and base is not None:
        # the same comparison with every attribute written out (the mean and the axis held in locals before they are stored)
        env3 = straight_env(f.node, stop=(wn, vn, "self.s_o"))
        pr3 = env3.get("self.pc1_proj")
        base3 = pr3.value if isinstance(pr3, ast.Subscript) else pr3
        ym3, pc3 = env3.get("self.y_mean"), env3.get("self.pc1")
        if base3 is not None and ym3 is not None and pc3 is not None:
            ok_pr = norm(base3).replace(" ", "") == ("np.dot(%s-%s,%s)" % (f.params[1], norm(ym3), norm(pc3))).replace(" ", "")
    h = ctx.func(BM, "BMCI.__find_hits")
    hflow = Flow(h)
    yo, x2 = h.params[1], h.params[2]
    ss = [c_ for c_ in calls_in(h.node, "searchsorted") if len(c_.args) >= 2]

    def side_of(c_):
        for k_ in c_.keywords:
            if k_.arg == "side":
                return const_value(k_.value)
        return const_value(c_.args[2]) if len(c_.args) > 2 else "left"
    if len(ss) == 1:
        bounds = hflow.resolve(ss[0].args[1], at=ss[0], depth=1)
        if isinstance(bounds, ast.Call) and (dotted(bounds.func) or "").split(".")[-1] in ("array", "asarray") and bounds.args:
            bounds = bounds.args[0]
        if not (isinstance(bounds, (ast.List, ast.Tuple)) and len(bounds.elts) == 2):
            raise AnalysisError("__find_hits: the searched bounds are not a pair [s_l, s_u]")
        sl_e, su_e = [hflow.resolve(e_, at=ss[0], depth=4, stop=(yo, x2)) for e_ in bounds.elts]
        sides = (side_of(ss[0]), side_of(ss[0]))
        ss_l = ss_u = ss[0]
    elif len(ss) == 2:
        ss_l, ss_u = ss

        def elem(e_):
            """np.array([a, b])[k] -> the k-th element (the two bounds kept in one array)"""
            if isinstance(e_, ast.Subscript) and isinstance(e_.slice, ast.Constant) and isinstance(e_.slice.value, int):
                b_ = e_.value
                if isinstance(b_, ast.Call) and (dotted(b_.func) or "").split(".")[-1] in ("array", "asarray") and b_.args:
                    b_ = b_.args[0]
                if isinstance(b_, (ast.List, ast.Tuple)) and -len(b_.elts) <= e_.slice.value < len(b_.elts):
                    return b_.elts[e_.slice.value]
            return e_
        sl_e, su_e = [elem(hflow.resolve(c_.args[1], at=c_, depth=4, stop=(yo, x2))) for c_ in ss]
        sides = (side_of(ss_l), side_of(ss_u))
    else:
        raise AnalysisError("__find_hits: expected searchsorted(sorted, [s_l, s_u]) or one searchsorted call per bound")
    # a round-off allowance (a product with the machine epsilon) may widen the window: it is one non-negative term, not a projection
    def is_slack(n_):
        return isinstance(n_, ast.BinOp) and isinstance(n_.op, ast.Mult) and any(isinstance(x_, ast.Attribute) and x_.attr == "eps" for x_ in ast.walk(n_)) \
            and not isinstance(parent(n_), ast.BinOp) or (isinstance(n_, ast.BinOp) and isinstance(n_.op, ast.Mult) and any(isinstance(x_, ast.Attribute) and x_.attr == "eps" for x_ in ast.walk(n_))
                                                          and isinstance(parent(n_), ast.BinOp) and not isinstance(parent(n_).op, ast.Mult))
    from ..core import clone as _clone
    sl_e, su_e = _clone(sl_e), _clone(su_e)
    in_slack = {id(x_) for b_ in (sl_e, su_e) for n_ in ast.walk(b_) if is_slack(n_) for x_ in ast.walk(n_)}
    dots = {norm(n_).replace(" ", "") for b_ in (sl_e, su_e) for n_ in ast.walk(b_) if isinstance(n_, ast.Call) and (dotted(n_.func) or "").split(".")[-1] == "dot"
            and id(n_) not in in_slack}
    obs_forms = ("np.dot(self.pc1,(%s-self.y_mean).ravel())" % yo, "np.dot(self.pc1,%s-self.y_mean)" % yo, "np.dot((%s-self.y_mean).ravel(),self.pc1)" % yo,
                 "np.dot(%s-self.y_mean,self.pc1)" % yo)
    if not dots:
        raise AnalysisError("__find_hits: projection of the observation not found in the bounds")
    ok_o = len(dots) == 1 and any(d_ == o_ for d_ in dots for o_ in obs_forms)
    ctx.ob("BMCI.projection", ok_pr and ok_o, "database: %s ; observation: %s" % (norm(base) if base is not None else None, sorted(dots)),
           "both are dot(. - self.y_mean, self.pc1): same mean, same axis", node=ss[0], func=h)
    # half width
    X2, E = sp.symbols("x2 e", positive=True)
    Yp = sp.Symbol("yp", real=True)

    TOL = sp.Symbol("tol", nonnegative=True)

    def term(n):
        t = norm(n)
        if is_slack(n):
            return TOL
        if t == x2:
            return X2
        if t == "self.pc1_e":
            return E
        if isinstance(n, ast.Call) and (dotted(n.func) or "").split(".")[-1] == "dot":
            return Yp
        if isinstance(n, ast.Constant):
            return sp.nsimplify(n.value)
        if isinstance(n, ast.BinOp):
            from ..alg import _binop
            return _binop(n.op, term(n.left), term(n.right))
        if isinstance(n, ast.UnaryOp) and isinstance(n.op, ast.USub):
            return -term(n.operand)
        if isinstance(n, ast.Call) and dotted(n.func) in ("np.sqrt", "math.sqrt"):
            return sp.sqrt(term(n.args[0]))
        raise AnalysisError("__find_hits: unsupported expression %s" % t)
    hl = sp.simplify(Yp - term(sl_e))
    hu = sp.simplify(term(su_e) - Yp)
    if len(ss) == 2 and (-hl).is_positive and (-hu).is_positive:
        # the two searches are written upper bound first: the lower bound is the one whose half-width is subtracted
        sl_e, su_e = su_e, sl_e
        ss_l, ss_u = ss_u, ss_l
        sides = (sides[1], sides[0])
        hl = sp.simplify(Yp - term(sl_e))
        hu = sp.simplify(term(su_e) - Yp)
    # h^2 = c * x2 * lambda with lambda = 1/E; a round-off allowance may only widen the window
    widen = sp.simplify(hl - hl.subs(TOL, 0)).is_nonnegative and sp.simplify(hu - hu.subs(TOL, 0)).is_nonnegative
    hl0, hu0 = hl.subs(TOL, 0), hu.subs(TOL, 0)
    cl = sp.simplify(hl0 ** 2 * E / X2)
    cu = sp.simplify(hu0 ** 2 * E / X2)
    ok_h = cl.is_number and cu.is_number and cl >= 1 and cu >= 1 and hl0.is_positive and hu0.is_positive and bool(widen)
    ctx.ob("BMCI.__find_hits.halfwidth", bool(ok_h), "lower: y_proj - %s, upper: y_proj + %s; h^2 / (x2_max * lambda) = %s, %s" % (hl, hu, cl, cu),
           "symmetric window with h^2 = c * x2_max * lambda_min, c >= 1: |u^T dy| <= sqrt(lambda * chi^2) for the eigenvector u", node=ss[0], func=h)
    # which call carries the lower bound: the one whose half-width is subtracted
    if len(ss) == 2 and not (hl.is_positive and hu.is_positive) and (-hl).is_positive and (-hu).is_positive:
        pass
    ok_s = all(norm(c_.args[0]) == "self.pc1_proj" for c_ in ss)
    rets = [s_ for s_ in hflow.stmts if isinstance(s_, ast.Return)]
    ok_r = False
    if len(rets) == 1 and isinstance(rets[0].value, ast.Tuple) and len(rets[0].value.elts) == 3:
        stopn = tuple(n_.id for c_ in ss for n_ in ast.walk(c_) if isinstance(n_, ast.Name))
        r0, r1, r2 = [norm(hflow.resolve(e_, at=rets[0], depth=2, stop=stopn)) for e_ in rets[0].value.elts]
        if len(ss) == 1:
            S_ = norm(ss[0])
            ok_r = r0 == "%s[0]" % S_ and r1 == "%s[1]" % S_ and r2 == "%s[1] - %s[0]" % (S_, S_)
        else:
            L_, U_ = norm(ss_l), norm(ss_u)
            ok_r = r0 == L_ and r1 == U_ and r2 == "%s - %s" % (U_, L_)
    ctx.ob("BMCI.__find_hits.search", ok_s and ok_r, "searchsorted: %s; return %s" % ([str(norm(c_)) for c_ in ss], norm(rets[0].value) if rets else None),
           "(i_l, i_u) = positions of [s_l, s_u] in the sorted projections", node=ss[0], func=h)
    # both bounds inclusive: entries ON the lower bound need side='left' for i_l, entries ON the upper bound side='right' for the
    # exclusive end i_u - with x2_max = 0 the window is the single value y_proj, and an exact match (chi-square 0 <= x2_max) must stay
    ctx.ob("BMCI.__find_hits.inclusive", sides == ("left", "right"), "sides of the searches for (lower, upper): %s" % (sides,),
           "('left', 'right'): an entry whose projection equals a bound has chi-square <= x2_max on that axis and may not be dropped",
           node=ss_u, func=h, witness=None if sides == ("left", "right") else {"x2_max": 0.0, "observation": "equal to a database entry", "window": "empty", "predict": "NaN"})


class V:
    """tiny element-wise array model for 2-element instances: a tuple of sympy terms"""
    def __init__(self, items):
        self.items = tuple(items)


def _vec(ctx, expr, env):
    def ev(n):
        t = norm(n)
        if t in env:
            return env[t]
        if isinstance(n, ast.Constant):
            return sp.nsimplify(n.value)
        if isinstance(n, ast.BinOp):
            l, r = ev(n.left), ev(n.right)
            def op(a, b):
                from ..alg import _binop
                return _binop(n.op, a, b)
            if isinstance(l, V) and isinstance(r, V):
                return V(op(a, b) for a, b in zip(l.items, r.items))
            if isinstance(l, V):
                return V(op(a, r) for a in l.items)
            if isinstance(r, V):
                return V(op(l, b) for b in r.items)
            return op(l, r)
        if isinstance(n, ast.Call):
            d = dotted(n.func) or ""
            last = d.split(".")[-1]
            if isinstance(n.func, ast.Attribute) and n.func.attr in ("ravel", "flatten", "squeeze") and not n.args:
                return ev(n.func.value)
            if isinstance(n.func, ast.Attribute) and n.func.attr == "sum" and d.split(".")[0] not in ("np", "numpy"):
                v = ev(n.func.value)
                return sum(v.items) if isinstance(v, V) else v
            if last in ("sum", "nansum") and n.args:
                v = ev(n.args[0])
                return sum(v.items) if isinstance(v, V) else v
            if last == "sqrt":
                v = ev(n.args[0])
                return V(sp.sqrt(a) for a in v.items) if isinstance(v, V) else sp.sqrt(v)
        raise AnalysisError("expression outside the moment model: %s" % t)
    return ev(expr)


def rule_moments(ctx):
    ctx.rule("C18.moments", "T5", "mean = sum(x w)/sum(w); std = sqrt(sum((x - mean)^2 w)/sum(w))  (2-entry symbolic database)")
    f = ctx.func(BM, "BMCI.predict")
    flow = Flow(f)
    x1, x2, w1, w2 = sp.symbols("x1 x2 w1 w2", positive=True)
    X, W = V([x1, x2]), V([w1, w2])
    wc = [c_ for c_ in calls_in(f.node, "weights") if norm(c_.func) == "self.weights"]
    wst = enclosing_stmt(wc[0]) if wc else None
    if not (isinstance(wst, ast.Assign) and isinstance(wst.targets[0], ast.Tuple) and len(wst.targets[0].elts) == 3):
        raise AnalysisError("predict: `i_l, i_u, ws = self.weights(...)` not found")
    il, iu, wn = [norm(e_) for e_ in wst.targets[0].elts]
    env = {"self.x[%s:%s]" % (il, iu): X, wn: W}
    rets = [s_ for s_ in flow.stmts if isinstance(s_, ast.Return)]
    if not rets or not isinstance(rets[-1].value, ast.Tuple) or len(rets[-1].value.elts) != 2:
        raise AnalysisError("predict: does not return (means, standard deviations)")
    mname, sname = [norm(e_) for e_ in rets[-1].value.elts]
    cdef = None
    mean_st = sig_st = None
    for st in flow.stmts:
        if isinstance(st, ast.Assign) and isinstance(st.targets[0], ast.Name) and norm(st.value) in ("%s.sum()" % wn, "np.sum(%s)" % wn):
            cdef = st
        if isinstance(st, ast.Assign) and isinstance(st.targets[0], ast.Subscript) and not _is_nan(norm(st.value)):
            if norm(st.targets[0].value) == mname and mean_st is None:
                mean_st = st
            elif norm(st.targets[0].value) == sname and sig_st is None:
                sig_st = st
    if cdef is None or mean_st is None or sig_st is None:
        raise AnalysisError("predict: normalisation / mean / sigma assignments not found")
    keep = (il, iu, wn, cdef.targets[0].id, mname, sname)
    mean_val = flow.resolve(mean_st.value, at=mean_st, depth=3, stop=keep)
    sig_val = flow.resolve(sig_st.value, at=sig_st, depth=3, stop=keep)
    env[cdef.targets[0].id] = w1 + w2
    mean = _vec(ctx, mean_val, env)
    want_mean = (x1 * w1 + x2 * w2) / (w1 + w2)
    v, info = is_zero(sp.simplify(mean - want_mean))
    ctx.ob("BMCI.predict.mean", v is True, "xs[i] = %s  ->  %s" % (norm(mean_st.value)[:80], sp.simplify(mean)), "sum(x_i w_i) / sum(w_i)",
           node=mean_st, func=f, witness=None if v else info)
    env[norm(mean_st.targets[0])] = mean
    sig = _vec(ctx, sig_val, env)
    want = sp.sqrt((w1 * (x1 - want_mean) ** 2 + w2 * (x2 - want_mean) ** 2) / (w1 + w2))
    v, info = is_zero(sp.simplify(sig ** 2 - want ** 2))
    ctx.ob("BMCI.predict.std", v is True and sig.func == sp.Pow or v is True, "sigmas[i] = %s" % norm(sig_st.value)[:100],
           "sqrt(sum(w_i (x_i - mean)^2) / sum(w_i)) (any algebraically equal form passes; rounding is not decided)", node=sig_st, func=f,
           witness=None if v else info)
    ctx.models.append({"rule": "C18.moments", "cases": 2, "identity": "2-entry database"})


def rule_weights(ctx):
    ctx.rule("C18.weights", "T5", "w = exp(-1/2 * dy S^-1 dy^T) with S^-1 the inverse of the given covariance")
    f = ctx.func(BM, "BMCI.__gauss_prob")
    yo, yd = f.params[1], f.params[2]
    d1, d2 = sp.symbols("d1 d2", real=True)
    P = sp.Matrix(2, 2, lambda i, j: sp.Symbol("p%d%d" % (min(i, j), max(i, j)), real=True))
    dy = sp.Matrix([[d1, d2]])
    env = {}

    def ev(n):
        t = norm(n)
        if t in env:
            return env[t]
        if t == "self.s_o_inv":
            return P
        if isinstance(n, ast.Constant):
            return sp.nsimplify(n.value)
        if isinstance(n, ast.UnaryOp) and isinstance(n.op, ast.USub):
            return -ev(n.operand)
        if isinstance(n, ast.BinOp):
            if isinstance(n.op, ast.Sub) and {norm(n.left), norm(n.right)} <= {yd, "%s.reshape(1, -1)" % yo, yo} and norm(n.left) != norm(n.right):
                return dy if norm(n.left) == yd else -dy
            l, r = ev(n.left), ev(n.right)
            if isinstance(n.op, ast.Mult):
                if isinstance(l, sp.MatrixBase) and isinstance(r, sp.MatrixBase):
                    if l.shape != r.shape:
                        raise AnalysisError("element-wise product of different shapes")
                    return l.multiply_elementwise(r)
                return l * r
            if isinstance(n.op, ast.MatMult):
                return l * r
            from ..alg import _binop
            return _binop(n.op, l, r)
        if isinstance(n, ast.Call):
            d = dotted(n.func) or ""
            last = d.split(".")[-1]
            if last == "dot" and len(n.args) == 2:
                return ev(n.args[0]) * ev(n.args[1])
            if isinstance(n.func, ast.Attribute) and n.func.attr == "dot" and len(n.args) == 1 and d.split(".")[0] not in ("np", "numpy"):
                return ev(n.func.value) * ev(n.args[0])
            if last == "exp":
                v = ev(n.args[0])
                return v.applyfunc(sp.exp) if isinstance(v, sp.MatrixBase) else sp.exp(v)
            if isinstance(n.func, ast.Attribute) and n.func.attr == "sum":
                fn_form = d.split(".")[0] in ("np", "numpy") and len(d.split(".")) == 2       # np.sum(x, axis) and x.sum(axis) alike
                if fn_form and not n.args:
                    raise AnalysisError("__gauss_prob: np.sum without an argument")
                v = ev(n.args[0] if fn_form else n.func.value)
                rest = n.args[1:] if fn_form else n.args
                kw = {k.arg: norm(k.value) for k in n.keywords}
                if kw.get("axis") == "1" or (rest and norm(rest[0]) == "1"):
                    return sp.Matrix([[sum(v.row(i))] for i in range(v.rows)])
                raise AnalysisError("__gauss_prob: sum over an unexpected axis: %s" % norm(n))
            if last in ("einsum",):
                raise AnalysisError("__gauss_prob: einsum not modelled")
        if isinstance(n, ast.Attribute) and n.attr == "T":
            return ev(n.value).T
        raise AnalysisError("__gauss_prob: unsupported expression %s" % t)
    ret = None
    for st in f.body:
        if isinstance(st, ast.Assign) and isinstance(st.targets[0], ast.Name):
            env[st.targets[0].id] = ev(st.value)
        elif isinstance(st, ast.Return):
            ret = ev(st.value)
        elif isinstance(st, ast.Expr) and isinstance(st.value, ast.Constant):
            continue
        else:
            # nothing is skipped: a weight that is recomputed / rescaled / clipped under a condition is not the Gaussian weight any more
            raise AnalysisError("__gauss_prob: statement `%s` is outside the straight-line form the formula is read from" % norm(st)[:70])
    if ret is None:
        raise AnalysisError("__gauss_prob: no return")
    got = ret[0, 0] if isinstance(ret, sp.MatrixBase) else ret
    want = sp.exp(-(dy * P * dy.T)[0, 0] / 2)
    v, info = is_zero(sp.simplify(sp.log(got) - sp.log(want)))
    ctx.ob("BMCI.__gauss_prob", v is True, "w = %s" % sp.simplify(got), "exp(-(dy S^-1 dy^T)/2)  (2 channels, symmetric S^-1)", node=f.node, func=f,
           witness=None if v else info)
    g = ctx.func(BM, "BMCI.__init__")
    S = _self_assigns(g)
    invs = S.get("s_o_inv", [])
    inv = invs[-1] if invs else None
    so = S.get("s_o", [None])[-1]
    ok = bool(invs) and all(norm(i_.value) in ("np.linalg.inv(self.s_o)", "np.linalg.inv(%s)" % g.params[3]) for i_ in invs) \
        and so is not None and norm(so.value) == g.params[3]
    if len(invs) > 1:
        inv = [i_ for i_ in invs if norm(i_.value) not in ("np.linalg.inv(self.s_o)", "np.linalg.inv(%s)" % g.params[3])][:1] or [inv]
        inv = inv[0]
    ctx.ob("BMCI.__init__.s_o_inv", ok, "self.s_o_inv = %s (%d assignment(s)); self.s_o = %s" % (norm(inv.value) if inv else None, len(invs), norm(so.value) if so else None),
           "inverse of the covariance passed to the constructor", node=inv or g.node, func=g)


def _weights_modes(ctx, w, wflow, x2, got, facts):
    okw = got[True] == ("0", "self.n", "self.y")
    il, iu = got[False][0], got[False][1]
    fh = [st for st in wflow.stmts if isinstance(st, ast.Assign) and calls_in(st.value, ("__find_hits", "_BMCI__find_hits")) and isinstance(st.targets[0], ast.Tuple)]
    from_hits = bool(fh) and [norm(e_) for e_ in fh[0].targets[0].elts[:2]] == [il, iu]
    if not from_hits and il.endswith("[0]") and iu.endswith("[1]") and il[:-3] == iu[:-3] and il.startswith(("self.__find_hits(", "self._BMCI__find_hits(")):
        from_hits = True
    okw = okw and got[False][2] == ("self.y[%s:%s,:]" % (il, iu)).replace(" ", "") and from_hits
    ctx.ob("BMCI.weights.bounds", okw, "returns %s" % facts, "(0, n, weights of all of self.y) or (i_l, i_u, weights of self.y[i_l:i_u, :]) with the bounds of __find_hits", node=w.node, func=w)
    # guard x2_max < 0 selects the unrestricted mode (decided above: the two modes are told apart by exactly that test)
    g = [st for st in wflow.stmts if isinstance(st, ast.If) and any(isinstance(n_, ast.Name) and n_.id == x2 for n_ in ast.walk(st.test))]
    tests = [norm(st.test).replace(" ", "") for st in g]
    okg = bool(g) and all(t_ in ("%s<0.0" % x2, "%s<0" % x2, "%s>=0.0" % x2, "%s>=0" % x2, "0.0>%s" % x2, "0>%s" % x2, "not%s<0.0" % x2, "not%s>=0.0" % x2) for t_ in tests)
    ctx.ob("BMCI.weights.mode", bool(okg), "mode decided by: %s" % tests, "x2_max < 0 -> all entries; x2_max >= 0 -> window", node=g[0] if g else w.node, func=w)


def rule_slice(ctx):
    ctx.rule("C18.slice", "T6+T4", "weights and x use the same window bounds; the x-sorted mask is i_l <= k < i_u shifted by -i_l")
    w = ctx.func(BM, "BMCI.weights")
    # unrestricted mode returns (0, n); restricted slices y with the same bounds it returns
    rets = [s for s in walk_no_nested(w.node) if isinstance(s, ast.Return)]
    wflow = Flow(w)
    x2 = w.params[2] if len(w.params) > 2 else "x2_max"
    facts = []
    got = {}
    for mode in (True, False):
        asm = {"%s < 0.0" % x2: mode, "%s < 0" % x2: mode, "%s >= 0.0" % x2: not mode, "%s >= 0" % x2: not mode, "0.0 > %s" % x2: mode, "0 > %s" % x2: mode}
        live = [r for r in rets if wflow.live_under(r, asm)]
        # an answer remembered from an earlier call (an attribute of self handed back): the window depends on x2_max, so the
        # condition under which it is handed back has to look at x2_max
        from ..flow import guard_chain as _gc
        memo = [r for r in live if isinstance(r.value, ast.Attribute) and norm(r.value).startswith("self.")]
        blind = [r for r in memo if not any(isinstance(n_, ast.Name) and n_.id == x2 for t_, _p in _gc(r, implicit=False)
                                            for n_ in ast.walk(wflow.resolve(t_, at=r, stop=(x2,))))]
        if blind:
            ctx.ob("BMCI.weights.bounds", False, "return %s under %s" % (norm(blind[0].value), [norm(t_)[:70] for t_, _p in _gc(blind[0], implicit=False)]),
                   "weights and bounds computed for THIS call's x2_max: a remembered answer that is handed back without comparing x2_max belongs to another window",
                   node=blind[0], func=w)
            ctx.ob("BMCI.weights.mode", False, "a remembered answer bypasses the mode decision", "x2_max < 0 -> all entries; x2_max >= 0 -> window", node=blind[0], func=w)
            break
        if len(live) != 1 or not isinstance(live[0].value, ast.Tuple) or len(live[0].value.elts) != 3:
            raise AnalysisError("weights: expected one `return i_l, i_u, ws` for x2_max %s 0, found %s" % ("<" if mode else ">=", [norm(r.value) for r in live]))
        r = live[0]
        lo = wflow.resolve_under(r.value.elts[0], asm, at=r, depth=3)
        hi = wflow.resolve_under(r.value.elts[1], asm, at=r, depth=3)
        wv = wflow.resolve_under(r.value.elts[2], asm, at=r, depth=4)
        gp = [c for c in ast.walk(wv) if isinstance(c, ast.Call) and isinstance(c.func, ast.Attribute) and c.func.attr in ("__gauss_prob", "_BMCI__gauss_prob")]
        gpf = ctx.func(BM, "BMCI.__gauss_prob")
        second = gpf.params[2] if len(gpf.params) > 2 else None
        ydb_arg = None
        if len(gp) == 1:
            ydb_arg = gp[0].args[1] if len(gp[0].args) > 1 else next((k_.value for k_ in gp[0].keywords if k_.arg == second), None)
        if ydb_arg is None:
            raise AnalysisError("weights: the returned weights %s are not one call of __gauss_prob" % norm(wv)[:60])
        ydb = norm(wflow.resolve_under(ydb_arg, asm, at=r, depth=4)).replace(" ", "")
        if ydb in ("self.y[0:self.n,:]", "self.y[:self.n,:]", "self.y[:,:]", "self.y[0:self.n]", "self.y[:self.n]") and str(norm(lo)) == "0" and str(norm(hi)) == "self.n":
            ydb = "self.y"          # the whole database written as its full slice
        got[mode] = (str(norm(lo)), str(norm(hi)), ydb)
        facts.append("x2_max %s 0: (%s, %s, weights of %s)" % ("<" if mode else ">=", norm(lo), norm(hi), ydb))
    if len(got) == 2:
        _weights_modes(ctx, w, wflow, x2, got, facts)
    p = ctx.func(BM, "BMCI.predict")
    uses = set(norm(n) for n in walk_no_nested(p.node) if isinstance(n, ast.Subscript) and norm(n.value) == "self.x")
    ctx.ob("BMCI.predict.slice", uses == {"self.x[i_l:i_u]"}, "subscripts of self.x in predict: %s" % sorted(uses),
           "self.x[i_l:i_u] with the bounds returned by weights()", node=p.node, func=p)
    for fname in ("cdf", "predict_quantiles"):
        f = ctx.func(BM, "BMCI." + fname)
        flow = Flow(f)
        wc = [c_ for c_ in calls_in(f.node, "weights") if norm(c_.func) == "self.weights"]
        wst = enclosing_stmt(wc[0]) if wc else None
        if not (isinstance(wst, ast.Assign) and isinstance(wst.targets[0], ast.Tuple) and len(wst.targets[0].elts) == 3):
            raise AnalysisError("%s: `i_l, i_u, ws = self.weights(...)` not found" % fname)
        il, iu, wn = [norm(e_) for e_ in wst.targets[0].elts]
        wcall = norm(wc[0])
        xsel, wsel, wrong_x = [], [], []
        for st in flow.stmts:
            if not isinstance(st, ast.Assign):
                continue
            for sub in [n_ for n_ in ast.walk(st.value) if isinstance(n_, ast.Subscript)]:
                r_ = flow.resolve(sub, at=st, depth=6, stop=(il, iu))
                if isinstance(r_, ast.Subscript):
                    base = norm(r_.value).replace(" ", "")
                    if base == "self.x[%s:%s]" % (il, iu):
                        xsel.append((st, r_.slice))
                    elif (base == "self.x" or base.startswith("self.x[")) and not isinstance(r_.slice, (ast.Slice, ast.Constant)) \
                            and any(isinstance(n_, ast.Attribute) and n_.attr == "x_sorted_inds" for n_ in ast.walk(r_.slice)):
                        wrong_x.append((st, norm(r_)[:80]))
                    elif isinstance(r_.value, ast.Subscript) and isinstance(r_.value.slice, ast.Constant) and r_.value.slice.value == 2 \
                            and isinstance(r_.value.value, ast.Call) and norm(r_.value.value.func) == "self.weights":
                        wsel.append((st, r_.slice))
        if wrong_x and not xsel:
            ctx.ob("BMCI.%s.window_view" % fname, False, "x values selected as %s" % wrong_x[0][1],
                   "xs = self.x[i_l:i_u][inds]: the shifted indices address the window, not the whole database", node=wrong_x[0][0], func=f)
            continue
        if len(xsel) != 1 or len(wsel) != 1:
            raise AnalysisError("%s: expected one selection from self.x[i_l:i_u] and one from the weights (found %d / %d)" % (fname, len(xsel), len(wsel)))
        kx, kw_ = xsel[0][1], wsel[0][1]
        ok = False
        fact = norm(kx)
        # K = self.x_sorted_inds[np.where(MASK)] - i_l
        if isinstance(kx, ast.BinOp) and isinstance(kx.op, ast.Sub) and norm(kx.right) == il and isinstance(kx.left, ast.Subscript) \
                and norm(kx.left.value) == "self.x_sorted_inds":
            m = calls_in(kx.left.slice, "where") if not (isinstance(kx.left.slice, ast.Call) and (dotted(kx.left.slice.func) or "").endswith("where")) else [kx.left.slice]
            mask = None
            if m and len(m[0].args) == 1:
                mask = m[0].args[0]
            elif not m and isinstance(kx.left.slice, (ast.BinOp, ast.Compare, ast.Call, ast.BoolOp)):
                mask = kx.left.slice           # boolean-mask indexing: x[mask] selects where the mask holds, like x[np.where(mask)]
            if mask is not None:
                tt = {}
                for k in range(4):
                    tt[k] = bool(Interp({il: 1, iu: 3, "self.x_sorted_inds": k}).ev(mask))
                ok = tt == {0: False, 1: True, 2: True, 3: False}
        ctx.ob("BMCI.%s.mask" % fname, ok, "index into the window = %s" % fact, "where(i_l <= k < i_u) over the x-sorted indices, then shifted by -i_l into the window", node=xsel[0][0], func=f)
        okx = norm(kx) == norm(kw_)
        ctx.ob("BMCI.%s.window_view" % fname, okx, "xs = self.x[%s:%s][K]; ws = weights[K']; K == K': %s" % (il, iu, okx),
               "xs = self.x[i_l:i_u][inds] and ws = ws[inds]: both taken from the window with the shifted indices", node=xsel[0][0], func=f)


def rule_nan(ctx):
    ctx.rule("C18.nan", "T1+T8", "zero total weight -> NaN through names that exist; the selecting test is total on an empty window")
    # T8: every numpy name used by the estimating functions exists
    names = {}
    mod = ctx.mod(BM)
    for fname in ("__init__", "__find_hits", "__gauss_prob", "weights", "predict", "cdf", "predict_quantiles"):
        f = ctx.func(BM, "BMCI." + fname)
        for k, nodes in apiscan.library_names(f, mod).items():
            names.setdefault(k, []).append((f, nodes[0]))
    info = apiscan.resolve(sorted(names))
    missing = {k: v for k, v in info.items() if v.get("exists") is False}
    unknown = {k: v for k, v in info.items() if v.get("exists") is None}
    if unknown:
        raise AnalysisError("API resolution failed: %s" % unknown)
    first = None
    for k in missing:
        first = names[k][0]
    ctx.ob("BMCI.api", not missing, "library names used: %d; missing in the installed library: %s" % (len(info), {k: [u[0].qualname for u in names[k]] for k in missing} or "none"),
           "every numpy name used exists in the installed numpy (np.float was removed in numpy 1.24: AttributeError instead of NaN)",
           node=first[1] if first else mod.tree, func=first[0] if first else None)
    ctx.extra["api_names_resolved"] = len(info)
    # predict: else branch assigns NaN to both outputs
    p = ctx.func(BM, "BMCI.predict")
    from ..flow import arms
    gi = []
    vals = None
    for st in walk_no_nested(p.node):
        if isinstance(st, ast.If):
            blk = parent(st)
            sib = next((getattr(blk, fl_) for fl_ in ("body", "orelse") if any(x is st for x in getattr(blk, fl_, []))), None)
            for cnd in ("c > 0.0", "c > 0", "0 < c", "0.0 < c"):
                ab = arms(st, cnd, sib)
                if ab is not None:
                    gi.append((st, ab))
                    break
    okp = False
    if gi:
        zero_arm = gi[0][1][1]
        vals = {norm(s.targets[0]): norm(s.value) for s in zero_arm if isinstance(s, ast.Assign)}
        okp = set(vals) == {"xs[i]", "sigmas[i]"} and all(_is_nan(v) for v in vals.values())
        if not okp and not vals:
            # nothing assigned for a zero weight: the outputs were allocated full of NaN and are written under a positive weight only
            pre = {}
            for s_ in walk_no_nested(p.node):
                if isinstance(s_, ast.Assign) and isinstance(s_.targets[0], ast.Name) and isinstance(s_.value, ast.Call) \
                        and (dotted(s_.value.func) or "").split(".")[-1] == "full" and len(s_.value.args) >= 2 and _is_nan(norm(s_.value.args[1])):
                    pre[s_.targets[0].id] = norm(s_.value)
            wr = [s_ for s_ in gi[0][1][0] if isinstance(s_, ast.Assign) and isinstance(s_.targets[0], ast.Subscript)]
            outs = {norm(s_.targets[0].value) for s_ in wr}
            others = [s_ for s_ in walk_no_nested(p.node) if isinstance(s_, ast.Assign) and isinstance(s_.targets[0], ast.Subscript)
                      and norm(s_.targets[0].value) in outs and not any(s_ is w_ for w_ in wr)]
            if len(outs) == 2 and outs <= set(pre) and not others:
                okp = True
                vals = {"%s[i]" % o_: "%s (pre-filled)" % pre[o_] for o_ in sorted(outs)}
    gi = [g_[0] for g_ in gi]
    ctx.ob("BMCI.predict.fallback", okp, "else-branch of the weight test: %s" % (vals if gi else None), "xs[i] and sigmas[i] become NaN when the total weight is 0 (sum of an empty window is 0.0: total)",
           node=gi[0] if gi else p.node, func=p)
    for fname in ("cdf", "predict_quantiles"):
        f = ctx.func(BM, "BMCI." + fname)
        gi = [st for st in walk_no_nested(f.node) if isinstance(st, ast.If) and "ws_cum[-1]" in norm(st.test)]
        ok = False
        fact = None
        if gi:
            cj = conjuncts(gi[0].test)
            fact = norm(gi[0].test)
            # a size test must come before the last-element subscript in the conjunction
            pos_size = [i for i, c in enumerate(cj) if ("size" in norm(c) or "len(" in norm(c)) and "ws_cum[-1]" not in norm(c)]
            pos_last = [i for i, c in enumerate(cj) if "ws_cum[-1]" in norm(c)]
            ok = bool(pos_size) and min(pos_size) < min(pos_last) and isinstance(gi[0].test, ast.BoolOp) and isinstance(gi[0].test.op, ast.And)
            # NaN in the else branch
            nanv = [norm(s.value) for s in gi[0].orelse if isinstance(s, ast.Assign)]
            ok = ok and bool(nanv) and all(_is_nan(v) for v in nanv)
            if not ok:
                # any other spelling: the test is evaluated for an empty window (the last element does not exist there), a window of
                # total weight 0 and one of positive weight; the arm that yields NaN must be taken in exactly the first two cases
                def has_nan(arm):
                    return any(_is_nan(norm(x)) for st_ in arm for x in ast.walk(st_) if isinstance(x, (ast.Call, ast.Attribute)))
                else_arm = gi[0].orelse
                if not else_arm and gi[0].body and isinstance(gi[0].body[-1], (ast.Return, ast.Raise, ast.Continue)):
                    # `if test: ...; return` followed by the other case: the statements behind the `if` are its else arm
                    blk_ = parent(gi[0])
                    for fld_ in ("body", "orelse", "finalbody"):
                        lst_ = getattr(blk_, fld_, None)
                        if isinstance(lst_, list) and any(x_ is gi[0] for x_ in lst_):
                            else_arm = lst_[[k_ for k_, x_ in enumerate(lst_) if x_ is gi[0]][0] + 1:]
                nan_in_body, nan_in_else = has_nan(gi[0].body), has_nan(else_arm)
                if nan_in_body != nan_in_else:
                    from ..order import Interp
                    verdicts = []
                    for size_, last_ in ((0, None), (2, 0), (2, 1)):
                        env_ = {"ws_cum.size": size_, "len(ws_cum)": size_, "ws_cum.shape[0]": size_, "ws.size": size_, "len(ws)": size_}
                        if last_ is not None:
                            env_["ws_cum[-1]"] = last_
                        try:
                            v_ = bool(Interp(env_).ev(gi[0].test))
                        except AnalysisError as e_:
                            if last_ is None and "ws_cum" in str(e_):
                                v_ = None       # the last element of an empty window is evaluated
                            else:
                                raise AnalysisError("%s: the test %s in front of the normalisation is outside the model: %s" % (fname, fact, e_))
                        verdicts.append(v_)
                    want = [nan_in_body, nan_in_body, not nan_in_body]
                    ok = verdicts == want
        else:
            # alternative: test on the sum of weights (total on empty arrays)
            gi2 = [st for st in walk_no_nested(f.node) if isinstance(st, ast.If) and ("ws.sum()" in norm(st.test) or "np.sum(ws)" in norm(st.test))]
            if gi2:
                fact = norm(gi2[0].test)
                nanv = [norm(s.value) for s in gi2[0].orelse if isinstance(s, ast.Assign)]
                ok = bool(nanv) and all(_is_nan(v) for v in nanv)
        ctx.ob("BMCI.%s.fallback" % fname, ok, "selecting test: %s" % fact,
               "no last-element subscript of the (possibly empty) window is evaluated before a size test; the other branch yields NaN",
               node=gi[0] if gi else f.node, func=f)


def _is_nan(v):
    return v.replace('"', "'") in ("float('nan')", "np.nan", "numpy.nan", "math.nan", "np.float('nan')", "np.float64('nan')")


def rule_cdf(ctx):
    ctx.rule("C18.cdf", "T6", "cdf = cumulative weights in x order / last element; quantiles = interp(taus, cdf, xs)")
    for fname in ("cdf", "predict_quantiles"):
        f = ctx.func(BM, "BMCI." + fname)
        cum = [st for st in walk_no_nested(f.node) if isinstance(st, ast.Assign) and norm(st.targets[0]) == "ws_cum"
               and norm(st.value) in ("ws.cumsum()", "np.cumsum(ws)")]
        nrm = [st for st in walk_no_nested(f.node) if isinstance(st, ast.AugAssign) and norm(st.target) == "ws_cum" and isinstance(st.op, ast.Div)
               and norm(st.value) == "ws_cum[-1]"]
        if not nrm:
            # out of place: ws_cum = ws_cum / ws_cum[-1], or the quotient returned / used directly
            nrm = [st for st in walk_no_nested(f.node) if isinstance(st, (ast.Assign, ast.Return)) and st.value is not None
                   and any(isinstance(n_, ast.BinOp) and isinstance(n_.op, ast.Div) and norm(n_.left) == "ws_cum" and norm(n_.right) == "ws_cum[-1]" for n_ in ast.walk(st.value))]
        ctx.ob("BMCI.%s.cumulative" % fname, bool(cum) and bool(nrm), "ws_cum: %s ; %s" % ([norm(s) for s in cum], [norm(s) for s in nrm]),
               "ws_cum = ws.cumsum(); ws_cum /= ws_cum[-1] (non-decreasing, ends at 1)", node=cum[0] if cum else f.node, func=f)
    f = ctx.func(BM, "BMCI.predict_quantiles")
    ip = calls_in(f.node, "interp")
    ok = False
    if ip and len(ip[0].args) == 3:
        flow = Flow(f)
        first = flow.resolve(ip[0].args[0], at=ip[0])
        ok = any(isinstance(n, ast.Name) and n.id == f.params[2] for n in ast.walk(first)) \
            and [norm(a) for a in ip[0].args[1:]] == ["ws_cum", "xs"]
    ctx.ob("BMCI.predict_quantiles.interp", ok, "%s" % (norm(ip[0]) if ip else None), "np.interp(taus, cdf, xs): quantile = x at which the cdf reaches tau",
           node=ip[0] if ip else f.node, func=f)


def run(ctx):
    for r in (rule_perm, rule_window, rule_weights, rule_moments, rule_slice, rule_nan, rule_cdf):
        ctx.attempt(r, ctx)
    # the caller's arguments (arrays, filter / fill dictionaries) are not modified: an in-place update makes the next call on the same objects wrong
    from ..purity import rule_pure as _rule_args
    ctx.attempt(_rule_args, ctx, "C18.args", [('typhon/retrieval/bmci/bmci.py', 'BMCI.predict'), ('typhon/retrieval/bmci/bmci.py', 'BMCI.weights'), ('typhon/retrieval/bmci/bmci.py', 'BMCI.cdf'), ('typhon/retrieval/bmci/bmci.py', 'BMCI.predict_quantiles')], "the caller's arguments are not modified in place")
