"""C18 - BMCI estimates are the importance-weighted statistics of its database.

Provenance rules for the database permutation and the candidate window (T6), formula algebra
on small symbolic instances for the weights, the moments and the window half-width (T5), the
NaN fallback (T1 + T8 API resolution), the cdf / quantile construction (T6).  Floating-point
behaviour (e.g. cancellation in algebraically equal variance formulas) is not decided.
"""
import ast
import sympy as sp
from ..core import AnalysisError, norm, dotted, calls_in, walk_no_nested, parent, enclosing_stmt, const_value
from ..flow import Flow, conjuncts
from ..order import Interp
from .. import apiscan
from ..alg import is_zero

BM = "typhon/retrieval/bmci/bmci.py"
EXPECT = {"C18.perm": 4, "C18.window": 5, "C18.weights": 2, "C18.moments": 2, "C18.slice": 6, "C18.nan": 4, "C18.cdf": 3}


def _self_assigns(f):
    out = {}
    for st in walk_no_nested(f.node):
        if isinstance(st, ast.Assign) and len(st.targets) == 1 and isinstance(st.targets[0], ast.Attribute) \
                and isinstance(st.targets[0].value, ast.Name) and st.targets[0].value.id == "self":
            out.setdefault(st.targets[0].attr, []).append(st)
    for k in out:
        out[k].sort(key=lambda s: s.lineno)
    return out


def rule_perm(ctx):
    ctx.rule("C18.perm", "T6", "one permutation (argsort of the projection) is applied to projection, x and y; x-sorted view from the permuted x")
    f = ctx.func(BM, "BMCI.__init__")
    yp, xp = f.params[1], f.params[2]
    S = _self_assigns(f)
    flow = Flow(f)
    perm = None
    for st in flow.stmts:
        if isinstance(st, ast.Assign) and isinstance(st.targets[0], ast.Name) and isinstance(st.value, ast.Call) \
                and (dotted(st.value.func) or "").split(".")[-1] == "argsort" and norm(st.value.args[0]) == "self.pc1_proj":
            perm = st
    if perm is None:
        raise AnalysisError("BMCI.__init__: argsort of the projection not found")
    pi = perm.targets[0].id
    def last(attr):
        return S.get(attr, [None])[-1]
    p_ok = last("pc1_proj") is not None and norm(last("pc1_proj").value) == "self.pc1_proj[%s]" % pi and last("pc1_proj").lineno > perm.lineno
    ctx.ob("BMCI.__init__.perm[pc1_proj]", p_ok, "self.pc1_proj = %s" % (norm(last("pc1_proj").value) if last("pc1_proj") else None),
           "re-bound to self.pc1_proj[pi] with pi = argsort(self.pc1_proj) (ascending: searchsorted needs it)", node=last("pc1_proj") or perm, func=f)
    x_ok = last("x") is not None and norm(last("x").value) == "%s[%s]" % (xp, pi)
    ctx.ob("BMCI.__init__.perm[x]", x_ok, "self.x = %s" % (norm(last("x").value) if last("x") else None), "x[pi] - the same permutation", node=last("x") or perm, func=f)
    y_ok = last("y") is not None and norm(last("y").value).replace(" ", "") in ("%s[%s,:]" % (yp, pi), "%s[%s]" % (yp, pi))
    ctx.ob("BMCI.__init__.perm[y]", y_ok, "self.y = %s" % (norm(last("y").value) if last("y") else None), "y[pi, :] - the same permutation of the rows", node=last("y") or perm, func=f)
    xs = last("x_sorted_inds")
    xs_ok = xs is not None and norm(xs.value) == "np.argsort(self.x)" and last("x") is not None and xs.lineno > last("x").lineno
    ctx.ob("BMCI.__init__.x_sorted_inds", xs_ok, "self.x_sorted_inds = %s" % (norm(xs.value) if xs else None),
           "argsort of the permuted self.x (computed after self.x was re-bound)", node=xs or perm, func=f)


def rule_window(ctx):
    ctx.rule("C18.window", "T5+T6", "window half-width h with h^2 = c * x2_max * lambda, c >= 1, lambda the eigenvalue belonging to the "
             "projection axis (the smallest), same mean and axis for database and observation")
    f = ctx.func(BM, "BMCI.__init__")
    S = _self_assigns(f)
    flow = Flow(f)
    # eig
    eig = None
    for st in flow.stmts:
        if isinstance(st, ast.Assign) and isinstance(st.targets[0], ast.Tuple) and calls_in(st.value, ("eig", "eigh")):
            eig = st
    if eig is None:
        raise AnalysisError("BMCI.__init__: eigen decomposition not found")
    wn, vn = [norm(e) for e in eig.targets[0].elts]
    c = calls_in(eig.value, ("eig", "eigh"))[0]
    ok_e = norm(c.args[0]) in ("self.s_o", f.params[3])
    srt = None
    for st in flow.stmts:
        if isinstance(st, ast.Assign) and isinstance(st.targets[0], ast.Name) and norm(st.value) == "np.argsort(%s)" % wn:
            srt = st
    if srt is None:
        raise AnalysisError("BMCI.__init__: argsort of the eigenvalues not found")
    inds = srt.targets[0].id
    e = S.get("pc1_e", [None])[-1]
    v = S.get("pc1", [None])[-1]
    e_txt = norm(e.value).replace(" ", "") if e else None
    ok_val = e_txt in ("1.0/%s[%s[0]]" % (wn, inds), "1/%s[%s[0]]" % (wn, inds))
    ctx.ob("BMCI.__init__.eigenvalue", ok_e and ok_val, "self.pc1_e = %s from eig(%s), order = argsort" % (norm(e.value) if e else None, norm(c.args[0])),
           "1 / (smallest eigenvalue of the given covariance): first entry of the ascending argsort", node=e or eig, func=f)
    v_txt = norm(v.value).replace(" ", "") if v else None
    ok_vec = v_txt == "%s[:,%s[0]]" % (vn, inds)
    ctx.ob("BMCI.__init__.eigenvector", ok_vec, "self.pc1 = %s" % (norm(v.value) if v else None),
           "the COLUMN of the eigenvector matrix with the same index as the eigenvalue (eig returns eigenvectors as columns)", node=v or eig, func=f)
    pr = S.get("pc1_proj", [None])[0]
    ok_pr = pr is not None and norm(pr.value).replace(" ", "") in ("np.dot(%s-self.y_mean,self.pc1)" % f.params[1], "np.dot((%s-self.y_mean),self.pc1)" % f.params[1])
    h = ctx.func(BM, "BMCI.__find_hits")
    hflow = Flow(h)
    yo, x2 = h.params[1], h.params[2]
    A = {}
    for st in hflow.stmts:
        if isinstance(st, ast.Assign) and isinstance(st.targets[0], ast.Name):
            A[st.targets[0].id] = st
    yp = A.get("y_proj")
    ok_o = yp is not None and norm(yp.value).replace(" ", "") in ("np.dot(self.pc1,(%s-self.y_mean).ravel())" % yo, "np.dot(self.pc1,%s-self.y_mean)" % yo,
                                                                  "np.dot((%s-self.y_mean).ravel(),self.pc1)" % yo)
    ctx.ob("BMCI.projection", ok_pr and ok_o, "database: %s ; observation: %s" % (norm(pr.value) if pr else None, norm(yp.value) if yp else None),
           "both are dot(. - self.y_mean, self.pc1): same mean, same axis", node=yp or h.node, func=h)
    # half width
    X2, E = sp.symbols("x2 e", positive=True)
    Yp = sp.Symbol("yp", real=True)

    def term(n):
        t = norm(n)
        if t == x2:
            return X2
        if t == "self.pc1_e":
            return E
        if t == "y_proj":
            return Yp
        if isinstance(n, ast.Constant):
            return sp.nsimplify(n.value)
        if isinstance(n, ast.BinOp):
            from ..alg import _binop
            return _binop(n.op, term(n.left), term(n.right))
        if isinstance(n, ast.Call) and dotted(n.func) in ("np.sqrt", "math.sqrt"):
            return sp.sqrt(term(n.args[0]))
        raise AnalysisError("__find_hits: unsupported expression %s" % t)
    sl, su = A.get("s_l"), A.get("s_u")
    if sl is None or su is None:
        raise AnalysisError("__find_hits: s_l / s_u not found")
    hl = sp.simplify(Yp - term(sl.value))
    hu = sp.simplify(term(su.value) - Yp)
    # h^2 = c * x2 * lambda with lambda = 1/E
    cl = sp.simplify(hl ** 2 * E / X2)
    cu = sp.simplify(hu ** 2 * E / X2)
    ok_h = cl.is_number and cu.is_number and cl >= 1 and cu >= 1 and hl.is_positive and hu.is_positive
    ctx.ob("BMCI.__find_hits.halfwidth", bool(ok_h), "lower: y_proj - %s, upper: y_proj + %s; h^2 / (x2_max * lambda) = %s, %s" % (hl, hu, cl, cu),
           "symmetric window with h^2 = c * x2_max * lambda_min, c >= 1: |u^T dy| <= sqrt(lambda * chi^2) for the eigenvector u", node=sl, func=h)
    ss = calls_in(h.node, "searchsorted")
    ok_s = bool(ss) and norm(ss[0].args[0]) == "self.pc1_proj" and norm(ss[0].args[1]).replace(" ", "") in ("np.array([s_l,s_u])", "[s_l,s_u]")
    rets = [s for s in hflow.stmts if isinstance(s, ast.Return)]
    ok_r = bool(rets) and norm(rets[0].value).replace(" ", "").startswith("(inds[0],inds[1]")
    # the returned bounds are the searchsorted results themselves (i_u is an EXCLUSIVE bound and may equal n)
    if ok_r and ss:
        ds_ = hflow.defs("inds", rets[0])
        ok_r = len(ds_) == 1 and isinstance(ds_[0], ast.Assign) and ds_[0].value is ss[0]
    ctx.ob("BMCI.__find_hits.search", ok_s and ok_r, "searchsorted: %s; return %s" % (norm(ss[0]) if ss else None, norm(rets[0].value) if rets else None),
           "(i_l, i_u) = searchsorted(sorted projections, [s_l, s_u])", node=ss[0] if ss else h.node, func=h)


class V:
    """tiny element-wise array model for 2-element instances: a tuple of sympy terms"""
    def __init__(self, items):
        self.items = tuple(items)


def _vec(ctx, expr, env):
    def ev(n):
        t = norm(n)
        if t in env:
            return env[t]
        if isinstance(n, ast.Constant):
            return sp.nsimplify(n.value)
        if isinstance(n, ast.BinOp):
            l, r = ev(n.left), ev(n.right)
            def op(a, b):
                from ..alg import _binop
                return _binop(n.op, a, b)
            if isinstance(l, V) and isinstance(r, V):
                return V(op(a, b) for a, b in zip(l.items, r.items))
            if isinstance(l, V):
                return V(op(a, r) for a in l.items)
            if isinstance(r, V):
                return V(op(l, b) for b in r.items)
            return op(l, r)
        if isinstance(n, ast.Call):
            d = dotted(n.func) or ""
            last = d.split(".")[-1]
            if isinstance(n.func, ast.Attribute) and n.func.attr in ("ravel", "flatten", "squeeze") and not n.args:
                return ev(n.func.value)
            if isinstance(n.func, ast.Attribute) and n.func.attr == "sum" and d.split(".")[0] not in ("np", "numpy"):
                v = ev(n.func.value)
                return sum(v.items) if isinstance(v, V) else v
            if last in ("sum", "nansum") and n.args:
                v = ev(n.args[0])
                return sum(v.items) if isinstance(v, V) else v
            if last == "sqrt":
                v = ev(n.args[0])
                return V(sp.sqrt(a) for a in v.items) if isinstance(v, V) else sp.sqrt(v)
        raise AnalysisError("expression outside the moment model: %s" % t)
    return ev(expr)


def rule_moments(ctx):
    ctx.rule("C18.moments", "T5", "mean = sum(x w)/sum(w); std = sqrt(sum((x - mean)^2 w)/sum(w))  (2-entry symbolic database)")
    f = ctx.func(BM, "BMCI.predict")
    flow = Flow(f)
    x1, x2, w1, w2 = sp.symbols("x1 x2 w1 w2", positive=True)
    X, W = V([x1, x2]), V([w1, w2])
    env = {"self.x[i_l:i_u]": X, "ws": W}
    cdef = None
    mean_st = sig_st = None
    for st in flow.stmts:
        if isinstance(st, ast.Assign) and isinstance(st.targets[0], ast.Name) and norm(st.value) in ("ws.sum()", "np.sum(ws)"):
            cdef = st
        if isinstance(st, ast.Assign) and isinstance(st.targets[0], ast.Subscript) and not (
                isinstance(st.value, ast.Call) and (dotted(st.value.func) or "") in ("float", "np.float")) and norm(st.value) not in ("np.nan",):
            if norm(st.targets[0].value) == "xs" and mean_st is None:
                mean_st = st
            elif norm(st.targets[0].value) == "sigmas" and sig_st is None:
                sig_st = st
    if cdef is None or mean_st is None or sig_st is None:
        raise AnalysisError("predict: normalisation / mean / sigma assignments not found")
    env[cdef.targets[0].id] = w1 + w2
    mean = _vec(ctx, mean_st.value, env)
    want_mean = (x1 * w1 + x2 * w2) / (w1 + w2)
    v, info = is_zero(sp.simplify(mean - want_mean))
    ctx.ob("BMCI.predict.mean", v is True, "xs[i] = %s  ->  %s" % (norm(mean_st.value)[:80], sp.simplify(mean)), "sum(x_i w_i) / sum(w_i)",
           node=mean_st, func=f, witness=None if v else info)
    env[norm(mean_st.targets[0])] = mean
    sig = _vec(ctx, sig_st.value, env)
    want = sp.sqrt((w1 * (x1 - want_mean) ** 2 + w2 * (x2 - want_mean) ** 2) / (w1 + w2))
    v, info = is_zero(sp.simplify(sig ** 2 - want ** 2))
    ctx.ob("BMCI.predict.std", v is True and sig.func == sp.Pow or v is True, "sigmas[i] = %s" % norm(sig_st.value)[:100],
           "sqrt(sum(w_i (x_i - mean)^2) / sum(w_i)) (any algebraically equal form passes; rounding is not decided)", node=sig_st, func=f,
           witness=None if v else info)
    ctx.models.append({"rule": "C18.moments", "cases": 2, "identity": "2-entry database"})


def rule_weights(ctx):
    ctx.rule("C18.weights", "T5", "w = exp(-1/2 * dy S^-1 dy^T) with S^-1 the inverse of the given covariance")
    f = ctx.func(BM, "BMCI.__gauss_prob")
    yo, yd = f.params[1], f.params[2]
    d1, d2 = sp.symbols("d1 d2", real=True)
    P = sp.Matrix(2, 2, lambda i, j: sp.Symbol("p%d%d" % (min(i, j), max(i, j)), real=True))
    dy = sp.Matrix([[d1, d2]])
    env = {}

    def ev(n):
        t = norm(n)
        if t in env:
            return env[t]
        if t == "self.s_o_inv":
            return P
        if isinstance(n, ast.Constant):
            return sp.nsimplify(n.value)
        if isinstance(n, ast.UnaryOp) and isinstance(n.op, ast.USub):
            return -ev(n.operand)
        if isinstance(n, ast.BinOp):
            if isinstance(n.op, ast.Sub) and {norm(n.left), norm(n.right)} <= {yd, "%s.reshape(1, -1)" % yo, yo} and norm(n.left) != norm(n.right):
                return dy if norm(n.left) == yd else -dy
            l, r = ev(n.left), ev(n.right)
            if isinstance(n.op, ast.Mult):
                if isinstance(l, sp.MatrixBase) and isinstance(r, sp.MatrixBase):
                    if l.shape != r.shape:
                        raise AnalysisError("element-wise product of different shapes")
                    return l.multiply_elementwise(r)
                return l * r
            if isinstance(n.op, ast.MatMult):
                return l * r
            from ..alg import _binop
            return _binop(n.op, l, r)
        if isinstance(n, ast.Call):
            d = dotted(n.func) or ""
            last = d.split(".")[-1]
            if last == "dot" and len(n.args) == 2:
                return ev(n.args[0]) * ev(n.args[1])
            if last == "exp":
                v = ev(n.args[0])
                return v.applyfunc(sp.exp) if isinstance(v, sp.MatrixBase) else sp.exp(v)
            if isinstance(n.func, ast.Attribute) and n.func.attr == "sum":
                v = ev(n.func.value)
                kw = {k.arg: norm(k.value) for k in n.keywords}
                if kw.get("axis") == "1" or (n.args and norm(n.args[0]) == "1"):
                    return sp.Matrix([[sum(v.row(i))] for i in range(v.rows)])
                raise AnalysisError("__gauss_prob: sum over an unexpected axis: %s" % norm(n))
            if last in ("einsum",):
                raise AnalysisError("__gauss_prob: einsum not modelled")
        if isinstance(n, ast.Attribute) and n.attr == "T":
            return ev(n.value).T
        raise AnalysisError("__gauss_prob: unsupported expression %s" % t)
    ret = None
    for st in f.body:
        if isinstance(st, ast.Assign) and isinstance(st.targets[0], ast.Name):
            env[st.targets[0].id] = ev(st.value)
        elif isinstance(st, ast.Return):
            ret = ev(st.value)
    if ret is None:
        raise AnalysisError("__gauss_prob: no return")
    got = ret[0, 0] if isinstance(ret, sp.MatrixBase) else ret
    want = sp.exp(-(dy * P * dy.T)[0, 0] / 2)
    v, info = is_zero(sp.simplify(sp.log(got) - sp.log(want)))
    ctx.ob("BMCI.__gauss_prob", v is True, "w = %s" % sp.simplify(got), "exp(-(dy S^-1 dy^T)/2)  (2 channels, symmetric S^-1)", node=f.node, func=f,
           witness=None if v else info)
    g = ctx.func(BM, "BMCI.__init__")
    S = _self_assigns(g)
    invs = S.get("s_o_inv", [])
    inv = invs[-1] if invs else None
    so = S.get("s_o", [None])[-1]
    ok = bool(invs) and all(norm(i_.value) in ("np.linalg.inv(self.s_o)", "np.linalg.inv(%s)" % g.params[3]) for i_ in invs) \
        and so is not None and norm(so.value) == g.params[3]
    if len(invs) > 1:
        inv = [i_ for i_ in invs if norm(i_.value) not in ("np.linalg.inv(self.s_o)", "np.linalg.inv(%s)" % g.params[3])][:1] or [inv]
        inv = inv[0]
    ctx.ob("BMCI.__init__.s_o_inv", ok, "self.s_o_inv = %s (%d assignment(s)); self.s_o = %s" % (norm(inv.value) if inv else None, len(invs), norm(so.value) if so else None),
           "inverse of the covariance passed to the constructor", node=inv or g.node, func=g)


def rule_slice(ctx):
    ctx.rule("C18.slice", "T6+T4", "weights and x use the same window bounds; the x-sorted mask is i_l <= k < i_u shifted by -i_l")
    w = ctx.func(BM, "BMCI.weights")
    # unrestricted mode returns (0, n); restricted slices y with the same bounds it returns
    rets = [s for s in walk_no_nested(w.node) if isinstance(s, ast.Return)]
    okw = False
    facts = []
    for r in rets:
        facts.append(norm(r.value))
    unres = [r for r in rets if norm(r.value).replace(" ", "").startswith("(0,self.n,")]
    res = [r for r in rets if r not in unres]
    okw = len(unres) == 1 and len(res) == 1
    if okw:
        il, iu = [norm(e) for e in res[0].value.elts[:2]]
        gp = calls_in(w.node, "__gauss_prob") + calls_in(w.node, "_BMCI__gauss_prob")
        sl = [norm(c.args[1]).replace(" ", "") for c in gp]
        okw = "self.y[%s:%s,:]" % (il, iu) in sl and "self.y" in sl
    ctx.ob("BMCI.weights.bounds", okw, "returns %s" % facts, "(0, n, weights of all of self.y) or (i_l, i_u, weights of self.y[i_l:i_u, :])", node=w.node, func=w)
    # guard x2_max < 0 selects the unrestricted mode
    g = [st for st in w.body if isinstance(st, ast.If)]
    okg = bool(g) and norm(g[0].test).replace(" ", "") in ("x2_max<0.0", "x2_max<0") and unres and unres[0] in list(ast.walk(g[0]))and any(unres[0] is s for s in g[0].body)
    ctx.ob("BMCI.weights.mode", bool(okg), "if %s: unrestricted" % (norm(g[0].test) if g else None), "x2_max < 0 -> all entries; x2_max >= 0 -> window", node=g[0] if g else w.node, func=w)
    p = ctx.func(BM, "BMCI.predict")
    uses = set(norm(n) for n in walk_no_nested(p.node) if isinstance(n, ast.Subscript) and norm(n.value) == "self.x")
    ctx.ob("BMCI.predict.slice", uses == {"self.x[i_l:i_u]"}, "subscripts of self.x in predict: %s" % sorted(uses),
           "self.x[i_l:i_u] with the bounds returned by weights()", node=p.node, func=p)
    for fname in ("cdf", "predict_quantiles"):
        f = ctx.func(BM, "BMCI." + fname)
        flow = Flow(f)
        A = {}
        for st in flow.stmts:
            if isinstance(st, ast.Assign) and isinstance(st.targets[0], ast.Name):
                A.setdefault(st.targets[0].id, []).append(st)
        inds = A.get("inds", [])
        ok = False
        fact = [norm(s.value) for s in inds]
        if len(inds) == 2:
            m = calls_in(inds[0].value, "where")
            if m:
                mask = m[0].args[0]
                tt = {}
                for k in range(4):
                    tt[k] = bool(Interp({"i_l": 1, "i_u": 3, "self.x_sorted_inds": k}).ev(mask))
                ok = tt == {0: False, 1: True, 2: True, 3: False} and norm(inds[1].value).replace(" ", "") == "self.x_sorted_inds[inds]-i_l"
        ctx.ob("BMCI.%s.mask" % fname, ok, "inds = %s" % fact, "where(i_l <= k < i_u) over the x-sorted indices, then shifted by -i_l into the window", node=inds[0] if inds else f.node, func=f)
        xs = A.get("xs", [None])[0]
        ws = [s for s in A.get("ws", []) if isinstance(s.value, ast.Subscript)]
        okx = xs is not None and norm(xs.value) == "self.x[i_l:i_u][inds]" and bool(ws) and norm(ws[0].value) == "ws[inds]"
        ctx.ob("BMCI.%s.window_view" % fname, okx, "xs = %s; ws = %s" % (norm(xs.value) if xs else None, norm(ws[0].value) if ws else None),
               "xs = self.x[i_l:i_u][inds] and ws = ws[inds]: both taken from the window with the shifted indices", node=xs or f.node, func=f)


def rule_nan(ctx):
    ctx.rule("C18.nan", "T1+T8", "zero total weight -> NaN through names that exist; the selecting test is total on an empty window")
    # T8: every numpy name used by the estimating functions exists
    names = {}
    mod = ctx.mod(BM)
    for fname in ("__init__", "__find_hits", "__gauss_prob", "weights", "predict", "cdf", "predict_quantiles"):
        f = ctx.func(BM, "BMCI." + fname)
        for k, nodes in apiscan.library_names(f, mod).items():
            names.setdefault(k, []).append((f, nodes[0]))
    info = apiscan.resolve(sorted(names))
    missing = {k: v for k, v in info.items() if v.get("exists") is False}
    unknown = {k: v for k, v in info.items() if v.get("exists") is None}
    if unknown:
        raise AnalysisError("API resolution failed: %s" % unknown)
    first = None
    for k in missing:
        first = names[k][0]
    ctx.ob("BMCI.api", not missing, "library names used: %d; missing in the installed library: %s" % (len(info), {k: [u[0].qualname for u in names[k]] for k in missing} or "none"),
           "every numpy name used exists in the installed numpy (np.float was removed in numpy 1.24: AttributeError instead of NaN)",
           node=first[1] if first else mod.tree, func=first[0] if first else None)
    ctx.extra["api_names_resolved"] = len(info)
    # predict: else branch assigns NaN to both outputs
    p = ctx.func(BM, "BMCI.predict")
    gi = [st for st in walk_no_nested(p.node) if isinstance(st, ast.If) and norm(st.test).replace(" ", "") in ("c>0.0", "c>0")]
    okp = False
    if gi:
        vals = {norm(s.targets[0]): norm(s.value) for s in gi[0].orelse if isinstance(s, ast.Assign)}
        okp = set(vals) == {"xs[i]", "sigmas[i]"} and all(_is_nan(v) for v in vals.values())
    ctx.ob("BMCI.predict.fallback", okp, "else-branch of the weight test: %s" % (vals if gi else None), "xs[i] and sigmas[i] become NaN when the total weight is 0 (sum of an empty window is 0.0: total)",
           node=gi[0] if gi else p.node, func=p)
    for fname in ("cdf", "predict_quantiles"):
        f = ctx.func(BM, "BMCI." + fname)
        gi = [st for st in walk_no_nested(f.node) if isinstance(st, ast.If) and "ws_cum[-1]" in norm(st.test)]
        ok = False
        fact = None
        if gi:
            cj = conjuncts(gi[0].test)
            fact = norm(gi[0].test)
            # a size test must come before the last-element subscript in the conjunction
            pos_size = [i for i, c in enumerate(cj) if ("size" in norm(c) or "len(" in norm(c)) and "ws_cum[-1]" not in norm(c)]
            pos_last = [i for i, c in enumerate(cj) if "ws_cum[-1]" in norm(c)]
            ok = bool(pos_size) and min(pos_size) < min(pos_last) and isinstance(gi[0].test, ast.BoolOp) and isinstance(gi[0].test.op, ast.And)
            # NaN in the else branch
            nanv = [norm(s.value) for s in gi[0].orelse if isinstance(s, ast.Assign)]
            ok = ok and bool(nanv) and all(_is_nan(v) for v in nanv)
        else:
            # alternative: test on the sum of weights (total on empty arrays)
            gi2 = [st for st in walk_no_nested(f.node) if isinstance(st, ast.If) and ("ws.sum()" in norm(st.test) or "np.sum(ws)" in norm(st.test))]
            if gi2:
                fact = norm(gi2[0].test)
                nanv = [norm(s.value) for s in gi2[0].orelse if isinstance(s, ast.Assign)]
                ok = bool(nanv) and all(_is_nan(v) for v in nanv)
        ctx.ob("BMCI.%s.fallback" % fname, ok, "selecting test: %s" % fact,
               "no last-element subscript of the (possibly empty) window is evaluated before a size test; the other branch yields NaN",
               node=gi[0] if gi else f.node, func=f)


def _is_nan(v):
    return v.replace('"', "'") in ("float('nan')", "np.nan", "numpy.nan", "math.nan", "np.float('nan')", "np.float64('nan')")


def rule_cdf(ctx):
    ctx.rule("C18.cdf", "T6", "cdf = cumulative weights in x order / last element; quantiles = interp(taus, cdf, xs)")
    for fname in ("cdf", "predict_quantiles"):
        f = ctx.func(BM, "BMCI." + fname)
        cum = [st for st in walk_no_nested(f.node) if isinstance(st, ast.Assign) and norm(st.targets[0]) == "ws_cum"
               and norm(st.value) in ("ws.cumsum()", "np.cumsum(ws)")]
        nrm = [st for st in walk_no_nested(f.node) if isinstance(st, ast.AugAssign) and norm(st.target) == "ws_cum" and isinstance(st.op, ast.Div)
               and norm(st.value) == "ws_cum[-1]"]
        ctx.ob("BMCI.%s.cumulative" % fname, bool(cum) and bool(nrm), "ws_cum: %s ; %s" % ([norm(s) for s in cum], [norm(s) for s in nrm]),
               "ws_cum = ws.cumsum(); ws_cum /= ws_cum[-1] (non-decreasing, ends at 1)", node=cum[0] if cum else f.node, func=f)
    f = ctx.func(BM, "BMCI.predict_quantiles")
    ip = calls_in(f.node, "interp")
    ok = False
    if ip and len(ip[0].args) == 3:
        flow = Flow(f)
        first = flow.resolve(ip[0].args[0], at=ip[0])
        ok = any(isinstance(n, ast.Name) and n.id == f.params[2] for n in ast.walk(first)) \
            and [norm(a) for a in ip[0].args[1:]] == ["ws_cum", "xs"]
    ctx.ob("BMCI.predict_quantiles.interp", ok, "%s" % (norm(ip[0]) if ip else None), "np.interp(taus, cdf, xs): quantile = x at which the cdf reaches tau",
           node=ip[0] if ip else f.node, func=f)


def run(ctx):
    for r in (rule_perm, rule_window, rule_weights, rule_moments, rule_slice, rule_nan, rule_cdf):
        ctx.attempt(r, ctx)
