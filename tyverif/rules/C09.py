"""C09 - humidity measures and saturation pressures are mutually consistent.

Formula algebra (exact in Q(x, M_w, M_d)) on the six converters, the RH pair with an opaque
saturation function, the mixed-phase blend at its two branch points; order models for the
temperature guards and masks.  Numerical facts about the Murphy-Koop fits are not decided.
"""
import ast
import sympy as sp
from ..core import AnalysisError, norm, dotted, calls_in, walk_no_nested, const_value
from ..alg import Sym, is_zero, Unsupported, PathRaised
from ..order import Interp

ATM = "typhon/physics/atmosphere.py"
EXPECT = {"C09.monotone": 5, "C09.args": 10, "C09.moebius": 24, "C09.rh": 3, "C09.guard": 4, "C09.mixed": 6, "C09.lapse": 2, "C09.consts": 4, "C09.pure": 12, "C09.zerodim": 1}

PAIRS = [("vmr2mixing_ratio", "mixing_ratio2vmr"), ("vmr2specific_humidity", "specific_humidity2vmr"),
         ("mixing_ratio2specific_humidity", "specific_humidity2mixing_ratio")]
# two-step routes: (first, second, direct)
ROUTES = [("vmr2mixing_ratio", "mixing_ratio2specific_humidity", "vmr2specific_humidity"),
          ("vmr2specific_humidity", "specific_humidity2mixing_ratio", "vmr2mixing_ratio"),
          ("mixing_ratio2vmr", "vmr2specific_humidity", "mixing_ratio2specific_humidity"),
          ("mixing_ratio2specific_humidity", "specific_humidity2vmr", "mixing_ratio2vmr"),
          ("specific_humidity2vmr", "vmr2mixing_ratio", "specific_humidity2mixing_ratio"),
          ("specific_humidity2mixing_ratio", "mixing_ratio2vmr", "specific_humidity2vmr")]


def undefined_at(expr, x, x0):
    """Sub-terms of the (unsimplified) term that divide by something vanishing at x = x0."""
    bad = []
    for sub in sp.preorder_traversal(expr):
        if isinstance(sub, sp.Pow) and sub.exp.is_negative:
            try:
                b = sub.base.subs(x, x0)
            except Exception:
                continue
            if b == 0 or b is sp.zoo or b.has(sp.zoo) or b.has(sp.nan):
                bad.append(str(sub))
    return bad


def decide(ctx, construct, expr, fact, oracle, node, func):
    v, info = is_zero(expr)
    if v is None:
        raise AnalysisError("%s: identity undecided: %s" % (construct, info))
    ctx.models.append({"rule": ctx._rule, "identity": construct, "verdict": bool(v), "cases": 1})
    return ctx.ob(construct, v, fact, oracle, node=node, func=func, witness=None if v else info)


def rule_moebius(ctx):
    ctx.rule("C09.moebius", "T5", "the six converters: inverse pairs, two-step routes equal the direct converter, "
             "0 -> 0 (defined there), increasing on [0, 1)")
    ev = Sym(ctx.repo)
    x = sp.Symbol("x", positive=True)
    fn = {}
    for name in sorted(set(a for p in PAIRS for a in p)):
        f = ctx.func(ATM, name)
        fn[name] = (f, ev.call(ATM, name, x))
    for a, b in PAIRS:
        for u, v in ((a, b), (b, a)):
            comp = fn[v][1].subs(x, fn[u][1])
            decide(ctx, "%s(%s(x))" % (v, u), comp - x, "%s o %s = %s" % (v, u, sp.cancel(sp.together(comp))), "x (exact inverse)",
                   fn[v][0].node, fn[v][0])
    for first, second, direct in ROUTES:
        comp = fn[second][1].subs(x, fn[first][1])
        decide(ctx, "%s(%s(x)) == %s(x)" % (second, first, direct), comp - fn[direct][1],
               "route - direct = %s" % sp.cancel(sp.together(comp - fn[direct][1])), "0 (every two-step route equals the direct converter)",
               fn[direct][0].node, fn[direct][0])
    for name, (f, term) in fn.items():
        at0 = term.subs(x, 0)
        bad = undefined_at(term, x, 0)
        ctx.ob("%s(0)" % name, at0 == 0 and not bad, "value at 0: %s; sub-terms undefined at 0: %s" % (at0, bad or "none"),
               "0, computed without dividing by the argument (0 is in the domain)", node=f.node, func=f)
        d = sp.factor(sp.cancel(sp.together(sp.diff(term, x))))
        num, den = sp.fraction(d)
        y = sp.Symbol("y", positive=True)       # x = y/(1+y) sweeps (0, 1)
        npos = sp.cancel(sp.together(num.subs(x, y / (1 + y))))
        nn, nd = sp.fraction(sp.together(npos))
        pos = _all_positive_coeffs(sp.expand(nn), y) and _all_positive_coeffs(sp.expand(nd), y) and _is_square_or_pos(den, x, y)
        ctx.ob("d/dx %s" % name, pos, "derivative = %s" % d, "positive on 0 <= x < 1 (increasing)", node=f.node, func=f)


def _all_positive_coeffs(e, y):
    p = sp.Poly(e, y)
    return all(c.is_positive for c in p.coeffs())


def _is_square_or_pos(den, x, y):
    d = sp.factor(den)
    # a product of even powers and positive constants is positive
    for fac, ex in sp.factor_list(d)[1]:
        if ex % 2 == 0:
            continue
        sub = sp.cancel(sp.together(fac.subs(x, y / (1 + y))))
        n, dd = sp.fraction(sp.together(sub))
        if not (_all_positive_coeffs(sp.expand(n), y) and _all_positive_coeffs(sp.expand(dd), y)):
            return False
    c = sp.factor_list(d)[0]
    return bool(c.is_positive)


def rule_rh(ctx):
    ctx.rule("C09.rh", "T5+T6", "relative_humidity2vmr and vmr2relative_humidity are inverse for any saturation function")
    ev = Sym(ctx.repo, opaque={"e_eq_water_mk", "e_eq_ice_mk", "e_eq_mixed_mk"})
    RH, p, T = sp.symbols("RH p T", positive=True)
    E = sp.Function("E", positive=True)
    f1 = ctx.func(ATM, "relative_humidity2vmr")
    f2 = ctx.func(ATM, "vmr2relative_humidity")
    user = lambda t: E(t)
    a = ev.call(ATM, "vmr2relative_humidity", ev.call(ATM, "relative_humidity2vmr", RH, p, T, e_eq=user), p, T, e_eq=user)
    decide(ctx, "vmr2relative_humidity(relative_humidity2vmr(RH), e_eq=E)", a - RH, "composition = %s" % sp.simplify(a),
           "RH for an arbitrary (opaque, positive) saturation function E", f2.node, f2)
    b = ev.call(ATM, "relative_humidity2vmr", ev.call(ATM, "vmr2relative_humidity", RH, p, T, e_eq=user), p, T, e_eq=user)
    decide(ctx, "relative_humidity2vmr(vmr2relative_humidity(x), e_eq=E)", b - RH, "composition = %s" % sp.simplify(b),
           "x for an arbitrary saturation function E", f1.node, f1)
    c = ev.call(ATM, "vmr2relative_humidity", ev.call(ATM, "relative_humidity2vmr", RH, p, T), p, T)
    decide(ctx, "defaults", c - RH, "composition with default saturation functions = %s" % sp.simplify(c),
           "RH (both default to the same saturation function)", f2.node, f2)


def rule_guard(ctx):
    ctx.rule("C09.guard", "T1+T4", "non-positive temperatures are rejected before the computation; the result is exp(...)")
    for name in ("e_eq_ice_mk", "e_eq_water_mk"):
        f = ctx.func(ATM, name)
        T = f.params[0]
        # the first raise in front of the computation, under whatever spelling of its condition (if c: raise / if not c: pass else: raise / guard helper)
        from ..flow import guard_chain
        guard = None
        first_ret = next((s_ for s_ in walk_no_nested(f.node) if isinstance(s_, ast.Return)), None)
        raises = [s_ for s_ in walk_no_nested(f.node) if isinstance(s_, ast.Raise) and (first_ret is None or s_.lineno <= first_ret.lineno or True)]
        from ..cfg import stmt_before
        raises = [r_ for r_ in raises if first_ret is None or stmt_before(f.node, r_, first_ret)]
        ok = False
        fact = "no raising guard before the computation"
        if raises:
            rs = raises[0]
            guard = rs
            chain = guard_chain(rs, implicit=True)
            if not chain:
                raise AnalysisError("%s: unconditional raise" % name)
            is_value = rs.exc is not None and "ValueError" in norm(rs.exc)
            vals = {}
            try:
                for tv in (-1, 0, 1):
                    vals[tv] = all(bool(Interp({T: tv}).ev(t_)) == pol_ for t_, pol_ in chain)
            except AnalysisError as e_:
                raise AnalysisError("%s: guard outside the model: %s" % (name, e_))
            reds = {(dotted(c_.func) or "").split(".")[-1] for t_, _ in chain for c_ in ast.walk(t_) if isinstance(c_, ast.Call)}
            array_ok = reds <= {"any", "min", "amin", "nanmin"}
            ok = is_value and vals == {-1: True, 0: True, 1: False} and array_ok
            why_all = " [np.all: an array is only rejected when EVERY element is non-positive]" if "all" in reds else ""
            fact = "raise %s under %s  -> truth for T=-1,0,1: %s%s" % (norm(rs.exc) if rs.exc else None, [("%s" if pol_ else "not (%s)") % norm(t_) for t_, pol_ in chain], vals, why_all)
        ctx.ob("%s.guard" % name, ok, fact, "raises ValueError exactly when some T <= 0 (0 K included)", node=guard or f.node, func=f)
        rets = [s for s in f.body if isinstance(s, ast.Return)]
        okr = len(rets) == 1 and isinstance(rets[0].value, ast.Call) and dotted(rets[0].value.func) in ("np.exp", "numpy.exp")
        ctx.ob("%s.positive" % name, okr, "return %s" % (norm(rets[0].value)[:40] if rets else None), "np.exp(...) - positive for every T",
               node=rets[0] if rets else f.node, func=f)


def rule_monotone(ctx):
    """e_eq_water_mk / e_eq_ice_mk are strictly increasing in T: the formula, evaluated symbolically, is exp(g(T)) with a smooth g (no
    clamp of the argument or of the result - np.clip / minimum / maximum make it flat outside a range) whose derivative is positive on a
    grid over the atmospheric range; ice <= liquid below the triple point on the same grid."""
    ctx.rule("C09.monotone", "T5", "e_eq_water_mk, e_eq_ice_mk: smooth exp(g(T)) with g' > 0 on 100..400 K; ice <= liquid below the triple point")
    T = sp.Symbol("T", positive=True)
    forms = {}
    for name in ("e_eq_ice_mk", "e_eq_water_mk"):
        f = ctx.func(ATM, name)

        def positive_T(text):
            """the guards in front of the formula look at the sign of the temperature only: decided for a positive one"""
            try:
                tree_ = ast.parse(text, mode="eval").body
                env_ = {n_.id: 1 for n_ in ast.walk(tree_) if isinstance(n_, ast.Name) and n_.id not in ("np", "numpy")}
                return bool(Interp(env_).ev(tree_))
            except (AnalysisError, SyntaxError):
                return None
        ev = Sym(ctx.repo, decide=positive_T)
        try:
            e = ev.call(ATM, name, T)
        except Unsupported as ex:
            raise AnalysisError("%s: the formula could not be evaluated symbolically (%s)" % (name, ex))
        forms[name] = e
        clamped = e.has(sp.Max) or e.has(sp.Min) or e.has(sp.Piecewise) or e.has(sp.floor) or e.has(sp.ceiling) or e.has(sp.Abs)
        ctx.ob("%s.smooth" % name, not clamped, "e(T) = %s" % str(e)[:110],
               "one smooth expression of T: a clamped argument (np.clip(T, lo, hi)) or result makes the curve flat outside the range - not strictly increasing",
               node=f.node, func=f)
        if clamped:
            continue
        d = sp.diff(sp.log(e), T)
        bad = None
        for t in range(100, 401, 10):
            v = float(d.subs(T, t))
            if not v > 0:
                bad = {"T": t, "d ln e / dT": v}
                break
        ctx.models.append({"rule": "C09.monotone", "cases": 31, "domain": "T = 100, 110, ..., 400 K", "exhaustive": False})
        ctx.ob("%s.increasing" % name, bad is None, "d ln e / dT at 100..400 K: %s" % ("positive at all 31 points" if bad is None else bad),
               "positive (the saturation pressure increases with temperature)", node=f.node, func=f, witness=bad)
    if len(forms) == 2 and not any(x.has(sp.Max) or x.has(sp.Min) for x in forms.values()):
        Tt = Sym(ctx.repo).const.get("triple_point_water")
        bad = None
        try:
            Tt = float(Tt) if Tt is not None else None
        except TypeError:
            Tt = 273.16
        if Tt is not None:
            for t in list(range(100, int(Tt), 10)):
                ice, liq = float(forms["e_eq_ice_mk"].subs(T, t)), float(forms["e_eq_water_mk"].subs(T, t))
                if not ice <= liq * (1 + 1e-6):
                    bad = {"T": t, "ice": ice, "liquid": liq}
                    break
            f = ctx.func(ATM, "e_eq_ice_mk")
            ctx.ob("e_eq.ice_below_liquid", bad is None, "ice <= liquid at 100, 110, ... K below the triple point: %s" % (bad is None), "ice <= liquid below T_t",
                   node=f.node, func=f, witness=bad)


def rule_mixed(ctx):
    ctx.rule("C09.mixed", "T5+T4", "mixed phase: blend = ice + (liquid - ice) * w^2, w = 0 at the ice threshold, w = 1 at the "
             "liquid threshold; each mask is paired with its own phase")
    f = ctx.func(ATM, "e_eq_mixed_mk")
    Tn = f.params[0]
    ev = Sym(ctx.repo, opaque={"e_eq_water_mk", "e_eq_ice_mk"})
    T = sp.Symbol("T", positive=True)
    env = {Tn: T}
    masks = {}      # name -> (op, threshold term)
    phase = {}      # array name -> 'ice' | 'water'
    blend = None
    stores = []
    for st in f.body:
        if isinstance(st, ast.Assign) and isinstance(st.targets[0], ast.Name):
            name = st.targets[0].id
            v = st.value
            if isinstance(v, ast.Compare) and len(v.ops) == 1 and str(norm(v.left)) == Tn:
                masks[name] = (type(v.ops[0]).__name__, ev.expr(v.comparators[0], env, f, 0), st)
                continue
            if isinstance(v, ast.Compare) and len(v.ops) == 1 and str(norm(v.comparators[0])) == Tn:
                # mirrored spelling: X > T  is  T < X
                mirror = {"Lt": "Gt", "LtE": "GtE", "Gt": "Lt", "GtE": "LtE"}.get(type(v.ops[0]).__name__)
                if mirror is None:
                    raise AnalysisError("e_eq_mixed_mk: mask %s is not an ordering comparison" % norm(v))
                masks[name] = (mirror, ev.expr(v.left, env, f, 0), st)
                continue
            if isinstance(v, ast.Call) and dotted(v.func) in ("e_eq_water_mk", "e_eq_ice_mk"):
                phase[name] = "water" if "water" in dotted(v.func) else "ice"
                env[name] = sp.Function("W" if phase[name] == "water" else "I", positive=True)(T)
                continue
            if name in (Tn,) or isinstance(v, ast.Call) and dotted(v.func) == "isinstance":
                continue
            try:
                env[name] = ev.expr(v, env, f, 0)
                blend = (name, env[name], st)
            except Unsupported:
                continue
        elif isinstance(st, ast.Assign) and isinstance(st.targets[0], ast.Subscript):
            stores.append(st)
    # result assembled in a fresh constant buffer (np.zeros / np.empty / np.full ...) by masked stores only: every temperature must be claimed
    # by one of the masks, the two branch temperatures included - otherwise the buffer's filler is the answer there
    fresh = [st for st in f.body if isinstance(st, ast.Assign) and isinstance(st.targets[0], ast.Name) and isinstance(st.value, ast.Call)
             and (dotted(st.value.func) or "").split(".")[-1] in ("zeros", "empty", "full", "zeros_like", "empty_like", "full_like", "ones", "ones_like")]
    if fresh:
        buf = fresh[0].targets[0].id
        mstores = [st for st in stores if isinstance(st.targets[0].value, ast.Name) and st.targets[0].value.id == buf]
        if not mstores or len(mstores) != len(stores):
            raise AnalysisError("e_eq_mixed_mk: buffer form: stores %s are not all masked stores into %s" % ([norm(s_.targets[0]) for s_ in stores], buf))
        from ..flow import Flow as _Flow
        fl_ = _Flow(f)
        conds = [fl_.resolve(s_.targets[0].slice, at=s_, depth=3, stop=(Tn,)) for s_ in mstores]
        # exact: each mask becomes a set of real temperatures (sympy relational in T, thresholds as rationals); the union must be the whole line
        Tr = sp.Symbol("T", real=True)
        def _set(e_):
            if isinstance(e_, ast.BinOp) and isinstance(e_.op, (ast.BitAnd, ast.BitOr)):
                a_, b_ = _set(e_.left), _set(e_.right)
                return sp.Intersection(a_, b_) if isinstance(e_.op, ast.BitAnd) else sp.Union(a_, b_)
            if isinstance(e_, ast.UnaryOp) and isinstance(e_.op, ast.Invert):
                return sp.Complement(sp.S.Reals, _set(e_.operand))
            if isinstance(e_, ast.Call) and (dotted(e_.func) or "").split(".")[-1] in ("logical_and", "logical_or") and len(e_.args) == 2:
                a_, b_ = _set(e_.args[0]), _set(e_.args[1])
                return sp.Intersection(a_, b_) if dotted(e_.func).endswith("and") else sp.Union(a_, b_)
            if isinstance(e_, ast.Call) and (dotted(e_.func) or "").split(".")[-1] == "logical_not" and len(e_.args) == 1:
                return sp.Complement(sp.S.Reals, _set(e_.args[0]))
            if isinstance(e_, ast.Compare) and len(e_.ops) == 1 and isinstance(e_.ops[0], (ast.Lt, ast.LtE, ast.Gt, ast.GtE)):
                l_, r_ = _num(e_.left), _num(e_.comparators[0])
                rel = {ast.Lt: sp.Lt, ast.LtE: sp.Le, ast.Gt: sp.Gt, ast.GtE: sp.Ge}[type(e_.ops[0])](l_, r_)
                if rel in (sp.true, sp.false):
                    return sp.S.Reals if rel == sp.true else sp.S.EmptySet
                return rel.as_set()
            raise AnalysisError("mask %s is not a combination of ordering comparisons" % norm(e_))
        def _num(e_):
            if isinstance(e_, ast.Name) and e_.id == Tn:
                return Tr
            if isinstance(e_, ast.Constant) and isinstance(e_.value, (int, float)) and not isinstance(e_.value, bool):
                return sp.Rational(repr(e_.value)) if isinstance(e_.value, float) else sp.Integer(e_.value)
            if isinstance(e_, ast.Attribute) and norm(e_) == "constants.triple_point_water":
                return sp.Rational("273.16")
            if isinstance(e_, ast.BinOp) and isinstance(e_.op, (ast.Add, ast.Sub, ast.Mult, ast.Div)):
                a_, b_ = _num(e_.left), _num(e_.right)
                return {ast.Add: a_ + b_, ast.Sub: a_ - b_, ast.Mult: a_ * b_, ast.Div: a_ / b_}[type(e_.op)]
            if isinstance(e_, ast.UnaryOp) and isinstance(e_.op, ast.USub):
                return -_num(e_.operand)
            raise AnalysisError("term %s outside the affine class" % norm(e_))
        try:
            claimed = sp.Union(*[_set(c_) for c_ in conds])
            rest = sp.Complement(sp.S.Reals, claimed)
        except AnalysisError as e_:
            raise AnalysisError("e_eq_mixed_mk: buffer form: %s" % e_)
        except Exception as e_:
            raise AnalysisError("e_eq_mixed_mk: buffer form: masks not solved (%s: %s)" % (type(e_).__name__, e_))
        if rest != sp.S.EmptySet and not isinstance(rest, (sp.FiniteSet, sp.Interval, sp.Union)):
            raise AnalysisError("e_eq_mixed_mk: buffer form: uncovered set not decided: %s" % rest)
        uncovered = [] if rest == sp.S.EmptySet else [str(rest)]
        ctx.ob("e_eq_mixed_mk.blend", not uncovered, "%s = %s filled through masks %s; temperatures claimed by no mask: %s" % (
            buf, norm(fresh[0].value), [norm(c_)[:60] for c_ in conds], uncovered or "none"),
               "every temperature - the two branch temperatures included - is written by one of the masked stores (elsewhere the buffer's filler is returned)",
               node=fresh[0], func=f, witness=None if not uncovered else {"T": uncovered[0], "value": norm(fresh[0].value)})
        if uncovered:
            return
        raise AnalysisError("e_eq_mixed_mk: buffer form: branch values not modelled")
    sel = calls_in(f.node, "select")
    if sel and len(sel) == 1 and len(sel[0].args) >= 2 and isinstance(sel[0].args[0], (ast.List, ast.Tuple)):
        # np.select([conditions], [values][, default]): every temperature must be claimed by a condition (or a default given)
        from ..flow import Flow as _Flow
        fl_ = _Flow(f)
        conds = [fl_.resolve(c_, at=sel[0], depth=2, stop=(Tn,)) for c_ in sel[0].args[0].elts]
        has_default = len(sel[0].args) > 2 or any(k_.arg == "default" for k_ in sel[0].keywords)
        Tw_, Ti_ = 100, 77
        uncovered = []
        for label, tv in (("below the ice threshold", 50), ("AT the ice threshold", Ti_), ("between the thresholds", 90), ("AT the triple point", Tw_), ("above the triple point", 120)):
            try:
                hit = [bool(Interp({Tn: tv, "constants.triple_point_water": Tw_}).ev(c_)) for c_ in conds]
            except AnalysisError as e_:
                raise AnalysisError("e_eq_mixed_mk: np.select condition outside the order model: %s" % e_)
            if not any(hit):
                uncovered.append(label)
        ctx.ob("e_eq_mixed_mk.blend", not uncovered or has_default, "np.select over %s; temperatures claimed by no condition: %s" % ([norm(c_)[:50] for c_ in conds], uncovered or "none"),
               "every temperature - the two branch temperatures included - falls into one branch (np.select returns 0 where no condition holds)", node=sel[0], func=f)
        if uncovered and not has_default:
            return
        raise AnalysisError("e_eq_mixed_mk: np.select form: branch values not modelled")
    if blend is None or len(masks) != 2:
        raise AnalysisError("e_eq_mixed_mk: blend expression / two masks not found")
    W, I = sp.Function("W", positive=True)(T), sp.Function("I", positive=True)(T)
    g = sp.simplify((blend[1] - I) / (W - I))
    free_ok = not g.has(W) and not g.has(I)
    lo = [m for m in masks.values() if m[0] in ("Lt", "LtE")]
    hi = [m for m in masks.values() if m[0] in ("Gt", "GtE")]
    if len(lo) != 1 or len(hi) != 1:
        raise AnalysisError("e_eq_mixed_mk: expected one lower (ice) and one upper (liquid) mask")
    Ti, Tw = lo[0][1], hi[0][1]
    ctx.ob("e_eq_mixed_mk.blend", free_ok, "(blend - ice)/(liquid - ice) = %s" % g,
           "a weight depending on T only (blend = ice + (liquid - ice) * weight)", node=blend[2], func=f)
    if free_ok:
        g0 = sp.simplify(g.subs(T, Ti))
        g1 = sp.simplify(g.subs(T, Tw))
        ctx.ob("e_eq_mixed_mk.continuity[ice]", g0 == 0, "weight at the ice-mask threshold T = %s: %s" % (Ti, g0),
               "0 - the blend meets the pure ice branch exactly where the mask switches", node=lo[0][2], func=f)
        ctx.ob("e_eq_mixed_mk.continuity[liquid]", g1 == 1, "weight at the liquid-mask threshold T = %s: %s" % (Tw, g1),
               "1 - the blend meets the pure liquid branch exactly where the mask switches", node=hi[0][2], func=f)
        pol = sp.Poly(sp.expand(g), T)
        sq = pol.degree() == 2 and sp.simplify(sp.discriminant(pol)) == 0
        ctx.ob("e_eq_mixed_mk.weight_shape", sq, "weight polynomial degree %d, discriminant %s" % (pol.degree(), sp.simplify(sp.discriminant(pol)) if pol.degree() == 2 else "-"),
               "a perfect square of an affine function (stays within [0, 1] between the thresholds)", node=blend[2], func=f)
    # pairing of masks and phases
    for st in stores:
        tgt = st.targets[0]
        m = norm(tgt.slice)
        src = st.value
        ok = False
        fact = norm(st)
        if m in masks and isinstance(src, ast.Subscript) and norm(src.slice) == m and norm(src.value) in phase \
                and norm(tgt.value) == blend[0]:
            want = "ice" if masks[m][0] in ("Lt", "LtE") else "water"
            ok = phase[norm(src.value)] == want
        ctx.ob("e_eq_mixed_mk.mask[%s]" % m, ok, fact, "below the ice threshold the ice array, above the liquid threshold the liquid "
               "array, same mask on both sides", node=st, func=f)
    # the masks are applied after the blend is computed and the blended array is what is returned
    rets = [s for s in f.body if isinstance(s, ast.Return)]
    okr = bool(rets) and blend[0] in norm(rets[-1].value)
    ctx.ob("e_eq_mixed_mk.return", okr and len(stores) == 2, "return %s; masked stores: %d" % (norm(rets[-1].value) if rets else None, len(stores)),
           "the blended array with both pure branches written into it", node=rets[-1] if rets else f.node, func=f)


def rule_lapse(ctx):
    ctx.rule("C09.lapse", "T5", "moist lapse rate -> g/c_p as the saturation mixing ratio vanishes; factor (1+a)/(1+b), a, b >= 0")
    ws = sp.Symbol("w_s", positive=True)
    ev = Sym(ctx.repo, hooks={"vmr2mixing_ratio": lambda *_a, **_k: ws}, opaque={"e_eq_water_mk"})
    p, T = sp.symbols("p T", positive=True)
    f = ctx.func(ATM, "moist_lapse_rate")
    term = ev.call(ATM, "moist_lapse_rate", p, T)
    dry = ev.const.get("earth_standard_gravity") / ev.const.get("isobaric_mass_heat_capacity")
    lim = sp.simplify(term.subs(ws, 0))
    decide(ctx, "moist_lapse_rate[w_s -> 0]", lim - dry, "value at zero saturation mixing ratio: %s" % lim, "g / c_p (dry adiabatic)", f.node, f)
    ratio = sp.together(term / dry)
    num, den = sp.fraction(ratio)
    ok = _all_positive_coeffs(sp.expand(num), ws) and _all_positive_coeffs(sp.expand(den), ws)
    ctx.ob("moist_lapse_rate.shape", ok, "lapse / (g/c_p) = (%s) / (%s)" % (sp.expand(num), sp.expand(den)),
           "numerator and denominator are polynomials in w_s with positive coefficients (positive lapse rate)", node=f.node, func=f)


REF = {"triple_point_water": 273.16, "zero_celsius": 273.15, "molar_mass_dry_air": 28.9645e-3, "molar_mass_water": 18.01528e-3}


def rule_consts(ctx):
    ctx.rule("C09.consts", "T3", "constants used by the humidity functions against reference values")
    from ..alg import Const
    c = Const(ctx.repo)
    mod = ctx.mod("typhon/constants.py")
    for name, ref in REF.items():
        # value under the canonical alias
        val = None
        for k, v in c.value.items():
            if c.sym.get(k) is c.sym.get(name):
                val = v
        ok = val is not None and abs(val - ref) <= 1e-4 * abs(ref)
        ctx.ob("constants.%s" % name, ok, "%s = %r" % (name, val), "%r (rel. 1e-4)" % ref, node=mod.tree, func=None)


def rule_zero_dim(ctx):
    """The masked stores of e_eq_mixed_mk need an array of at least one dimension: arithmetic on a 0-d array yields an (immutable)
    numpy scalar.  The promotion of the argument therefore has to cover EVERY input of dimension zero - python numbers, numpy
    scalars and 0-d arrays alike."""
    ctx.rule("C09.zerodim", "T1 typestate", "e_eq_mixed_mk: every 0-dimensional input (number, numpy scalar, 0-d array) is promoted before the masked stores")
    from ..flow import Flow, guard_chain
    f = ctx.func(ATM, "e_eq_mixed_mk")
    Tn = f.params[0]
    flow = Flow(f)
    stores = [st for st in flow.stmts if isinstance(st, ast.Assign) and isinstance(st.targets[0], ast.Subscript) and isinstance(st.targets[0].value, ast.Name)]
    if not stores:
        ctx.ob("e_eq_mixed_mk.zero_dim", True, "no masked store (np.select / np.where formulation)", "nothing to promote", node=f.node, func=f)
        return
    promos = []
    for st in flow.stmts:
        if isinstance(st, ast.Assign) and len(st.targets) == 1 and norm(st.targets[0]) == Tn and isinstance(st.value, ast.Call):
            d = (dotted(st.value.func) or "").split(".")[-1]
            a0 = st.value.args[0] if st.value.args else None
            if d == "atleast_1d" and a0 is not None and norm(a0) == Tn:
                promos.append((st, "always"))
            elif d in ("asarray", "array") and isinstance(a0, (ast.List, ast.Tuple)) and len(a0.elts) == 1 and norm(a0.elts[0]) == Tn:
                promos.append((st, "wrap"))
    if not promos:
        raise AnalysisError("e_eq_mixed_mk: masked stores but no promotion of `%s` to one dimension found" % Tn)
    ZERO_DIM = ("np.ndim(%s) == 0", "np.ndim(%s) < 1", "not np.ndim(%s)", "np.shape(%s) == ()", "not np.shape(%s)", "np.asarray(%s).ndim == 0",
                "np.asarray(%s).shape == ()", "np.isscalar(%s) or np.ndim(%s) == 0")
    PARTIAL = ("isinstance(%s, Number)", "np.isscalar(%s)", "isinstance(%s, (int, float))", "isinstance(%s, float)", "isinstance(%s, numbers.Number)",
               "isinstance(%s, (float, int))")

    def fills(pats):
        return [p_ % ((Tn,) * p_.count("%s")) for p_ in pats]
    verdict = None
    fact = None
    for st, kind in promos:
        if kind == "always" and not guard_chain(st):
            verdict, fact = True, norm(st)
            break
        gc = guard_chain(st)
        if len(gc) != 1 or not gc[0][1]:
            raise AnalysisError("e_eq_mixed_mk: promotion %s under a guard that is not understood" % norm(st))
        g = flow.resolve(gc[0][0], at=gc[0][0], depth=2, stop=(Tn,))
        alts = g.values if isinstance(g, ast.BoolOp) and isinstance(g.op, ast.Or) else [g]
        fact = "if %s: %s" % (norm(g), norm(st))
        if any(any(norm(a_) == z_ for z_ in fills(ZERO_DIM)) for a_ in alts):
            verdict = True
        elif all(any(norm(a_) == z_ for z_ in fills(PARTIAL)) for a_ in alts):
            verdict = False
        else:
            raise AnalysisError("e_eq_mixed_mk: promotion guard %s is not understood" % norm(g)[:80])
    ctx.ob("e_eq_mixed_mk.zero_dim", bool(verdict), fact, "the promotion to one dimension happens for every input with np.ndim(T) == 0 "
           "(`isinstance(T, Number)` misses 0-d arrays: the result of the arithmetic is then a numpy scalar and the masked store raises TypeError)",
           node=promos[0][0], func=f, witness=None if verdict else {"T": "np.array(250.0)", "raises": "TypeError: 'numpy.float64' object does not support item assignment"})


def run(ctx):
    for r in (rule_moebius, rule_rh, rule_guard, rule_monotone, rule_mixed, rule_lapse, rule_consts, rule_zero_dim):
        ctx.attempt(r, ctx)
    from ..purity import rule_pure
    names = sorted(set(a for p in PAIRS for a in p)) + ["relative_humidity2vmr", "vmr2relative_humidity", "e_eq_ice_mk", "e_eq_water_mk", "e_eq_mixed_mk", "moist_lapse_rate"]
    ctx.attempt(rule_pure, ctx, "C09.pure", [(ATM, n) for n in names])
    # the caller's arguments (arrays, filter / fill dictionaries) are not modified: an in-place update makes the next call on the same objects wrong
    from ..purity import rule_pure as _rule_args
    ctx.attempt(_rule_args, ctx, "C09.args", [('typhon/physics/atmosphere.py', 'vmr2mixing_ratio'), ('typhon/physics/atmosphere.py', 'mixing_ratio2vmr'), ('typhon/physics/atmosphere.py', 'vmr2specific_humidity'), ('typhon/physics/atmosphere.py', 'specific_humidity2vmr'), ('typhon/physics/atmosphere.py', 'e_eq_mixed_mk'), ('typhon/physics/atmosphere.py', 'e_eq_ice_mk'), ('typhon/physics/atmosphere.py', 'e_eq_water_mk'), ('typhon/physics/atmosphere.py', 'relative_humidity2vmr'), ('typhon/physics/atmosphere.py', 'vmr2relative_humidity'), ('typhon/physics/atmosphere.py', 'moist_lapse_rate')], "the caller's arguments are not modified in place")
