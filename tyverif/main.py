"""Driver:  ./check <ID> [--tier quick|thorough] [--root DIR] [--replay FILE] [--selftest]

exit 0: every decided clause holds (known findings are printed as KNOWN-FINDING lines)
exit 1: at least one obligation refuted that known_findings.json does not list
exit 2: ANALYSIS-ERROR - anchor vanished / construct outside the analysable class / bug
"""
import argparse
import importlib
import json
import os
import sys
import time
import traceback

from . import core
from . import novelty
from .core import AnalysisError, Ctx, VERIF

EXPLANATION = (
    "Static analysis of /repo's current source (ast, statement CFG, reaching definitions, "
    "order-type models of extracted comparison predicates, canonical-form algebra of extracted "
    "formulas, literal tables). No typhon code is imported or executed. Each obligation is a "
    "necessary structural condition of the property, attached to a named construct; the "
    "behavioural clauses that are NOT decided are listed in MANIFEST level_note / DESIGN.md.")


def run_property(prop, tier="quick", root=None, overlay=None, seed=0):
    """Run all rules of a property; returns the Ctx. Raises AnalysisError."""
    mod = importlib.import_module("tyverif.rules." + prop)
    ctx = Ctx(prop, tier=tier, root=root, overlay=overlay, seed=seed)
    mod.run(ctx)
    if not os.environ.get("TYVERIF_NO_STATE"):
        from .state import rule_state
        ctx.attempt(rule_state, ctx, prop + ".state")
    if not os.environ.get("TYVERIF_NOEXPECT") and not ctx.errors:
        for rid, n in getattr(mod, "EXPECT", {}).items():
            if rid in getattr(ctx, "expect_waived", ()):
                continue
            try:
                ctx.expect_instances(rid, n)
            except AnalysisError as e:
                ctx.errors.append(str(e))
    return ctx


def evidence(ctx, wall, violations, known_hits, error=None):
    obs = ctx.obligations
    discharged = sum(1 for o in obs if o.ok)
    constructs = sorted(set((o.rule, o.construct) for o in obs))
    seed = ctx.seed
    # samples: obligations written out; rotate by seed so different runs show different ones
    sample_src = [o.as_dict() for o in obs]
    if sample_src:
        start = seed % len(sample_src)
        samples = (sample_src[start:] + sample_src[:start])[:12]
    else:
        samples = []
    refuted = [o.as_dict() for o in obs if not o.ok]
    cov = {
        "explanation": EXPLANATION + (" ANALYSIS-ERROR: " + error if error else ""),
        "obligations": len(obs),
        "discharged": discharged,
        "evaluations": len(obs) + sum(m.get("cases", 0) for m in ctx.models),
        "distinct_nontrivial": len(constructs),
        "rule": "one obligation per rule instance (rule id + qualified construct); distinct = distinct "
                "(rule, construct) pairs that matched a construct in the current source; model cases are "
                "order types / box points / algebraic identities enumerated by the run",
        "samples": samples,
        "refuted": refuted,
        "exhaustive": all(m.get("exhaustive", True) for m in ctx.models),
        "checker_cmd": "./check %s --tier %s" % (ctx.prop, ctx.tier),
        "trusted_base": ["CPython ast", "tyverif engine (cfg, order, algebra)", "sympy canonical forms",
                         "reference tables embedded in the rules"],
        "functions_analysed": ctx.functions,
        "files": ctx.repo.consulted(),
        "rules": list(ctx.rules.values()),
        "models": ctx.models,
        "counters": ctx.counters,
        "known_findings_reported": known_hits,
    }
    cov.update(ctx.extra)
    return {
        "property_id": ctx.prop,
        "tier": ctx.tier,
        "seed": seed,
        "level": "other",
        "coverage": cov,
        "assumptions": ctx.assumptions,
        "wall_s": round(wall, 3),
        "violations": violations,
    }


def unconfirmed(ctx, o):
    """(function, changed statements) when the construct of an unmet obligation lies in a function that differs from the snapshot in
    more statements than the limit (tyverif/novelty.py); None otherwise"""
    lim = novelty.limit()
    if lim <= 0 or ":" not in (o.where or "") or getattr(o, "complete", False):
        return None
    rel, _, line = o.where.rpartition(":")
    try:
        line = int(line)
        mod = ctx.repo.mod(rel)
    except Exception:
        return None
    qual = novelty.enclosing(mod.tree, line)
    n = novelty.novelty(mod.tree, rel, qual)
    if n is None or n <= lim:
        return None
    return "%s::%s" % (rel, qual), n


def main(argv=None):
    ap = argparse.ArgumentParser()
    ap.add_argument("prop")
    ap.add_argument("--tier", default=os.environ.get("VERIF_TIER", "quick"), choices=["quick", "thorough"])
    ap.add_argument("--root", default=None)
    ap.add_argument("--replay", default=None)
    ap.add_argument("--no-evidence", action="store_true")
    ap.add_argument("-v", "--verbose", action="store_true")
    args = ap.parse_args(argv)
    prop = args.prop
    seed = int(os.environ.get("VERIF_SEED", "0") or 0)
    t0 = time.time()
    evdir = os.path.join(VERIF, "evidence")
    os.makedirs(os.path.join(evdir, "replay"), exist_ok=True)
    evfile = os.path.join(evdir, prop + ".json")
    replay_keys = None
    if args.replay:
        with open(args.replay) as fh:
            rp = json.load(fh)
        replay_keys = [rp["key"]]
        print("replaying %s: rule %s construct %s" % (args.replay, rp["key"]["rule"], rp["key"]["construct"]))
    try:
        ctx = run_property(prop, tier=args.tier, root=args.root, seed=seed)
        if args.tier == "thorough":
            try:
                st = importlib.import_module("tyverif.selftest")
            except ImportError:
                st = None
            if st is not None:
                st.run(ctx, prop, root=args.root, seed=seed)
    except AnalysisError as e:
        print("ANALYSIS-ERROR property=%s %s" % (prop, e))
        if not args.no_evidence:
            c = Ctx(prop, tier=args.tier, seed=seed)
            ev = evidence(c, time.time() - t0, 0, [], error=str(e))
            ev["coverage"]["evaluations"] = 1
            ev["coverage"]["distinct_nontrivial"] = 0
            with open(evfile, "w") as fh:
                json.dump(ev, fh, indent=1, default=str)
        return 2
    except Exception:
        print("ANALYSIS-ERROR property=%s internal error" % prop)
        traceback.print_exc()
        return 2

    known = core.load_known()
    unconfirmed_list = []
    ctx.extra["unconfirmed"] = unconfirmed_list
    violations = 0
    known_hits = []
    nrep = 0
    for o in ctx.obligations:
        if o.ok:
            if args.verbose:
                print("  ok   %-16s %-50s %s" % (o.rule, o.construct, o.fact))
            continue
        if replay_keys is not None and o.key() not in replay_keys:
            continue
        k = core.match_known(o, prop, known)
        if k is not None:
            print("KNOWN-FINDING: property=%s rule=%s %s %s: %s" % (prop, o.rule, o.where, o.construct, k.get("what", o.fact)))
            known_hits.append(o.key())
            continue
        nv = unconfirmed(ctx, o)
        sup = [by for pre, by in getattr(ctx, "superseded", {}).items()
               if o.construct == pre or (pre.endswith((".", "[")) and o.construct.startswith(pre))] if nv is not None else []
        if sup:
            # the structural reading is unconfirmed on this restructured function, and a complete evaluation of the same function gave its verdict
            ctx.extra.setdefault("superseded", []).append({"rule": o.rule, "construct": o.construct, "where": o.where, "decided_by": sup[0], "changed_statements": nv[1]})
            continue
        if nv is not None:
            # the function has been restructured beyond what the rule was confirmed on: the unmet obligation is no verdict, not an alarm
            msg = "%s: obligation %s not met (%s), but %s differs from the tree the rules were confirmed on in %d statements (limit %d): " \
                  "the rule's reading of this structure is unconfirmed - no verdict" % (o.rule, o.construct, o.where, nv[0], nv[1], novelty.limit())
            ctx.errors.append(msg)
            unconfirmed_list.append({"rule": o.rule, "construct": o.construct, "where": o.where, "function": nv[0], "changed_statements": nv[1]})
            continue
        violations += 1
        nrep += 1
        rpath = os.path.join(evdir, "replay", "%s-%s-%d.json" % (prop, o.rule.replace(".", "_"), nrep))
        with open(rpath, "w") as fh:
            json.dump({"property": prop, "key": o.key(), "obligation": o.as_dict(),
                       "how": "./check %s --replay %s" % (prop, rpath)}, fh, indent=1, default=str)
        print("VIOLATION property=%s replay=%s" % (prop, rpath))
        print("  %s %s  rule %s" % (o.where, o.construct, o.rule))
        print("    extracted: %s" % o.fact)
        print("    required : %s" % o.oracle)
        if o.witness is not None:
            print("    witness  : %s" % json.dumps(o.witness, default=str))
    wall = time.time() - t0
    for e in ctx.errors:
        print("ANALYSIS-ERROR property=%s %s" % (prop, e))
    if not args.no_evidence and replay_keys is None:
        ev = evidence(ctx, wall, violations, known_hits, error="; ".join(ctx.errors) if ctx.errors else None)
        with open(evfile, "w") as fh:
            json.dump(ev, fh, indent=1, default=str)
    n = len(ctx.obligations)
    print("%s tier=%s: %d obligations over %d functions in %d files, %d refuted (%d known), %.2fs" % (
        prop, args.tier, n, len(ctx.functions), len(ctx.repo.consulted()),
        sum(1 for o in ctx.obligations if not o.ok), len(known_hits), wall))
    if replay_keys is not None and violations == 0:
        print("replay: the recorded violation is no longer present")
    if violations:
        return 1
    return 2 if ctx.errors else 0


if __name__ == "__main__":
    sys.exit(main())
