"""Core of the static checker: source model, obligations, reporting.

Nothing here imports or executes typhon.  All facts come from parsing the files
below ``root`` (default /repo) on every run.
"""
import ast
import hashlib
import json
import os
import re
import sys
import time

VERIF = os.path.dirname(os.path.dirname(os.path.abspath(__file__)))
DEFAULT_ROOT = os.environ.get("TYVERIF_ROOT", "/repo")


class AnalysisError(Exception):
    """The analysis cannot decide (construct outside the analysable class)."""


class AnchorMissing(AnalysisError):
    """A function / class / table the rules are anchored in has vanished."""


# ----------------------------------------------------------------------------
# source model
# ----------------------------------------------------------------------------
class Func:
    """One function definition with its context."""

    def __init__(self, module, node, cls=None):
        self.module = module
        self.node = node
        self.cls = cls
        self.name = node.name
        self.qualname = (cls.name + "." if cls is not None else "") + node.name

    @property
    def params(self):
        a = self.node.args
        return [x.arg for x in a.posonlyargs + a.args]

    @property
    def all_params(self):
        a = self.node.args
        out = [x.arg for x in a.posonlyargs + a.args + a.kwonlyargs]
        if a.vararg:
            out.append(a.vararg.arg)
        if a.kwarg:
            out.append(a.kwarg.arg)
        return out

    def defaults(self):
        """name -> default expression node."""
        a = self.node.args
        pos = a.posonlyargs + a.args
        out = {}
        for p, d in zip(pos[len(pos) - len(a.defaults):], a.defaults):
            out[p.arg] = d
        for p, d in zip(a.kwonlyargs, a.kw_defaults):
            if d is not None:
                out[p.arg] = d
        return out

    @property
    def decorators(self):
        out = []
        for d in self.node.decorator_list:
            f = d.func if isinstance(d, ast.Call) else d
            out.append(dotted(f) or ast.unparse(f))
        return out

    @property
    def is_static(self):
        return "staticmethod" in self.decorators

    @property
    def is_classmethod(self):
        return "classmethod" in self.decorators

    @property
    def body(self):
        """Body without the doc string."""
        b = self.node.body
        if b and isinstance(b[0], ast.Expr) and isinstance(b[0].value, ast.Constant) \
                and isinstance(b[0].value.value, str):
            return b[1:]
        return b

    def where(self, node=None):
        n = node if node is not None else self.node
        return "%s:%d" % (self.module.rel, getattr(n, "lineno", self.node.lineno))

    def __repr__(self):
        return "<Func %s::%s>" % (self.module.rel, self.qualname)


class Module:
    def __init__(self, repo, rel, text):
        self.repo = repo
        self.rel = rel
        self.text = text
        self.sha256 = hashlib.sha256(text.encode()).hexdigest()
        try:
            self.tree = ast.parse(text)
        except SyntaxError as e:  # pragma: no cover
            raise AnalysisError("cannot parse %s: %s" % (rel, e))
        for parent in ast.walk(self.tree):
            for child in ast.iter_child_nodes(parent):
                child._parent = parent
        self.tree._parent = None
        self.funcs = {}
        self.classes = {}
        self.imports = {}     # local name -> dotted origin
        self._index()

    def _index(self):
        for n in self.tree.body:
            if isinstance(n, (ast.FunctionDef, ast.AsyncFunctionDef)):
                self.funcs[n.name] = Func(self, n)
            elif isinstance(n, ast.ClassDef):
                self.classes[n.name] = n
                for m in n.body:
                    if isinstance(m, (ast.FunctionDef, ast.AsyncFunctionDef)):
                        # a property setter overrides the getter under the same name:
                        # keep both, getter as "name", setter as "name.setter"
                        f = Func(self, m, n)
                        key = f.qualname
                        if any(d.endswith(".setter") for d in f.decorators):
                            key += ".setter"
                        elif any(d.endswith(".deleter") for d in f.decorators):
                            key += ".deleter"
                        self.funcs[key] = f
        for n in ast.walk(self.tree):
            if isinstance(n, ast.Import):
                for a in n.names:
                    self.imports[a.asname or a.name.split(".")[0]] = a.name if a.asname else a.name.split(".")[0]
            elif isinstance(n, ast.ImportFrom):
                base = ("." * n.level) + (n.module or "")
                for a in n.names:
                    self.imports[a.asname or a.name] = base + "." + a.name

    def func(self, qualname):
        try:
            return self.funcs[qualname]
        except KeyError:
            raise AnchorMissing("function %s not found in %s" % (qualname, self.rel))

    def cls(self, name):
        try:
            return self.classes[name]
        except KeyError:
            raise AnchorMissing("class %s not found in %s" % (name, self.rel))

    def assignments(self, name, scope=None):
        """Top-level (or class-level) assignments `name = ...`; returns value nodes."""
        body = self.tree.body if scope is None else self.cls(scope).body
        out = []
        for n in body:
            if isinstance(n, ast.Assign):
                for t in n.targets:
                    if isinstance(t, ast.Name) and t.id == name:
                        out.append(n.value)
            elif isinstance(n, ast.AnnAssign) and isinstance(n.target, ast.Name) \
                    and n.target.id == name and n.value is not None:
                out.append(n.value)
        return out

    def table(self, name, scope=None):
        v = self.assignments(name, scope)
        if not v:
            raise AnchorMissing("table %s%s not found in %s" % (
                (scope + ".") if scope else "", name, self.rel))
        return v[-1]


class Repo:
    def __init__(self, root=None, overlay=None):
        self.root = root or DEFAULT_ROOT
        self.overlay = overlay or {}
        self._mods = {}

    def mod(self, rel):
        if rel not in self._mods:
            if rel in self.overlay:
                text = self.overlay[rel]
            else:
                p = os.path.join(self.root, rel)
                if not os.path.isfile(p):
                    raise AnchorMissing("file %s not found" % rel)
                with open(p, encoding="utf-8") as fh:
                    text = fh.read()
            self._mods[rel] = Module(self, rel, text)
        return self._mods[rel]

    def func(self, rel, qualname):
        return self.mod(rel).func(qualname)

    def consulted(self):
        return [{"path": m.rel, "sha256": m.sha256} for m in self._mods.values()]


# ----------------------------------------------------------------------------
# small AST helpers used everywhere
# ----------------------------------------------------------------------------
def dotted(node):
    """a.b.c -> 'a.b.c' for Name/Attribute chains, else None."""
    parts = []
    while isinstance(node, ast.Attribute):
        parts.append(node.attr)
        node = node.value
    if isinstance(node, ast.Name):
        parts.append(node.id)
        return ".".join(reversed(parts))
    return None


def clone(node):
    """Structural copy of an AST subtree (does not follow the _parent back links)."""
    if isinstance(node, list):
        return [clone(x) for x in node]
    if not isinstance(node, ast.AST):
        return node
    new = node.__class__()
    for f in node._fields:
        if hasattr(node, f):
            setattr(new, f, clone(getattr(node, f)))
    for a in ("lineno", "col_offset", "end_lineno", "end_col_offset"):
        if hasattr(node, a):
            setattr(new, a, getattr(node, a))
    for child in ast.iter_child_nodes(new):
        child._parent = new
    return new


def norm(node):
    """Source text of a node (whitespace / quote independent).  The result is a CanonStr: it
    also compares equal to any other spelling of the same canonical form (see canon.py)."""
    if isinstance(node, str):
        return node
    from .canon import CanonStr
    return CanonStr(ast.unparse(node), node)


def parent(node):
    return getattr(node, "_parent", None)


def ancestors(node):
    n = parent(node)
    while n is not None:
        yield n
        n = parent(n)


def enclosing_stmt(node):
    n = node
    while n is not None and not isinstance(n, ast.stmt):
        n = parent(n)
    return n


def walk_no_nested(node):
    """ast.walk that does not descend into nested function/class definitions or lambdas."""
    todo = [node]
    first = True
    while todo:
        n = todo.pop()
        if not first and isinstance(n, (ast.FunctionDef, ast.AsyncFunctionDef, ast.ClassDef, ast.Lambda)):
            continue
        first = False
        yield n
        todo.extend(ast.iter_child_nodes(n))


def calls_in(node, name=None):
    """All Call nodes below node (not in nested defs); optionally filter by the last
    component of the callee's dotted name (or full dotted name if it contains '.')."""
    out = []
    for n in walk_no_nested(node):
        if isinstance(n, ast.Call):
            if name is None:
                out.append(n)
            else:
                d = dotted(n.func)
                if d is None and isinstance(n.func, ast.Attribute):
                    d = "?." + n.func.attr
                if d is None:
                    continue
                names = (name,) if isinstance(name, str) else tuple(name)
                for nm in names:
                    if "." in nm:
                        if d == nm or d.endswith("." + nm):
                            out.append(n)
                            break
                    elif d.split(".")[-1] == nm:
                        out.append(n)
                        break
    out.sort(key=lambda c: (c.lineno, c.col_offset))
    return out


def const_value(node):
    if isinstance(node, ast.Constant):
        return node.value
    if isinstance(node, ast.UnaryOp) and isinstance(node.op, ast.USub):
        v = const_value(node.operand)
        if isinstance(v, (int, float)):
            return -v
    raise AnalysisError("not a constant: %s" % norm(node))


def call_arg(call, pos=None, kw=None):
    """Positional or keyword argument of a call, None if absent."""
    if pos is not None and pos < len(call.args) and not any(isinstance(a, ast.Starred) for a in call.args[:pos + 1]):
        return call.args[pos]
    if kw is not None:
        for k in call.keywords:
            if k.arg == kw:
                return k.value
    return None


# ----------------------------------------------------------------------------
# obligations / report
# ----------------------------------------------------------------------------
class Obligation:
    __slots__ = ("rule", "construct", "ok", "fact", "oracle", "where", "witness", "stmt", "complete")

    def __init__(self, rule, construct, ok, fact, oracle, where, witness, stmt, complete=False):
        self.complete = complete        # decided by an evaluation that reads every statement or refuses: no structure can be mis-read
        self.rule, self.construct, self.ok = rule, construct, ok
        self.fact, self.oracle, self.where, self.witness, self.stmt = fact, oracle, where, witness, stmt

    def key(self):
        return {"rule": self.rule, "construct": self.construct, "stmt": self.stmt}

    def as_dict(self):
        d = {"rule": self.rule, "construct": self.construct, "verdict": "holds" if self.ok else "REFUTED",
             "extracted": self.fact, "oracle": self.oracle, "where": self.where}
        if self.witness is not None:
            d["witness"] = self.witness
        return d


class Ctx:
    """Per-run context handed to the rule functions of one property."""

    def __init__(self, prop, tier="quick", root=None, overlay=None, seed=0):
        self.prop = prop
        self.tier = tier
        self.seed = seed
        self.repo = Repo(root, overlay)
        self.obligations = []
        self.functions = {}
        self.rules = {}
        self.counters = {}
        self.assumptions = []
        self.models = []
        self.extra = {}
        self.errors = []
        self._normalized = {}
        self._rule = None
        self._template = None

    # -- bookkeeping
    def rule(self, rid, template, text):
        self._rule = rid
        if rid not in self.rules:
            self.rules[rid] = {"id": rid, "template": template, "what": text, "instances": 0, "refuted": 0}

    def func(self, rel, qualname, raw=False):
        f = self.repo.func(rel, qualname)
        end = getattr(f.node, "end_lineno", f.node.lineno)
        self.functions["%s::%s" % (rel, qualname)] = [f.node.lineno, end]
        if raw or os.environ.get("TYVERIF_NO_NORMALIZE"):
            return f
        key = (rel, qualname)
        if key not in self._normalized:
            from .normalize import normalized_func
            try:
                node, inlined = normalized_func(f)
            except RecursionError:
                node, inlined = f.node, []
            nf = Func(f.module, node, f.cls)
            nf.raw = f
            nf.inlined = inlined
            if inlined:
                self.count("helpers_inlined", len(inlined))
            self._normalized[key] = nf
        return self._normalized[key]

    def mod(self, rel):
        return self.repo.mod(rel)

    def count(self, key, n=1):
        self.counters[key] = self.counters.get(key, 0) + n

    def assume(self, text):
        if text not in self.assumptions:
            self.assumptions.append(text)

    def ob(self, construct, ok, fact, oracle, node=None, func=None, witness=None, rule=None, complete=False):
        rid = rule or self._rule
        where = ""
        stmt = ""
        if node is not None:
            mod = func.module.rel if func is not None else ""
            where = "%s:%d" % (mod, getattr(node, "lineno", 0))
            st = enclosing_stmt(node) if not isinstance(node, (ast.FunctionDef, ast.ClassDef)) else None
            if st is not None:
                stmt = _short(header_text(st))
        elif func is not None:
            where = func.where()
        o = Obligation(rid, construct, bool(ok), _short(str(fact), 400), _short(str(oracle), 300), where, witness, stmt, complete)
        self.obligations.append(o)
        r = self.rules.setdefault(rid, {"id": rid, "template": "", "what": "", "instances": 0, "refuted": 0})
        r["instances"] += 1
        if not ok:
            r["refuted"] += 1
        return bool(ok)

    def attempt(self, fn, *args, **kw):
        """Run one rule; an AnalysisError in it is recorded (exit 2 unless a violation is
        found elsewhere) and does not keep the other rules from running."""
        try:
            return fn(*args, **kw)
        except AnalysisError as e:
            self.errors.append("%s: %s" % (self._rule or getattr(fn, "__name__", "?"), e))
            return None
        except Exception as e:        # a rule that trips over a construct it never met: no verdict from this rule, the others still run
            if os.environ.get("TYVERIF_RAISE"):
                raise
            import traceback as _tb
            last = _tb.extract_tb(e.__traceback__)[-1]
            self.errors.append("%s: internal error of the rule (%s: %s at %s:%d) - no verdict from it" % (
                self._rule or getattr(fn, "__name__", "?"), type(e).__name__, str(e)[:120], os.path.basename(last.filename), last.lineno))
            return None

    def expect_instances(self, rid, n):
        got = self.rules.get(rid, {}).get("instances", 0)
        if got < n:
            raise AnalysisError("rule %s matched %d instances, expected at least %d (vacuity guard)" % (rid, got, n))


def header_text(st):
    """Text of a statement without the bodies of compound statements."""
    if isinstance(st, (ast.If, ast.While)):
        return ("if " if isinstance(st, ast.If) else "while ") + norm(st.test)
    if isinstance(st, ast.For):
        return "for %s in %s" % (norm(st.target), norm(st.iter))
    if isinstance(st, ast.With):
        return "with " + ", ".join(norm(i) for i in st.items)
    if isinstance(st, ast.Try):
        return "try"
    if isinstance(st, (ast.FunctionDef, ast.ClassDef)):
        return "def " + st.name
    return norm(st)


def _short(s, n=200):
    s = re.sub(r"\s+", " ", s)
    return s if len(s) <= n else s[:n - 3] + "..."


# ----------------------------------------------------------------------------
# known findings
# ----------------------------------------------------------------------------
def load_known():
    p = os.path.join(VERIF, "known_findings.json")
    if not os.path.isfile(p):
        return []
    with open(p) as fh:
        return json.load(fh).get("findings", [])


def match_known(ob, prop, known):
    for k in known:
        if k.get("status") != "known":
            continue
        if k.get("property") != prop or k.get("rule") != ob.rule or k.get("construct") != ob.construct:
            continue
        if k.get("stmt") and k.get("stmt") != ob.stmt:
            continue
        return k
    return None
