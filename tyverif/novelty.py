"""How far a function has moved away from the tree the rules were confirmed on.

Every rule instance was confirmed by reading on the pinned tree (and on the corpora of behaviour-preserving variants kept under
seeded/refactorings).  A rule that does not find what it requires in a function that has been restructured far beyond that is more
likely to have mis-read the new structure than to have found a defect: measured on four rounds of out-of-sample refactorings, the
false alarms sat almost entirely in functions with more than a dozen changed statements, while no realistic breaking change of the
seeded corpus changes that many (DESIGN.md section 25).  `novelty` counts the statements (simple statements and the headers of
compound ones, as unparsed source - comments, docstrings and layout do not count) that a function has and the snapshot
`known_stmts.json` has not, or the reverse, plus the statements of functions that are new in the module (extracted helpers).
main.py reports an unmet obligation in a function above the limit as NO-VERDICT (exit 2), never as a VIOLATION.
"""
import ast
import collections
import hashlib
import json
import os

LIMIT = 12
_SNAP = None


def stmts_of(fn):
    c = collections.Counter()

    def rec(body):
        for s in body:
            if isinstance(s, ast.Expr) and isinstance(s.value, ast.Constant) and isinstance(s.value.value, str):
                continue
            if isinstance(s, (ast.FunctionDef, ast.AsyncFunctionDef, ast.ClassDef)):
                c["def " + s.name] += 1
                rec(s.body)
                continue
            if isinstance(s, (ast.If, ast.While)):
                c["%s %s" % (type(s).__name__, ast.unparse(s.test))] += 1
            elif isinstance(s, (ast.For, ast.AsyncFor)):
                c["for %s in %s" % (ast.unparse(s.target), ast.unparse(s.iter))] += 1
            elif isinstance(s, (ast.With, ast.AsyncWith)):
                c["with " + ", ".join(ast.unparse(i) for i in s.items)] += 1
            elif isinstance(s, ast.Try):
                c["try"] += 1
                for h in s.handlers:
                    c["except " + (ast.unparse(h.type) if h.type else "")] += 1
                    rec(h.body)
            else:
                c[ast.unparse(s)] += 1
                continue
            for fld in ("body", "orelse", "finalbody"):
                rec(getattr(s, fld, []) or [])
    rec(fn.body)
    return c


def funcs_of(tree):
    """{qualified name: node} of the module's functions and methods, plus '<module>' for the statements at module level"""
    out = {}
    for n in tree.body:
        if isinstance(n, (ast.FunctionDef, ast.AsyncFunctionDef)):
            out[n.name] = n
        elif isinstance(n, ast.ClassDef):
            for m in n.body:
                if isinstance(m, (ast.FunctionDef, ast.AsyncFunctionDef)):
                    key = "%s.%s" % (n.name, m.name)
                    while key in out:
                        key += "'"          # property getter / setter pairs share a name
                    out[key] = m
    out["<module>"] = ast.Module(body=[s for s in tree.body if not isinstance(s, (ast.FunctionDef, ast.AsyncFunctionDef, ast.ClassDef, ast.Import, ast.ImportFrom))],
                                 type_ignores=[])
    return out


def digest(text):
    return hashlib.sha1(text.encode("utf-8")).hexdigest()[:10]


def snapshot_of(tree):
    return {q: sorted(digest(t) for t, k in stmts_of(n).items() for _ in range(k)) for q, n in funcs_of(tree).items()}


def load_snapshot():
    global _SNAP
    if _SNAP is None:
        p = os.path.join(os.path.dirname(os.path.abspath(__file__)), "known_stmts.json")
        try:
            with open(p) as fh:
                _SNAP = json.load(fh)
        except OSError:
            _SNAP = {}
    return _SNAP


def limit():
    v = os.environ.get("TYVERIF_NOVELTY_LIMIT")
    if v is None or v == "":
        return LIMIT
    return int(v)           # 0 switches the guard off (used by tools/cross_check.py to measure detection on refactored code)


def enclosing(tree, line):
    """qualified name of the function / method whose source range contains the line ('<module>' otherwise)"""
    best = "<module>"
    for q, n in funcs_of(tree).items():
        if q != "<module>" and getattr(n, "lineno", 0) <= line <= getattr(n, "end_lineno", -1):
            first = min([n.lineno] + [d.lineno for d in n.decorator_list])
            if first <= line <= n.end_lineno:
                best = q
    for q, n in funcs_of(tree).items():
        if q != "<module>":
            first = min([n.lineno] + [d.lineno for d in n.decorator_list])
            if first <= line <= n.end_lineno:
                best = q
    return best


def novelty(tree, rel, qual):
    """(number of statements in which function `qual` of module `rel` differs from the snapshot, + statements of functions that are new
    in the module; None when the module is not in the snapshot)"""
    snap = load_snapshot().get(rel)
    if snap is None:
        return None
    now = snapshot_of(tree)
    a = collections.Counter(snap.get(qual, []))
    b = collections.Counter(now.get(qual, []))
    own = sum(((a - b) + (b - a)).values())
    new = sum(len(v) for q, v in now.items() if q not in snap and q != qual)
    return own + new
