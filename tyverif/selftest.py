"""E10 - checker self-test (thorough tier): single-point mutations of the analysed functions,
applied to an in-memory overlay of the source, must be noticed by the rules of the property.

The outcome never changes the exit code of a check; the kill table goes into the evidence:
killed (a new refuted obligation), unanalysable (the rules answer ANALYSIS-ERROR: the construct
left the analysable class - acceptable, never a silent pass), survived (equivalent mutant, or a
change outside the decided clauses - listed so that a reader can judge).
"""
import ast
import concurrent.futures as cf
import os
import random

from .core import AnalysisError, Repo, norm


CMP_FLIP = {ast.Lt: ast.LtE, ast.LtE: ast.Lt, ast.Gt: ast.GtE, ast.GtE: ast.Gt, ast.Eq: ast.NotEq, ast.NotEq: ast.Eq,
            ast.Is: ast.IsNot, ast.IsNot: ast.Is, ast.In: ast.NotIn, ast.NotIn: ast.In}
BIN_FLIP = {ast.Add: ast.Sub, ast.Sub: ast.Add, ast.Mult: ast.Div, ast.Div: ast.Mult}
NAME_FLIP = {"min": "max", "max": "min", "any": "all", "all": "any", "popleft": "pop", "argmin": "argmax", "nanmean": "mean", "nanstd": "std",
             "floor": "ceil", "ceil": "floor", "trunc": "round", "sin": "cos", "cos": "sin", "arcsin": "arccos", "sorted": "list",
             "searchsorted": "searchsorted", "hstack": "vstack", "append": "appendleft", "update": "setdefault", "lstrip": "rstrip",
             "deg2rad": "rad2deg", "rad2deg": "deg2rad", "radians": "degrees", "remove": "unlink_missing"}


def mutation_sites(func_node):
    """yield (kind, node-path description, mutate(tree_copy_node)) for one function"""
    sites = []
    for n in ast.walk(func_node):
        if isinstance(n, ast.Compare):
            for i, op in enumerate(n.ops):
                if type(op) in CMP_FLIP:
                    sites.append(("cmp", n, i))
        elif isinstance(n, ast.BinOp) and type(n.op) in BIN_FLIP:
            sites.append(("bin", n, 0))
        elif isinstance(n, ast.BoolOp):
            sites.append(("bool", n, 0))
        elif isinstance(n, ast.UnaryOp) and isinstance(n.op, ast.Not):
            sites.append(("not", n, 0))
        elif isinstance(n, ast.Constant) and isinstance(n.value, (int, float)) and not isinstance(n.value, bool):
            sites.append(("const", n, 0))
        elif isinstance(n, ast.Call):
            if len(n.args) >= 2 and not any(isinstance(a, ast.Starred) for a in n.args):
                sites.append(("swapargs", n, 0))
            f = n.func
            nm = f.attr if isinstance(f, ast.Attribute) else (f.id if isinstance(f, ast.Name) else None)
            if nm in NAME_FLIP and NAME_FLIP[nm] != nm:
                sites.append(("callee", n, 0))
        elif isinstance(n, (ast.Assign, ast.AugAssign, ast.Expr)) and not (isinstance(n, ast.Expr) and isinstance(n.value, ast.Constant)):
            sites.append(("delete", n, 0))
        elif isinstance(n, ast.Subscript) and isinstance(n.slice, ast.Constant) and n.slice.value in (0, 1):
            sites.append(("index", n, 0))
    return sites


def apply(kind, n, i):
    """mutate node n in place; returns a description"""
    if kind == "cmp":
        old = type(n.ops[i]).__name__
        n.ops[i] = CMP_FLIP[type(n.ops[i])]()
        return "%s -> %s" % (old, type(n.ops[i]).__name__)
    if kind == "bin":
        old = type(n.op).__name__
        n.op = BIN_FLIP[type(n.op)]()
        return "%s -> %s" % (old, type(n.op).__name__)
    if kind == "bool":
        old = type(n.op).__name__
        n.op = ast.Or() if isinstance(n.op, ast.And) else ast.And()
        return "%s -> %s" % (old, type(n.op).__name__)
    if kind == "not":
        n.op = ast.UAdd()       # `+x` keeps truthiness of bools for our purposes: removes the negation
        return "not removed"
    if kind == "const":
        old = n.value
        n.value = (old + 1) if isinstance(old, int) else (old * 10 if old else 1.0)
        return "%r -> %r" % (old, n.value)
    if kind == "swapargs":
        n.args[0], n.args[1] = n.args[1], n.args[0]
        return "first two arguments swapped"
    if kind == "callee":
        f = n.func
        if isinstance(f, ast.Attribute):
            old, f.attr = f.attr, NAME_FLIP[f.attr]
        else:
            old, f.id = f.id, NAME_FLIP[f.id]
        return "%s -> %s" % (old, NAME_FLIP[old])
    if kind == "index":
        old = n.slice.value
        n.slice = ast.Constant(1 - old)
        return "[%d] -> [%d]" % (old, 1 - old)
    if kind == "delete":
        return "statement deleted"
    raise ValueError(kind)


def make_variant(text, qualname, site_index):
    """source text with the site_index-th mutation site of function `qualname` mutated"""
    tree = ast.parse(text)
    target = None
    for n in tree.body:
        if isinstance(n, (ast.FunctionDef, ast.AsyncFunctionDef)) and n.name == qualname:
            target = n
        elif isinstance(n, ast.ClassDef) and "." in qualname and n.name == qualname.split(".")[0]:
            want = qualname.split(".")[1]
            setter = qualname.endswith(".setter")
            for m in n.body:
                if isinstance(m, (ast.FunctionDef, ast.AsyncFunctionDef)) and m.name == want:
                    is_setter = any(isinstance(d, ast.Attribute) and d.attr == "setter" for d in m.decorator_list)
                    if is_setter == setter:
                        target = m
    if target is None:
        return None
    sites = mutation_sites(target)
    if site_index >= len(sites):
        return None
    kind, node, i = sites[site_index]
    line = getattr(node, "lineno", 0)
    before = norm(node)[:70]
    if kind == "delete":
        # replace the statement by `pass`
        for parent in ast.walk(target):
            for fld in ("body", "orelse", "finalbody"):
                lst = getattr(parent, fld, None)
                if isinstance(lst, list) and node in lst:
                    lst[lst.index(node)] = ast.copy_location(ast.Pass(), node)
        desc = "statement deleted"
    else:
        desc = apply(kind, node, i)
    ast.fix_missing_locations(tree)
    try:
        new = ast.unparse(tree)
        compile(new, "<variant>", "exec")
    except Exception:
        return None
    return new, {"kind": kind, "line": line, "before": before, "change": desc}


class _VariantTimeout(BaseException):
    """raised by the per-variant alarm; a BaseException so that no `except Exception` on the way (sympy, ctx.attempt) swallows it"""


def _run_one(job):
    prop, root, rel, text, qual, idx, base_keys = job
    from .main import run_property
    v = make_variant(text, qual, idx)
    if v is None:
        return None
    new, info = v
    info.update({"file": rel, "function": qual})
    os.environ["TYVERIF_NOEXPECT"] = ""
    import signal

    def _alarm(signum, frame):
        raise _VariantTimeout()
    signal.signal(signal.SIGALRM, _alarm)
    signal.alarm(int(os.environ.get("TYVERIF_VARIANT_TIMEOUT", "25")))
    try:
        ctx = run_property(prop, tier="quick", root=root, overlay={rel: new})
        refuted = [o for o in ctx.obligations if not o.ok and (o.rule, o.construct) not in base_keys]
        if refuted:
            info["outcome"] = "killed"
            info["by"] = sorted(set(o.rule for o in refuted))[:4]
        elif ctx.errors:
            info["outcome"] = "unanalysable"
            info["by"] = [ctx.errors[0][:100]]
        else:
            info["outcome"] = "survived"
    except AnalysisError as e:
        info["outcome"] = "unanalysable"
        info["by"] = [str(e)[:100]]
    except _VariantTimeout:
        info["outcome"] = "unanalysable"
        info["by"] = ["timeout: variant analysis exceeded the per-variant time limit"]
    except Exception as e:   # a crash of the checker on a variant is a checker bug worth seeing
        info["outcome"] = "checker-crash"
        info["by"] = ["%s: %s" % (type(e).__name__, str(e)[:100])]
    finally:
        signal.alarm(0)
    return info


def run(ctx, prop, root=None, seed=0, budget=None):
    budget = budget or int(os.environ.get("TYVERIF_MUTANTS", "240"))
    repo = ctx.repo
    base_keys = set((o.rule, o.construct) for o in ctx.obligations if not o.ok)
    jobs = []
    for key in sorted(ctx.functions):
        rel, qual = key.split("::")
        mod = repo.mod(rel)
        f = mod.funcs.get(qual)
        if f is None:
            continue
        n = len(mutation_sites(f.node))
        for i in range(n):
            jobs.append((prop, root or repo.root, rel, mod.text, qual, i, base_keys))
    rnd = random.Random(seed)
    total_sites = len(jobs)
    if len(jobs) > budget:
        jobs = rnd.sample(jobs, budget)
    results = []
    workers = min(16, os.cpu_count() or 1)
    # wall-clock budget: variants that are not finished by then are reported as not run (never as killed or survived)
    import time
    deadline = time.time() + float(os.environ.get("TYVERIF_SELFTEST_SECONDS", "300"))
    # multiprocessing.Pool rather than concurrent.futures: terminate() is part of its contract, so that stopping at the deadline
    # with variants still queued neither hangs the interpreter at exit nor kills the executor's management thread
    import multiprocessing as mp
    pool = mp.get_context("fork").Pool(workers)
    received = 0
    try:
        it = pool.imap_unordered(_run_one, jobs)
        while received < len(jobs):
            left = deadline - time.time()
            try:
                r = it.next(timeout=max(left, 0.01))
            except mp.TimeoutError:
                break
            except StopIteration:
                break
            received += 1
            if r is not None:
                results.append(r)
    finally:
        pool.terminate()
        pool.join()
    not_run = len(jobs) - received
    tally = {}
    for r in results:
        tally[r["outcome"]] = tally.get(r["outcome"], 0) + 1
    per_rule = {}
    for r in results:
        if r["outcome"] == "killed":
            for ru in r["by"]:
                per_rule[ru] = per_rule.get(ru, 0) + 1
    survivors = [r for r in results if r["outcome"] == "survived"]
    rnd.shuffle(survivors)
    ctx.extra["selftest"] = {
        "mutation_sites_in_analysed_functions": total_sites,
        "variants_run": len(results),
        "variants_not_run_time_budget": not_run,
        "outcomes": tally,
        "kills_per_rule": dict(sorted(per_rule.items())),
        "rules_without_kill": sorted(set(ctx.rules) - set(per_rule)),
        "sample_killed": [r for r in results if r["outcome"] == "killed"][:8],
        "sample_survivors": survivors[:25],
        "sample_unanalysable": [r for r in results if r["outcome"] == "unanalysable"][:8],
        "checker_crashes": [r for r in results if r["outcome"] == "checker-crash"][:10],
        "note": "survivors are single-point mutations in analysed functions that no decided clause depends on (logging, error "
                "texts, undecided behaviour) or equivalent mutants; they are listed, not hidden",
    }
    print("self-test %s: %d sites, %d variants: %s" % (prop, total_sites, len(results), tally))
    return ctx.extra["selftest"]
