"""Cnn.early - an answer given without the search.

For a function whose answer is the result of a search / computation (`core` calls: the index query, the tree walk, the reader ...),
every `return <value>` that can be reached WITHOUT passing one of the core calls is a short cut: the answer is then decided by the
arguments alone.  A short cut is accepted when
  * the confirmed tree has it (same value, same guards - listed per function in the table of the caller, with the reason), or
  * it stands under an emptiness test of an argument (`not X.size`, `X.size == 0`, `len(X) == 0`, `not len(X)`): nothing to search in.
Any other short cut ("the bounding boxes are far apart", "the last answer again", "more than N points") may be right or wrong for
reasons no rule here can see - it is reported as ANALYSIS-ERROR (exit 2, no verdict), never as a violation and never silently accepted.
"""
import ast

from .core import AnalysisError, norm, walk_no_nested, calls_in, enclosing_stmt
from .flow import Flow, guard_chain


def _emptiness(test, pol, params):
    """(test, polarity) says: argument X is empty"""
    t = test
    if isinstance(t, ast.BoolOp) and isinstance(t.op, ast.Or) and pol is True:
        return all(_emptiness(v, True, params) for v in t.values)       # one of them is empty
    if isinstance(t, ast.BoolOp) and isinstance(t.op, ast.And) and pol is True:
        return any(_emptiness(v, True, params) for v in t.values)
    if isinstance(t, ast.Attribute) and t.attr == "empty" and isinstance(t.value, ast.Name) and t.value.id in params:
        return pol is True
    if isinstance(t, ast.UnaryOp) and isinstance(t.op, ast.Not):
        t, pol = t.operand, not pol
        # `not X.size` true  <=> empty
        inner = _sized(t, params)
        return inner is not None and pol is False
    if isinstance(t, ast.Compare) and len(t.ops) == 1 and isinstance(t.comparators[0], ast.Constant) and t.comparators[0].value == 0:
        inner = _sized(t.left, params)
        if inner is None:
            return False
        if isinstance(t.ops[0], ast.Eq):
            return pol is True
        if isinstance(t.ops[0], (ast.NotEq, ast.Gt)):
            return pol is False
        return False
    inner = _sized(t, params)
    return inner is not None and pol is False


def _sized(e, params):
    """X.size / len(X) / X.shape[0] of an argument X -> X"""
    if isinstance(e, ast.Attribute) and e.attr == "size" and isinstance(e.value, ast.Name) and e.value.id in params:
        return e.value.id
    if isinstance(e, ast.Call) and isinstance(e.func, ast.Name) and e.func.id == "len" and len(e.args) == 1 and isinstance(e.args[0], ast.Name) \
            and e.args[0].id in params:
        return e.args[0].id
    return None


def early_answers(f, core):
    """[(return statement, value text, guard texts)] of the valued returns of f that are not dominated by a core call"""
    flow = Flow(f)
    sites = [c for c in calls_in(f.node, tuple(core))]
    if not sites:
        raise AnalysisError("%s: none of the calls %s was found: where the answer comes from is not recognised" % (f.qualname, list(core)))
    dom = set()
    for c in sites:
        st = enclosing_stmt(c)
        dom |= set(flow.cfg.nodes(st))
    out = []
    for r in walk_no_nested(f.node):
        if not (isinstance(r, ast.Return) and r.value is not None):
            continue
        if isinstance(r.value, ast.Constant) and r.value.value is None:
            continue
        nodes = flow.cfg.nodes(r)
        if nodes and all(flow.cfg.dominated_by(n, dom) for n in nodes):
            continue
        if any(c in set(ast.walk(r)) for c in sites):
            continue            # `return self.index.query(...)`: the core call is the answer
        gc = guard_chain(r, implicit=True)
        out.append((r, str(norm(r.value)), gc))
    return out, len(sites)


def rule_early(ctx, rule, path, qualname, core, accepted=(), what="the search"):
    """accepted: iterable of (value text, frozenset of guard texts '<test>' / 'not (<test>)') the confirmed tree has"""
    f = ctx.func(path, qualname)
    found, nsites = early_answers(f, core)
    params = set(f.all_params)
    unknown = []
    for r, val, gc in found:
        gtxt = frozenset(("%s" if pol else "not (%s)") % norm(t) for t, pol in gc)
        if any(val == v and gtxt == frozenset(g) for v, g in accepted):
            continue
        if any(_emptiness(t, pol, params) for t, pol in gc):
            continue
        unknown.append("line %d: return %s under %s" % (getattr(r, "lineno", 0), val[:60], sorted(gtxt) or "no condition"))
    if unknown:
        raise AnalysisError("%s answers without %s (%s): %s - a short cut decided by the arguments alone is neither in the confirmed tree nor an "
                            "emptiness test; the rules cannot judge it" % (qualname, what, "/".join(core), "; ".join(unknown)[:400]))
    ctx.ob("%s.answer" % qualname, True, "%d return(s) not behind %s, all of them known or under an emptiness test of an argument; %d call site(s) of %s"
           % (len(found), what, nsites, "/".join(core)),
           "no answer is given without %s except where the confirmed tree gives it or an argument is empty" % what, node=f.node, func=f)


def rule_early_table(ctx, rid, entries):
    """entries: [(path, qualname, core calls, what, accepted)]"""
    ctx.rule(rid, "T1 (reachability)", "no answer without the search: every valued return that is not behind the core call is one the confirmed tree has or "
             "stands under an emptiness test of an argument (anything else: no verdict)")
    for path, qualname, core, what, accepted in entries:
        ctx.attempt(rule_early, ctx, rid, path, qualname, core, accepted, what)
