"""A small evaluator for string- and name-handling helpers (split_units, the pseudo-group helpers), read from the AST.

The class it reads: assignments to names / tuples of names, `while`, `if`, `try` / `except <builtin exception>` / `else`, `break`, `continue`,
`for`, `return`, stores into and method calls on lists / sets / dictionaries the function created itself; expressions over strings, numbers,
None, tuples, lists, sets and dictionaries (displays and comprehensions), calls of other helpers handed in as `funcs`, attributes and subscripts
of `Stub` stand-ins for library objects: constants, names, `+`, comparisons, `not` / `and` / `or`, conditional
expressions, subscripts and slices with constant bounds, `len`, `float`, `int`, `str`, the str methods strip / lstrip / rstrip / lower /
upper / startswith / endswith / isdigit, and regular expressions of the standard library whose pattern is a constant of the source
(compile / search / match / fullmatch, group / start / end of a match).  Everything else - a library call, an attribute - raises AnalysisError: the
helper is then outside what can be compared, and that is said (exit 2), never guessed.

Later additions (DESIGN.md sections 36-37): `datetime` / `timedelta` values, methods of the modelled class (held by the `Stub` for `self`),
module-level helpers and constants of the module under analysis, lambdas as closures, `map` / `filter` / `sorted(key=)`, the `operator` /
`functools` / `itertools` helpers that were met in variants, `deque`, starred targets, `getattr`, `next()` of an iterator written in place.
A `TypeError` counts as the program's only when both operands are plain values (`_plain`); anything that may be an artefact of the model
is a refusal (AnalysisError).

It is a model of a few dozen lines of the repository on a finite table of values (the table is the rule's), not an execution of the
repository: nothing is imported, and a construct outside the class stops the evaluation.
"""
import ast
import datetime as _dt

from .core import AnalysisError, norm


def _plain(v):
    """a value whose Python semantics the evaluator takes over unchanged"""
    if v is None or isinstance(v, (str, int, float, bool, _dt.datetime, _dt.date, _dt.timedelta)):
        return True
    if isinstance(v, (tuple, list, set, frozenset)):
        return all(_plain(x) for x in v)
    if isinstance(v, dict):
        return all(_plain(k) and _plain(x) for k, x in v.items())
    return False


class _Break(Exception):
    pass


class _Continue(Exception):
    pass


class _Return(Exception):
    def __init__(self, value):
        self.value = value


class PyRaise(Exception):
    """an exception of the modelled program"""
    def __init__(self, kind, msg=""):
        Exception.__init__(self, "%s: %s" % (kind, msg))
        self.kind = kind


STR_METHODS = {"strip", "lstrip", "rstrip", "lower", "upper", "startswith", "endswith", "isdigit", "isspace", "isalpha",
               "split", "rsplit", "partition", "rpartition", "join", "replace", "find", "rfind", "index", "count", "format", "removeprefix", "removesuffix"}
DATE_ATTRS = {"year", "month", "day", "hour", "minute", "second", "microsecond", "days", "seconds", "microseconds", "min", "max"}
DATE_METHODS = {"replace", "total_seconds", "date", "time", "timetuple", "isoformat", "strftime", "weekday"}
TYPES = {"tuple": tuple, "list": list, "str": str, "int": int, "float": float, "dict": dict, "set": set, "bool": bool, "datetime": _dt.datetime, "date": _dt.date,
         "timedelta": _dt.timedelta, "type(None)": type(None), "Number": (int, float, complex), "numbers.Number": (int, float, complex), "Real": (int, float),
         "numbers.Real": (int, float)}
BUILTINS = {"float": float, "int": int, "str": str, "len": len, "bool": bool, "set": set, "divmod": divmod, "abs": abs, "round": round, "format": format, "repr": repr,
            "datetime": _dt.datetime, "timedelta": _dt.timedelta, "list": list, "tuple": tuple, "dict": dict, "sorted": sorted,
            "any": any, "all": all, "min": min, "max": max, "sum": sum, "enumerate": enumerate, "zip": zip, "range": range, "reversed": reversed, "frozenset": frozenset}
import collections as _coll
CONTAINER_METHODS = {_coll.deque: {"append", "appendleft", "extend", "extendleft", "pop", "popleft"}, list: {"append", "extend", "index", "count", "copy", "insert", "pop", "reverse"}, set: {"add", "update", "copy", "union", "discard"},
                     dict: {"get", "items", "keys", "values", "setdefault", "update", "copy", "pop"}, tuple: {"index", "count"}, frozenset: {"union"}}


class Stub:
    """a stand-in for an object of a library (an xarray.Dataset ...): named attributes with table values, and an optional subscript"""
    def __init__(self, name, attrs=None, getitem=None):
        self.name, self.attrs, self.getitem = name, dict(attrs or {}), getitem

    def __repr__(self):
        return "<%s>" % self.name
HIERARCHY = {"ValueError": {"ValueError"}, "TypeError": {"TypeError"}, "IndexError": {"IndexError"},
             "Exception": {"ValueError", "TypeError", "IndexError", "KeyError", "AttributeError", "Exception", "OverflowError", "ZeroDivisionError", "re.error", "StopIteration"},
             "OverflowError": {"OverflowError"}, "ZeroDivisionError": {"ZeroDivisionError"}, "re.error": {"re.error"}, "StopIteration": {"StopIteration"}, "KeyError": {"KeyError"}, "AttributeError": {"AttributeError"}}


class Closure:
    """a lambda of the modelled program with the names it closed over"""
    def __init__(self, node, env):
        self.node, self.env = node, env


class Model:
    """a callable of the standard library modelled by the evaluator (operator.itemgetter(0), functools.partial(f, x), a bound str method ...)"""
    def __init__(self, what, fn):
        self.what, self.fn = what, fn

    def __repr__(self):
        return "<%s>" % self.what


class Machine:
    def apply(self, f, args, kw=None):
        """call a callable value of the modelled program"""
        kw = kw or {}
        self.tick()
        if isinstance(f, Closure):
            a = f.node.args
            if a.vararg or a.kwarg or a.kwonlyargs or kw or len(args) > len(a.args) or len(args) < len(a.args) - len(a.defaults):
                raise AnalysisError("string machine: call of a lambda with these arguments")
            scope = dict(f.env)
            names = [x.arg for x in a.args]
            for nm, d in zip(names[len(names) - len(a.defaults):], a.defaults):
                scope[nm] = self.ev(d, f.env)
            scope.update(zip(names, args))
            return self.ev(f.node.body, scope)
        if isinstance(f, Model):
            return f.fn(*args, **kw)
        if hasattr(f, "node") and hasattr(f, "params"):
            self.budget -= 50
            return call(f, *args, budget=self.budget, funcs=self.funcs, _raise=True, _globals=self.globs, **kw)
        raise AnalysisError("string machine: call of %s" % type(f).__name__)

    def __init__(self, budget=20000, funcs=None, globs=None):
        self.budget = budget
        self.globs = globs or {}        # module-level names of the modelled module (stand-ins for imported modules such as os)
        self.funcs = funcs or {}        # name -> core.Func of other helpers of the repository that may be called (evaluated the same way)

    def tick(self):
        self.budget -= 1
        if self.budget < 0:
            raise AnalysisError("string machine: step budget exhausted (a loop that does not end on the table's strings?)")

    # -- expressions -----------------------------------------------------------------
    def ev(self, n, env):
        self.tick()
        if isinstance(n, ast.Constant):
            if n.value is None or isinstance(n.value, (str, int, float, bool)):
                return n.value
            raise AnalysisError("string machine: constant %r" % (n.value,))
        if isinstance(n, ast.Name):
            if n.id in env:
                return env[n.id]
            if n.id in self.funcs and hasattr(self.funcs[n.id], "node"):
                return self.funcs[n.id]             # a helper of the repository used as a value (map(helper, ...))
            if n.id in BUILTINS:
                def builtin(*a, f=BUILTINS[n.id], nm=n.id):      # a built-in used as a value (map(int, ...))
                    try:
                        return f(*a)
                    except ValueError as e:
                        raise PyRaise("ValueError", str(e))
                    except TypeError as e:
                        if all(_plain(x) for x in a):
                            raise PyRaise("TypeError", str(e))
                        raise AnalysisError("string machine: %s(...) (%s)" % (nm, e))
                return Model(n.id, builtin)
            raise AnalysisError("string machine: name %s is not bound" % n.id)
        if isinstance(n, ast.Lambda):
            return Closure(n, dict(env))
        BARE = {"partial": "functools", "reduce": "functools", "starmap": "itertools", "chain": "itertools", "itemgetter": "operator", "methodcaller": "operator"}
        if isinstance(n, ast.Call) and not n.keywords and (
                (isinstance(n.func, ast.Attribute) and isinstance(n.func.value, ast.Name) and n.func.value.id in ("operator", "functools", "itertools") and n.func.value.id not in env)
                or (isinstance(n.func, ast.Name) and n.func.id in BARE and n.func.id not in env and n.func.id not in self.funcs)):
            lib, what = (n.func.value.id, n.func.attr) if isinstance(n.func, ast.Attribute) else (BARE[n.func.id], n.func.id)
            args = [self.ev(a, env) for a in n.args]
            if (lib, what) == ("operator", "itemgetter") and len(args) == 1:
                return Model("itemgetter(%r)" % (args[0],), lambda v, k=args[0]: v[k])
            if (lib, what) == ("operator", "methodcaller") and args and isinstance(args[0], str) and args[0] in STR_METHODS:
                def mc(v, name=args[0], rest=tuple(args[1:])):
                    if not isinstance(v, str):
                        raise AnalysisError("string machine: methodcaller(%r) on %s" % (name, type(v).__name__))
                    r = getattr(v, name)(*rest)
                    return tuple(r) if name in ("partition", "rpartition") else r
                return Model("methodcaller(%r)" % args[0], mc)
            if (lib, what) == ("operator", "add") and len(args) == 2:
                return args[0] + args[1]
            if (lib, what) == ("functools", "partial") and args:
                return Model("partial", lambda *more, f=args[0], first=tuple(args[1:]): self.apply(f, list(first) + list(more)))
            if (lib, what) == ("functools", "reduce") and len(args) in (2, 3):
                seq = list(args[1])
                acc = args[2] if len(args) == 3 else seq.pop(0)
                for x in seq:
                    acc = self.apply(args[0], [acc, x])
                return acc
            if (lib, what) == ("itertools", "starmap") and len(args) == 2:
                return tuple(self.apply(args[0], list(x)) for x in args[1])
            if (lib, what) == ("itertools", "chain") :
                return tuple(x for a in args for x in a)
            raise AnalysisError("string machine: %s.%s" % (lib, what))
        if isinstance(n, ast.Attribute) and isinstance(n.value, ast.Name) and n.value.id == "operator" and "operator" not in env and n.attr in ("add", "mul", "sub"):
            import operator as _op
            return Model("operator." + n.attr, getattr(_op, n.attr))
        if isinstance(n, ast.Call) and isinstance(n.func, ast.Name) and n.func.id == "getattr" and "getattr" not in env and not n.keywords and len(n.args) in (2, 3):
            base = self.ev(n.args[0], env)
            name = self.ev(n.args[1], env)
            if not isinstance(name, str):
                raise AnalysisError("string machine: getattr with a name that is not a string")
            if isinstance(base, Stub):
                if name in base.attrs:
                    return base.attrs[name]
                if len(n.args) == 3:
                    raise AnalysisError("string machine: getattr(%s, %r, default): whether the attribute exists is not modelled" % (base, name))
                raise AnalysisError("string machine: attribute %s of %s" % (name, base))
            if isinstance(base, (_dt.datetime, _dt.date, _dt.timedelta)) and name in DATE_ATTRS:
                return getattr(base, name)
            raise AnalysisError("string machine: getattr(%s, %r)" % (type(base).__name__, name))
        if isinstance(n, ast.Call) and isinstance(n.func, ast.Name) and n.func.id == "next" and "next" not in env and not n.keywords and len(n.args) in (1, 2) \
                and isinstance(n.args[0], (ast.GeneratorExp, ast.Call)):
            # the first element of a FRESH iterator (a generator expression / the result of a call written in place): nothing else can have consumed it
            seq = self.ev(n.args[0], env)
            if not isinstance(seq, tuple):
                raise AnalysisError("string machine: next() of %s" % type(seq).__name__)
            if seq:
                return seq[0]
            if len(n.args) == 2:
                return self.ev(n.args[1], env)
            raise PyRaise("StopIteration", "")
        if isinstance(n, ast.Call) and isinstance(n.func, ast.Name) and n.func.id in ("map", "filter") and n.func.id not in env and not n.keywords and len(n.args) >= 2:
            f = self.ev(n.args[0], env)
            seqs = [self.ev(a, env) for a in n.args[1:]]
            if n.func.id == "map":
                return tuple(self.apply(f, list(xs)) for xs in zip(*seqs))
            if len(seqs) != 1:
                raise AnalysisError("string machine: filter with %d sequences" % len(seqs))
            return tuple(x for x in seqs[0] if (x if f is None else self.apply(f, [x])))
        if isinstance(n, ast.Call) and isinstance(n.func, ast.Name) and n.func.id in ("sorted", "min", "max") and n.func.id not in env \
                and any(k.arg == "key" for k in n.keywords) and all(k.arg in ("key", "reverse", "default") for k in n.keywords):
            kw = {k.arg: self.ev(k.value, env) for k in n.keywords}
            keyf = kw.pop("key")
            args = [self.ev(a, env) for a in n.args]
            return BUILTINS[n.func.id](*args, key=lambda v: self.apply(keyf, [v]), **kw)
        if isinstance(n, ast.Call) and isinstance(n.func, ast.Name) and isinstance(env.get(n.func.id), (Closure, Model)) :
            return self.apply(env[n.func.id], [self.ev(a, env) for a in n.args], {k.arg: self.ev(k.value, env) for k in n.keywords if k.arg})
        if isinstance(n, ast.Call) and isinstance(n.func, ast.Name) and n.func.id in env and hasattr(env[n.func.id], "node") and hasattr(env[n.func.id], "params"):
            return self.apply(env[n.func.id], [self.ev(a, env) for a in n.args], {k.arg: self.ev(k.value, env) for k in n.keywords if k.arg})
        if isinstance(n, ast.Call) and isinstance(n.func, (ast.Lambda, ast.Call)):
            return self.apply(self.ev(n.func, env), [self.ev(a, env) for a in n.args], {k.arg: self.ev(k.value, env) for k in n.keywords if k.arg})
        if isinstance(n, ast.Tuple):
            return tuple(self.ev(e, env) for e in n.elts)
        if isinstance(n, ast.List):
            return [self.ev(e, env) for e in n.elts]
        if isinstance(n, ast.Set):
            return {self.ev(e, env) for e in n.elts}
        if isinstance(n, ast.Dict):
            out = {}
            for k, v in zip(n.keys, n.values):
                if k is None:
                    m_ = self.ev(v, env)
                    if not isinstance(m_, dict):
                        raise AnalysisError("string machine: ** of a value that is not a dictionary in %s" % norm(n)[:60])
                    out.update(m_)
                else:
                    out[self.ev(k, env)] = self.ev(v, env)
            return out
        if isinstance(n, (ast.ListComp, ast.SetComp, ast.GeneratorExp, ast.DictComp)):
            out = []

            def gen(k, scope):
                if k == len(n.generators):
                    if isinstance(n, ast.DictComp):
                        out.append((self.ev(n.key, scope), self.ev(n.value, scope)))
                    else:
                        out.append(self.ev(n.elt, scope))
                    return
                g = n.generators[k]
                seq = self.ev(g.iter, scope)
                if not isinstance(seq, (str, tuple, list, set, frozenset, dict, range, enumerate, zip)) and not hasattr(seq, "__iter__"):
                    raise AnalysisError("string machine: iteration over %s" % type(seq).__name__)
                for x in (sorted(seq) if isinstance(seq, (set, frozenset)) else seq):
                    inner = dict(scope)
                    self.bind(g.target, x if not isinstance(x, list) else x, inner)
                    if all(self.ev(c, inner) for c in g.ifs):
                        gen(k + 1, inner)
            gen(0, dict(env))
            if isinstance(n, ast.ListComp):
                return out
            if isinstance(n, ast.SetComp):
                return set(out)
            if isinstance(n, ast.DictComp):
                return dict(out)
            return tuple(out)
        if isinstance(n, ast.Attribute):
            base = self.ev(n.value, env)
            if isinstance(base, Stub) and n.attr in base.attrs:
                return base.attrs[n.attr]
            if isinstance(base, PyRaise) and n.attr == "args":
                return (str(base),)
            if isinstance(base, str) and n.attr in STR_METHODS:
                def bound(*a, s_=base, name=n.attr):
                    a = [list(x) if name == "join" else x for x in a]
                    r = getattr(s_, name)(*a)
                    return tuple(r) if name in ("partition", "rpartition") else r
                return Model("str.%s" % n.attr, bound)
            if isinstance(base, (_dt.datetime, _dt.date, _dt.timedelta)) and n.attr in DATE_ATTRS:
                return getattr(base, n.attr)
            if isinstance(n.value, ast.Name) and n.value.id in ("datetime", "timedelta") and n.value.id not in env and n.attr in ("min", "max"):
                return getattr(getattr(_dt, n.value.id), n.attr)
            import re as _re2
            if isinstance(base, _re2.Pattern) and n.attr == "pattern":
                return base.pattern
            raise AnalysisError("string machine: attribute %s of %s" % (n.attr, type(base).__name__ if not isinstance(base, Stub) else base))
        if isinstance(n, ast.BinOp) and isinstance(n.op, (ast.Add, ast.Sub, ast.Mult, ast.Div, ast.FloorDiv, ast.BitAnd, ast.BitOr, ast.Pow)):
            a, b = self.ev(n.left, env), self.ev(n.right, env)
            if isinstance(a, (Stub, PyRaise)) or isinstance(b, (Stub, PyRaise)):
                raise AnalysisError("string machine: arithmetic on %s" % norm(n)[:60])
            try:
                if isinstance(n.op, ast.Add):
                    return a + b
                if isinstance(n.op, ast.Sub):
                    return a - b
                if isinstance(n.op, ast.Div):
                    return a / b
                if isinstance(n.op, ast.FloorDiv):
                    return a // b
                if isinstance(n.op, ast.BitAnd):
                    return a & b
                if isinstance(n.op, ast.BitOr):
                    return a | b
                if isinstance(n.op, ast.Pow):
                    return a ** b
                return a * b
            except TypeError as e:
                if _plain(a) and _plain(b):
                    raise PyRaise("TypeError", str(e))          # Python's own verdict on two fully modelled values
                raise AnalysisError("string machine: %s (an operation the evaluator models only in part: %s)" % (norm(n)[:60], e))
            except ZeroDivisionError as e:
                raise PyRaise("ZeroDivisionError", str(e))
            except (OverflowError, ValueError) as e:
                raise PyRaise(type(e).__name__, str(e))
        if isinstance(n, ast.BinOp) and isinstance(n.op, ast.Mod):
            a, b = self.ev(n.left, env), self.ev(n.right, env)
            if isinstance(a, str) and isinstance(b, (str, int, float, tuple)):
                try:
                    return a % b
                except TypeError as e:
                    raise AnalysisError("string machine: %s (%s)" % (norm(n)[:60], e))
                except ValueError as e:
                    raise PyRaise(type(e).__name__, str(e))
            if isinstance(a, (int, float)) and isinstance(b, (int, float)):
                return a % b
            raise AnalysisError("string machine: %% of %s and %s" % (type(a).__name__, type(b).__name__))
        if isinstance(n, ast.UnaryOp) and isinstance(n.op, ast.Not):
            return not self.ev(n.operand, env)
        if isinstance(n, ast.UnaryOp) and isinstance(n.op, ast.USub):
            return -self.ev(n.operand, env)
        if isinstance(n, ast.BoolOp):
            v = None
            for x in n.values:
                v = self.ev(x, env)
                if isinstance(n.op, ast.And) and not v:
                    return v
                if isinstance(n.op, ast.Or) and v:
                    return v
            return v
        if isinstance(n, ast.IfExp):
            return self.ev(n.body, env) if self.ev(n.test, env) else self.ev(n.orelse, env)
        if isinstance(n, ast.Compare):
            left = self.ev(n.left, env)
            for op, r in zip(n.ops, n.comparators):
                right = self.ev(r, env)
                ok = {ast.Eq: lambda a, b: a == b, ast.NotEq: lambda a, b: a != b, ast.Lt: lambda a, b: a < b, ast.LtE: lambda a, b: a <= b,
                      ast.Gt: lambda a, b: a > b, ast.GtE: lambda a, b: a >= b, ast.Is: lambda a, b: a is b, ast.IsNot: lambda a, b: a is not b,
                      ast.In: lambda a, b: a in b, ast.NotIn: lambda a, b: a not in b}.get(type(op))
                if ok is None:
                    raise AnalysisError("string machine: comparison %s" % norm(n))
                try:
                    res = ok(left, right)
                except TypeError as e:
                    if _plain(left) and _plain(right):
                        raise PyRaise("TypeError", str(e))
                    raise AnalysisError("string machine: %s (%s)" % (norm(n)[:60], e))
                if not res:
                    return False
                left = right
            return True
        if isinstance(n, ast.Subscript):
            base = self.ev(n.value, env)
            if isinstance(base, Stub) and base.getitem is not None:
                return base.getitem(self.ev(n.slice, env))
            if not isinstance(base, (str, tuple, list, dict)):
                raise AnalysisError("string machine: subscript of %s" % type(base).__name__)
            s = n.slice
            try:
                if isinstance(s, ast.Slice):
                    lo = self.ev(s.lower, env) if s.lower is not None else None
                    hi = self.ev(s.upper, env) if s.upper is not None else None
                    st = self.ev(s.step, env) if s.step is not None else None
                    return base[lo:hi:st]
                return base[self.ev(s, env)]
            except IndexError as e:
                raise PyRaise("IndexError", str(e))
            except KeyError as e:
                raise PyRaise("KeyError", str(e))
            except TypeError as e:
                raise AnalysisError("string machine: %s (an operation the evaluator models only in part: %s)" % (norm(n)[:60], e))
        if isinstance(n, ast.Call) and isinstance(n.func, ast.Attribute) and (all(k.arg for k in n.keywords) or n.func.attr in ("format", "update")):
            kw = {}
            for k in n.keywords:
                if k.arg is None:
                    m_ = self.ev(k.value, env)
                    if not isinstance(m_, dict):
                        raise AnalysisError("string machine: ** of a value that is not a dictionary in %s" % norm(n)[:60])
                    kw.update(m_)
                else:
                    kw[k.arg] = self.ev(k.value, env)
            if n.func.attr in STR_METHODS and (kw or n.func.attr in ("split", "rsplit", "partition", "rpartition", "join", "replace", "find", "rfind", "index", "count", "format", "removeprefix", "removesuffix")):
                base = self.ev(n.func.value, env)
                if isinstance(base, str):
                    args = [self.ev(a, env) for a in n.args]
                    if n.func.attr == "join":
                        args = [list(args[0])] if args else args
                    try:
                        r = getattr(base, n.func.attr)(*args, **kw)
                    except ValueError as e:
                        raise PyRaise("ValueError", str(e))
                    except TypeError as e:
                        raise AnalysisError("string machine: %s (%s)" % (norm(n)[:60], e))
                    except (IndexError, KeyError) as e:
                        raise PyRaise(type(e).__name__, str(e))
                    return tuple(r) if n.func.attr in ("partition", "rpartition") else r
            if not kw or n.func.attr == "update":
                base = None
                try:
                    base = self.ev(n.func.value, env)
                except AnalysisError:
                    base = None
                for ty, names in CONTAINER_METHODS.items():
                    if type(base) is ty and n.func.attr in names and (not kw or ty is dict):
                        args = [self.ev(a, env) for a in n.args]
                        try:
                            r = getattr(base, n.func.attr)(*args, **kw)
                        except TypeError as e:
                            raise AnalysisError("string machine: %s (%s)" % (norm(n)[:60], e))
                        except (ValueError, KeyError) as e:
                            raise PyRaise(type(e).__name__, str(e))
                        return r
        if isinstance(n, ast.Call) and isinstance(n.func, ast.Name) and n.func.id == "isinstance" and "isinstance" not in env and len(n.args) == 2 and not n.keywords:
            v = self.ev(n.args[0], env)
            tys = n.args[1].elts if isinstance(n.args[1], ast.Tuple) else [n.args[1]]
            got = []
            for t_ in tys:
                key = str(norm(t_))
                if key not in TYPES:
                    raise AnalysisError("string machine: isinstance(..., %s)" % key)
                t2 = TYPES[key]
                got.extend(t2 if isinstance(t2, tuple) else [t2])
            return isinstance(v, tuple(got))
        if isinstance(n, ast.Call) and isinstance(n.func, ast.Attribute):
            # a method of the modelled object: the Stub holds the function (core.Func) under the method's name
            recv = None
            if isinstance(n.func.value, ast.Name) and isinstance(env.get(n.func.value.id), Stub):
                recv = env[n.func.value.id]
            if recv is not None and hasattr(recv.attrs.get(n.func.attr), "node"):
                fn_ = recv.attrs[n.func.attr]
                args = [self.ev(a, env) for a in n.args]
                kw = {}
                for k in n.keywords:
                    if k.arg is None:
                        kw.update(self.ev(k.value, env))
                    else:
                        kw[k.arg] = self.ev(k.value, env)
                self.budget -= 50
                if getattr(fn_, "is_static", False):
                    return call(fn_, *args, budget=self.budget, funcs=self.funcs, _raise=True, _globals=self.globs, **kw)
                return call(fn_, recv, *args, budget=self.budget, funcs=self.funcs, _raise=True, _globals=self.globs, **kw)
        if isinstance(n, ast.Call) and isinstance(n.func, ast.Attribute) and not any(k.arg is None for k in n.keywords):
            base_ = None
            try:
                base_ = self.ev(n.func.value, env) if not (isinstance(n.func.value, ast.Name) and n.func.value.id not in env) else None
            except AnalysisError:
                base_ = None
            if isinstance(base_, (_dt.datetime, _dt.date, _dt.timedelta)) and n.func.attr in DATE_METHODS:
                try:
                    return getattr(base_, n.func.attr)(*[self.ev(a, env) for a in n.args], **{k.arg: self.ev(k.value, env) for k in n.keywords})
                except TypeError as e:
                    raise AnalysisError("string machine: %s (%s)" % (norm(n)[:60], e))
                except (ValueError, OverflowError) as e:
                    raise PyRaise(type(e).__name__, str(e))
        if isinstance(n, ast.Call) and isinstance(n.func, ast.Name) and n.func.id in ("datetime", "timedelta") and n.func.id not in env \
                and n.func.id not in self.funcs:
            args = [self.ev(a, env) for a in n.args]
            kw = {}
            for k in n.keywords:
                if k.arg is None:
                    m_ = self.ev(k.value, env)
                    if not isinstance(m_, dict):
                        raise AnalysisError("string machine: ** of a value that is not a dictionary in %s" % norm(n)[:60])
                    kw.update(m_)
                else:
                    kw[k.arg] = self.ev(k.value, env)
            try:
                return BUILTINS[n.func.id](*args, **kw)
            except (ValueError, OverflowError, TypeError) as e:
                raise PyRaise(type(e).__name__, str(e))
        if isinstance(n, ast.Call) and isinstance(n.func, ast.Name) and callable(self.funcs.get(n.func.id)) and not hasattr(self.funcs.get(n.func.id), "node") \
                and n.func.id not in env:
            # a model of a library / utility function handed in by the rule (to_datetime on datetimes: the identity)
            return self.funcs[n.func.id](*[self.ev(a, env) for a in n.args], **{k.arg: self.ev(k.value, env) for k in n.keywords if k.arg})
        if isinstance(n, ast.Call) and isinstance(n.func, ast.Name) and n.func.id in self.funcs and n.func.id not in env and all(k.arg for k in n.keywords):
            r = call(self.funcs[n.func.id], *[self.ev(a, env) for a in n.args], budget=self.budget, funcs=self.funcs, _raise=True, _globals=self.globs,
                     **{k.arg: self.ev(k.value, env) for k in n.keywords})
            self.budget -= 50
            return r
        if isinstance(n, ast.Call) and isinstance(n.func, ast.Attribute) and n.func.attr == "fromkeys" and isinstance(n.func.value, ast.Name) \
                and n.func.value.id == "dict" and "dict" not in env and not n.keywords and len(n.args) in (1, 2):
            args = [self.ev(a, env) for a in n.args]
            return dict.fromkeys(*args)
        if isinstance(n, ast.Call) and isinstance(n.func, ast.Name) and n.func.id == "dict" and "dict" not in env and n.keywords:
            out = dict(self.ev(n.args[0], env)) if len(n.args) == 1 else {}
            if len(n.args) > 1:
                raise AnalysisError("string machine: dict(...) with %d positional arguments" % len(n.args))
            for k in n.keywords:
                if k.arg is None:
                    m_ = self.ev(k.value, env)
                    if not isinstance(m_, dict):
                        raise AnalysisError("string machine: ** of a value that is not a dictionary in %s" % norm(n)[:60])
                    out.update(m_)
                else:
                    out[k.arg] = self.ev(k.value, env)
            return out
        if isinstance(n, ast.Call) and not n.keywords and len(n.args) <= 1 and isinstance(n.func, (ast.Name, ast.Attribute)) \
                and (n.func.id if isinstance(n.func, ast.Name) else n.func.attr) == "OrderedDict" and "OrderedDict" not in env:
            return dict(self.ev(n.args[0], env)) if n.args else {}          # (insertion order is the order of a dict)
        if isinstance(n, ast.Call) and not n.keywords and len(n.args) <= 1 and isinstance(n.func, (ast.Name, ast.Attribute)) \
                and (n.func.id if isinstance(n.func, ast.Name) else n.func.attr) == "deque" and "deque" not in env:
            import collections as _c2
            return _c2.deque(self.ev(n.args[0], env)) if n.args else _c2.deque()
        if isinstance(n, ast.Call) and not n.keywords and len(n.args) <= 1 and "Counter" not in env and \
                ((isinstance(n.func, ast.Name) and n.func.id == "Counter") or (isinstance(n.func, ast.Attribute) and n.func.attr == "Counter"
                                                                               and isinstance(n.func.value, ast.Name) and n.func.value.id == "collections")):
            import collections as _c
            return dict(_c.Counter(self.ev(n.args[0], env))) if n.args else {}      # (first-seen order, counts; missing keys are not modelled)
        if isinstance(n, ast.Call) and isinstance(n.func, ast.Name) and n.func.id == "sorted" and "sorted" not in env and len(n.args) == 1 \
                and all(k.arg == "reverse" for k in n.keywords):
            return sorted(self.ev(n.args[0], env), **{k.arg: self.ev(k.value, env) for k in n.keywords})
        if isinstance(n, ast.Call) and not n.keywords:
            if isinstance(n.func, ast.Name) and n.func.id in BUILTINS and n.func.id not in env:
                args = [self.ev(a, env) for a in n.args]
                if n.func.id in ("enumerate", "zip", "reversed", "range"):
                    try:
                        return tuple(BUILTINS[n.func.id](*args))
                    except TypeError as e:
                        raise AnalysisError("string machine: %s (an operation the evaluator models only in part: %s)" % (norm(n)[:60], e))
                try:
                    return BUILTINS[n.func.id](*args)
                except ValueError as e:
                    raise PyRaise("ValueError", str(e))
                except TypeError as e:
                    raise AnalysisError("string machine: %s (an operation the evaluator models only in part: %s)" % (norm(n)[:60], e))
            if isinstance(n.func, ast.Attribute) and n.func.attr in STR_METHODS:
                base = self.ev(n.func.value, env)
                if not isinstance(base, str):
                    raise AnalysisError("string machine: method %s of %s" % (n.func.attr, type(base).__name__))
                args = [self.ev(a, env) for a in n.args]
                try:
                    return getattr(base, n.func.attr)(*args)
                except TypeError as e:
                    raise AnalysisError("string machine: %s (an operation the evaluator models only in part: %s)" % (norm(n)[:60], e))
        # regular expressions of the standard library: the pattern is a constant of the source, the engine is Python's own
        if isinstance(n, ast.Call) and not n.keywords and isinstance(n.func, ast.Attribute):
            import re as _re
            if isinstance(n.func.value, ast.Name) and n.func.value.id == "re" and "re" not in env:
                args = [self.ev(a, env) for a in n.args]
                if n.func.attr == "compile" and len(args) in (1, 2) and isinstance(args[0], str):
                    try:
                        return _re.compile(*args)
                    except _re.error as e:
                        raise PyRaise("re.error", str(e))
                if n.func.attr in ("search", "match", "fullmatch", "findall") and len(args) == 2 and all(isinstance(a, str) for a in args):
                    try:
                        return getattr(_re, n.func.attr)(*args)
                    except _re.error as e:
                        raise PyRaise("re.error", str(e))
                if n.func.attr == "escape" and len(args) == 1 and isinstance(args[0], str):
                    return _re.escape(args[0])
                if n.func.attr == "sub" and len(args) == 3 and all(isinstance(a, str) for a in args):
                    return _re.sub(*args)
                if n.func.attr == "split" and len(args) == 2 and all(isinstance(a, str) for a in args):
                    return _re.split(*args)
                raise AnalysisError("string machine: re.%s" % n.func.attr)
            base = self.ev(n.func.value, env)
            if isinstance(base, _re.Pattern) and n.func.attr in ("search", "match", "fullmatch", "findall", "sub", "split"):
                args = [self.ev(a, env) for a in n.args]
                if args and all(isinstance(a, str) for a in args):
                    return getattr(base, n.func.attr)(*args)
            if isinstance(base, _re.Match) and n.func.attr == "groupdict" and not n.args:
                return base.groupdict()
            if isinstance(base, _re.Match) and n.func.attr in ("group", "groups", "start", "end", "span"):
                args = [self.ev(a, env) for a in n.args]
                try:
                    return getattr(base, n.func.attr)(*args)
                except IndexError as e:
                    raise PyRaise("IndexError", str(e))
            if base is None:
                raise PyRaise("AttributeError", "NoneType has no attribute %s" % n.func.attr)
        if isinstance(n, ast.JoinedStr):
            out = ""
            for v in n.values:
                if isinstance(v, ast.Constant):
                    out += str(v.value)
                elif isinstance(v, ast.FormattedValue):
                    val = self.ev(v.value, env)
                    if isinstance(val, (Stub, PyRaise)):
                        raise AnalysisError("string machine: formatted %s" % type(val).__name__)
                    if v.conversion == 115:
                        val = str(val)
                    elif v.conversion == 114:
                        val = repr(val)
                    elif v.conversion != -1:
                        raise AnalysisError("string machine: conversion in %s" % norm(n)[:60])
                    spec = self.ev(v.format_spec, env) if v.format_spec is not None else ""
                    try:
                        out += format(val, spec)
                    except TypeError as e:
                        raise AnalysisError("string machine: %s (%s)" % (norm(n)[:60], e))
                    except ValueError as e:
                        raise PyRaise(type(e).__name__, str(e))
                else:
                    raise AnalysisError("string machine: formatted string %s" % norm(n)[:60])
            return out
        raise AnalysisError("string machine: expression `%s` is outside the class (strings, numbers, slices, float / len / str methods)" % norm(n)[:80])

    # -- statements ------------------------------------------------------------------
    def bind(self, t, v, env):
        if isinstance(t, ast.Name):
            env[t.id] = v
        elif isinstance(t, (ast.Tuple, ast.List)):
            if not isinstance(v, (tuple, list)):
                raise PyRaise("TypeError", "cannot unpack")
            stars = [i for i, e in enumerate(t.elts) if isinstance(e, ast.Starred)]
            if len(stars) == 1:
                i = stars[0]
                after = len(t.elts) - i - 1
                if len(v) < len(t.elts) - 1:
                    raise PyRaise("ValueError", "unpack")
                for a, b in zip(t.elts[:i], v[:i]):
                    self.bind(a, b, env)
                self.bind(t.elts[i].value, list(v[i:len(v) - after]), env)
                for a, b in zip(t.elts[i + 1:], v[len(v) - after:] if after else []):
                    self.bind(a, b, env)
                return
            if stars or len(v) != len(t.elts):
                raise PyRaise("ValueError", "unpack")
            for a, b in zip(t.elts, v):
                self.bind(a, b, env)
        else:
            raise AnalysisError("string machine: assignment target %s" % norm(t))

    def block(self, stmts, env):
        for st in stmts:
            self.stmt(st, env)

    def stmt(self, st, env):
        self.tick()
        if isinstance(st, ast.Expr) and isinstance(st.value, ast.Constant):
            return
        if isinstance(st, ast.Pass):
            return
        if isinstance(st, ast.Expr) and isinstance(st.value, ast.Call):
            self.ev(st.value, env)          # list.append / set.add / dict.update on a container the function created
            return
        if isinstance(st, ast.Assign) and len(st.targets) == 1 and isinstance(st.targets[0], ast.Attribute):
            box = self.ev(st.targets[0].value, env)
            if not isinstance(box, Stub):
                raise AnalysisError("string machine: attribute store on %s" % type(box).__name__)
            box.attrs[st.targets[0].attr] = self.ev(st.value, env)
            return
        if isinstance(st, ast.Assign) and len(st.targets) == 1 and isinstance(st.targets[0], ast.Subscript):
            box = self.ev(st.targets[0].value, env)
            if not isinstance(box, (dict, list)):
                raise AnalysisError("string machine: store into %s" % type(box).__name__)
            try:
                box[self.ev(st.targets[0].slice, env)] = self.ev(st.value, env)
            except TypeError as e:
                raise AnalysisError("string machine: store %s (%s)" % (norm(st)[:60], e))
            except IndexError as e:
                raise PyRaise(type(e).__name__, str(e))
            return
        if isinstance(st, ast.Assign):
            v = self.ev(st.value, env)
            for t in st.targets:
                self.bind(t, v, env)
            return
        if isinstance(st, ast.AugAssign) and isinstance(st.target, ast.Name) and isinstance(st.op, (ast.Add, ast.Sub)):
            cur = self.ev(ast.Name(id=st.target.id, ctx=ast.Load()), env)
            v = self.ev(st.value, env)
            try:
                env[st.target.id] = cur + v if isinstance(st.op, ast.Add) else cur - v
            except TypeError as e:
                if _plain(cur) and _plain(v):
                    raise PyRaise("TypeError", str(e))
                raise AnalysisError("string machine: %s (%s)" % (norm(st)[:60], e))
            except (OverflowError, ValueError) as e:
                raise PyRaise(type(e).__name__, str(e))
            return
        if isinstance(st, ast.If):
            self.block(st.body if self.ev(st.test, env) else st.orelse, env)
            return
        if isinstance(st, ast.While):
            broke = False
            while self.ev(st.test, env):
                try:
                    self.block(st.body, env)
                except _Break:
                    broke = True
                    break
                except _Continue:
                    continue
            if not broke:
                self.block(st.orelse, env)
            return
        if isinstance(st, ast.For):
            seq = self.ev(st.iter, env)
            if not isinstance(seq, (str, tuple, list, set, frozenset, dict, type({}.keys()), type({}.values()), type({}.items()))):
                raise AnalysisError("string machine: loop over %s" % type(seq).__name__)
            broke = False
            for x in (sorted(seq) if isinstance(seq, (set, frozenset)) else list(seq)):
                self.bind(st.target, x, env)
                try:
                    self.block(st.body, env)
                except _Break:
                    broke = True
                    break
                except _Continue:
                    continue
            if not broke:
                self.block(st.orelse, env)
            return
        if isinstance(st, ast.Try):
            if st.finalbody:
                raise AnalysisError("string machine: try/finally")
            try:
                self.block(st.body, env)
            except PyRaise as e:
                for h in st.handlers:
                    names = []
                    if h.type is None:
                        names = ["Exception"]
                    elif isinstance(h.type, ast.Name):
                        names = [h.type.id]
                    elif isinstance(h.type, ast.Tuple) and all(isinstance(x, ast.Name) for x in h.type.elts):
                        names = [x.id for x in h.type.elts]
                    else:
                        raise AnalysisError("string machine: handler type %s" % norm(h.type))
                    for nm in names:
                        if nm not in HIERARCHY:
                            raise AnalysisError("string machine: handler for %s" % nm)
                    if any(e.kind in HIERARCHY[nm] for nm in names):
                        if h.name:
                            env[h.name] = e
                        prev = env.get("<exc>")
                        env["<exc>"] = e
                        try:
                            self.block(h.body, env)
                        finally:
                            env["<exc>"] = prev
                        return
                raise
            else:
                self.block(st.orelse, env)
            return
        if isinstance(st, ast.Break):
            raise _Break()
        if isinstance(st, ast.Continue):
            raise _Continue()
        if isinstance(st, ast.Return):
            raise _Return(self.ev(st.value, env) if st.value is not None else None)
        if isinstance(st, ast.Raise) and st.exc is None:
            cur = env.get("<exc>")
            if cur is None:
                raise AnalysisError("string machine: bare raise outside a handler")
            raise cur
        if isinstance(st, ast.Raise):
            nm = None
            if isinstance(st.exc, ast.Call) and isinstance(st.exc.func, ast.Name):
                nm = st.exc.func.id
            elif isinstance(st.exc, ast.Name):
                nm = st.exc.id
            raise PyRaise(nm or "Exception", "raised")
        raise AnalysisError("string machine: statement `%s` is outside the class" % norm(st)[:80])


def call(func, *args, budget=20000, funcs=None, _raise=False, _globals=None, **kwargs):
    """value returned by func (core.Func) for the given argument values; ('raises', kind) when the modelled program raises"""
    params = func.params
    if len(args) > len(params):
        raise AnalysisError("string machine: %s takes %d arguments" % (func.qualname, len(params)))
    env = dict(_globals or {})
    env.update(zip(params, args))
    env.update(kwargs)
    m0 = Machine(budget, funcs, _globals)
    for p_, d_ in func.defaults().items():
        if p_ not in env:
            env[p_] = m0.ev(d_, {})
    if set(params) - set(env):
        raise AnalysisError("string machine: arguments %s of %s not given" % (sorted(set(params) - set(env)), func.qualname))
    m = Machine(budget, funcs, _globals)
    try:
        m.block(func.body, env)
    except _Return as r:
        return r.value
    except PyRaise as e:
        if _raise:
            raise
        return ("raises", e.kind)
    except (_Break, _Continue):
        raise AnalysisError("string machine: break / continue outside a loop")
    return None
