"""Structural normalisation of a function before the rules look at it, so that behaviour-preserving
refactorings map onto the form the rules know:

1. calls to *new* private helpers (functions that do not exist in the snapshot of the pinned tree,
   `known_funcs.json`, and nested helper functions) are inlined - at expression level when the helper
   is a straight-line `return <expr>`, at statement level when the call is a statement of its own;
2. `if c: ...; return/raise/continue` followed by `else:` is flattened (the else body follows the if);
3. nothing else: temporaries are resolved at query time by flow.resolve, expression spelling by canon.

Every step preserves the behaviour of the function; a helper that cannot be inlined safely is left as a
call (the rules then see an unknown call and answer ANALYSIS-ERROR, never a violation).
"""
import ast
import json
import os
from .core import clone, norm, dotted

_KNOWN = None


def known_funcs():
    global _KNOWN
    if _KNOWN is None:
        p = os.path.join(os.path.dirname(os.path.abspath(__file__)), "known_funcs.json")
        with open(p) as fh:
            _KNOWN = {k: set(v) for k, v in json.load(fh).items()}
    return _KNOWN


def _strip_doc(body):
    if body and isinstance(body[0], ast.Expr) and isinstance(body[0].value, ast.Constant) and isinstance(body[0].value.value, str):
        return body[1:]
    return body


def _params(fn, drop_self):
    a = fn.args
    names = [x.arg for x in a.posonlyargs + a.args]
    if drop_self and names and names[0] in ("self", "cls"):
        names = names[1:]
    defaults = {}
    pos = [x.arg for x in a.posonlyargs + a.args]
    for pn, d in zip(pos[len(pos) - len(a.defaults):], a.defaults):
        defaults[pn] = d
    npos = len(names)
    if a.vararg:
        # *rest collects the surplus positional arguments: bound to a tuple display of them
        if a.kwonlyargs or a.kwarg:
            return None, None
        names.append(a.vararg.arg)
        defaults["*rest"] = a.vararg.arg
        defaults["*npos"] = npos
        return names, defaults
    for x, d in zip(a.kwonlyargs, a.kw_defaults):
        names.append(x.arg)
        if d is not None:
            defaults[x.arg] = d
    if a.kwonlyargs:
        defaults["*npos"] = npos
    if a.kwarg:
        # **extra collects the keywords that name no parameter: bound to a dict display of them
        names.append(a.kwarg.arg)
        defaults["**"] = a.kwarg.arg
        defaults.setdefault("*npos", npos)
    return names, defaults


def _bind(call, names, defaults):
    if any(isinstance(x, ast.Starred) for x in call.args) or any(k.arg is None for k in call.keywords):
        return None
    rest = defaults.get("*rest")
    if rest is not None:
        npos = defaults["*npos"]
        if call.keywords and any(k.arg == rest for k in call.keywords):
            return None
        m = {}
        for n, a in zip(names[:npos], call.args[:npos]):
            m[n] = a
        m[rest] = ast.Tuple(elts=list(call.args[npos:]), ctx=ast.Load())
        for k in call.keywords:
            if k.arg in m or k.arg not in names[:npos]:
                return None
            m[k.arg] = k.value
        for n in names[:npos]:
            if n not in m:
                if n in defaults:
                    m[n] = defaults[n]
                else:
                    return None
        return m
    if len(call.args) > defaults.get("*npos", len(names)):
        return None
    m = {}
    extra = []
    kwname = defaults.get("**")
    for n, a in zip(names, call.args):
        m[n] = a
    for k in call.keywords:
        if k.arg in m or k.arg == kwname and kwname is not None:
            return None
        if k.arg not in names:
            if kwname is None:
                return None
            extra.append(k)
            continue
        m[k.arg] = k.value
    if kwname is not None:
        m[kwname] = ast.Dict(keys=[ast.Constant(k.arg) for k in extra], values=[k.value for k in extra])
    for n in names:
        if n not in m:
            if n in defaults:
                m[n] = defaults[n]
            else:
                return None
    return m


class _Subst(ast.NodeTransformer):
    def __init__(self, mapping):
        self.m = mapping

    def visit_Name(self, n):
        if isinstance(n.ctx, ast.Load) and n.id in self.m:
            return clone(self.m[n.id])
        return n

    def visit_Lambda(self, n):
        return n


def _simple_arg(a):
    return isinstance(a, (ast.Name, ast.Constant)) or (isinstance(a, ast.Attribute) and _simple_arg(a.value)) or (
        isinstance(a, ast.Subscript) and _simple_arg(a.value)) or (isinstance(a, ast.UnaryOp) and _simple_arg(a.operand))


def _returns_to_ifexp(stmts):
    """[if c: return a] ... return z   /   if c: return a else: return b   ->   one expression, or None"""
    if not stmts:
        return None
    st = stmts[0]
    if isinstance(st, ast.Return):
        return clone(st.value) if st.value is not None and len(stmts) == 1 else None
    if isinstance(st, ast.If):
        a = _returns_to_ifexp(st.body)
        if a is None:
            return None
        if st.orelse:
            if len(stmts) != 1:
                return None
            b = _returns_to_ifexp(st.orelse)
        else:
            b = _returns_to_ifexp(stmts[1:])
        if b is None:
            return None
        return ast.IfExp(test=clone(st.test), body=a, orelse=b)
    return None


def _expr_helper(fn, drop_self):
    """helper of the form [name = expr]* return expr  -> (param names, defaults, lambda mapping -> expr) or None"""
    body = _strip_doc(fn.body)
    names, defaults = _params(fn, drop_self)
    if names is None or not body:
        return None
    # a tail that only decides which value to return (guard clauses / if-else of returns) is one conditional expression
    k = len(body)
    while k > 0 and isinstance(body[k - 1], (ast.If, ast.Return)):
        k -= 1
    if k < len(body) - 1 or (k == len(body) - 1 and isinstance(body[-1], ast.If)):
        tail = _returns_to_ifexp(body[k:])
        if tail is None:
            return None
        body = list(body[:k]) + [ast.copy_location(ast.Return(value=tail), body[k])]
    if not isinstance(body[-1], ast.Return) or body[-1].value is None:
        return None
    for st in body[:-1]:
        if not (isinstance(st, ast.Assign) and len(st.targets) == 1 and isinstance(st.targets[0], ast.Name)):
            return None
    # no name assigned twice, no assignment to a parameter
    assigned = [st.targets[0].id for st in body[:-1]]
    if len(set(assigned)) != len(assigned) or set(assigned) & set(names):
        return None
    for n in ast.walk(fn):
        if isinstance(n, (ast.Yield, ast.YieldFrom, ast.Await, ast.Lambda, ast.NamedExpr)):
            return None
    return names, defaults, body


def _count_uses(node, name):
    return sum(1 for n in ast.walk(node) if isinstance(n, ast.Name) and n.id == name and isinstance(n.ctx, ast.Load))


def _inline_expr(call, helper):
    names, defaults, body = helper
    m = _bind(call, names, defaults)
    if m is None:
        return None
    # an argument that is not simple may only be used once in the helper (no duplication of work / effects)
    whole = ast.Module(body=body, type_ignores=[])
    for p, a in m.items():
        if not _simple_arg(a) and _count_uses(whole, p) > 1:
            return None
    env = dict(m)
    for st in body[:-1]:
        val = _Subst(env).visit(clone(st.value))
        if not _simple_arg(val) and _count_uses(ast.Module(body=body[body.index(st) + 1:], type_ignores=[]), st.targets[0].id) > 1:
            return None
        env[st.targets[0].id] = val
    return _Subst(env).visit(clone(body[-1].value))


class _NoInline(Exception):
    pass


def _walk_own(node):
    """ast.walk that does not enter nested function definitions / lambdas"""
    todo = [node]
    first = True
    while todo:
        n = todo.pop()
        if not first and isinstance(n, (ast.FunctionDef, ast.AsyncFunctionDef, ast.Lambda)):
            continue
        first = False
        yield n
        todo.extend(ast.iter_child_nodes(n))


def _has_return(stmts):
    for st in stmts:
        if isinstance(st, (ast.FunctionDef, ast.AsyncFunctionDef)):
            continue
        for n in _walk_own(st):
            if isinstance(n, ast.Return):
                return True
    return False


def _elim_returns(stmts, result_name):
    """Rewrite a statement list so that no `return` is left: `return X` becomes `<result> = X` and the
    statements after an `if` that returns are moved into the branches that fall through."""
    out = []
    for i, st in enumerate(stmts):
        rest = stmts[i + 1:]
        if isinstance(st, ast.Return):
            if result_name is not None:
                out.append(ast.copy_location(ast.Assign(targets=[ast.Name(id=result_name, ctx=ast.Store())],
                                                        value=st.value if st.value is not None else ast.Constant(None)), st))
            return out, True
        if isinstance(st, ast.If) and _has_return([st]):
            b, bret = _elim_returns(st.body, result_name)
            o, oret = _elim_returns(st.orelse, result_name)
            r1, r1ret = _elim_returns([clone(x) for x in rest], result_name) if not bret else ([], True)
            r2, r2ret = _elim_returns([clone(x) for x in rest], result_name) if not oret else ([], True)
            new = ast.copy_location(ast.If(test=st.test, body=(b + r1) or [ast.Pass()], orelse=o + r2), st)
            out.append(new)
            return out, (bret or r1ret) and (oret or r2ret)
        if isinstance(st, (ast.With, ast.AsyncWith)) and _has_return([st]):
            # a `with` all of whose paths end in a return: the value is bound inside, the context is left right after
            inner, iret = _elim_returns(st.body, result_name)
            if not iret:
                raise _NoInline()
            out.append(ast.copy_location(type(st)(items=st.items, body=inner or [ast.Pass()]), st))
            return out, True
        if _has_return([st]):
            raise _NoInline()      # return inside a loop / try
        out.append(st)
    return out, False


def _stmt_helper(fn, drop_self, generator=False):
    """helper usable at statement level: returns only at the end of (nested) if branches, no yield
    (generator=True: a generator helper delegated to with `yield from helper(...)` as a whole statement - its body, yields included,
    stands for the delegation when it returns no value)"""
    body = _strip_doc(fn.body)
    names, defaults = _params(fn, drop_self)
    if names is None:
        return None
    for n in _walk_own(fn):
        if isinstance(n, (ast.Await, ast.Global, ast.Nonlocal)):
            return None
        if isinstance(n, (ast.Yield, ast.YieldFrom)) and not generator:
            return None
        if generator and isinstance(n, ast.Return) and n.value is not None:
            return None
    if generator and not any(isinstance(n, (ast.Yield, ast.YieldFrom)) for n in _walk_own(fn)):
        return None
    try:
        _elim_returns([clone(b) for b in body], "_r")
    except _NoInline:
        return None
    return names, defaults, body


def _tail_helper(fn, drop_self):
    """helper that stands behind a `return`: no yield, no await, no global; its returns may be anywhere"""
    body = _strip_doc(fn.body)
    names, defaults = _params(fn, drop_self)
    if names is None or not body:
        return None
    for n in _walk_own(fn):
        if isinstance(n, (ast.Await, ast.Global, ast.Nonlocal, ast.Yield, ast.YieldFrom)):
            return None
    return names, defaults, body


class _Rename(ast.NodeTransformer):
    def __init__(self, mapping):
        self.m = mapping

    def visit_Name(self, n):
        if n.id in self.m:
            return ast.copy_location(ast.Name(id=self.m[n.id], ctx=n.ctx), n)
        return n


def _inline_stmt(st, call, helper, counter):
    """st is Expr(call) | Assign(targets, call) | Return(call) | AugAssign? -> list of statements or None"""
    names, defaults, body = helper
    m = _bind(call, names, defaults)
    if m is None:
        return None
    prefix = "_h%d_" % counter
    local = set()
    for b in body:
        if isinstance(b, (ast.FunctionDef, ast.AsyncFunctionDef)):
            continue            # nested helper definitions keep their names (and their own scopes)
        comp_bound = set()
        for n in _walk_own(b):
            if isinstance(n, ast.comprehension):
                for t in ast.walk(n.target):
                    if isinstance(t, ast.Name):
                        comp_bound.add(id(t))
        for n in _walk_own(b):
            if isinstance(n, ast.Name) and isinstance(n.ctx, (ast.Store, ast.Del)) and id(n) not in comp_bound:
                local.add(n.id)
            elif isinstance(n, ast.ExceptHandler) and n.name:
                local.add(n.name)
            elif isinstance(n, (ast.ListComp, ast.SetComp, ast.DictComp, ast.GeneratorExp)):
                pass
    ren = {}
    out = []
    for p in names:
        a = m[p]
        if _simple_arg(a) and p not in local:
            continue
        ren[p] = prefix + p
        out.append(ast.Assign(targets=[ast.Name(id=prefix + p, ctx=ast.Store())], value=clone(a)))
    for v in local:
        if v not in ren:
            ren[v] = prefix + v
    sub = {p: m[p] for p in names if p not in ren}
    res = prefix + "result"
    need_value = isinstance(st, (ast.Assign, ast.Return)) or (isinstance(st, ast.Expr) and False)
    tail_call = False
    try:
        flat, _ = _elim_returns([clone(b) for b in body], res if need_value else None)
    except _NoInline:
        # `return helper(...)`: whatever the helper returns, the caller returns - its body stands in place of the statement with its own
        # `return`s (also from inside loops), provided it is not a generator
        if isinstance(st, ast.Return) and st.value is call and not any(isinstance(n, (ast.Yield, ast.YieldFrom)) for b in body for n in _walk_own(b)):
            flat = [clone(b) for b in body]
            last = flat[-1] if flat else None
            if not isinstance(last, (ast.Return, ast.Raise)):
                flat.append(ast.Return(value=ast.Constant(value=None)))
            tail_call = True
        else:
            return None
    new_body = []
    for b in flat:
        nb = _Rename(ren).visit(_Subst(sub).visit(b))
        new_body.append(nb)
    if need_value and not tail_call:
        # a single trailing `<result> = X` is folded into the receiving statement
        if new_body and isinstance(new_body[-1], ast.Assign) and isinstance(new_body[-1].targets[0], ast.Name) \
                and new_body[-1].targets[0].id == res and not any(isinstance(n, ast.Name) and n.id == res for b in new_body[:-1] for n in ast.walk(b)):
            val = new_body.pop().value
            if isinstance(st, ast.Assign):
                new_body.append(ast.Assign(targets=[clone(t) for t in st.targets], value=val))
            else:
                new_body.append(ast.Return(value=val))
        else:
            # several result assignments (branches): rename the result to the receiving name when that is a plain name
            if isinstance(st, ast.Assign) and len(st.targets) == 1 and isinstance(st.targets[0], ast.Name):
                new_body = [_Rename({res: st.targets[0].id}).visit(b) for b in new_body]
            elif isinstance(st, ast.Assign) and _spread_tuple_result(new_body, res, st, prefix):
                pass
            elif isinstance(st, ast.Assign):
                new_body.append(ast.Assign(targets=[clone(t) for t in st.targets], value=ast.Name(id=res, ctx=ast.Load())))
            else:
                new_body.append(ast.Return(value=ast.Name(id=res, ctx=ast.Load())))
    out.extend(new_body)
    for s in out:
        ast.copy_location(s, st)
        for n in ast.walk(s):
            if not hasattr(n, "lineno"):
                n.lineno = getattr(st, "lineno", 1)
                n.col_offset = getattr(st, "col_offset", 0)
    return out


def _spread_tuple_result(new_body, res, st, prefix):
    """a, b, c = helper(...) where every return of the helper is a display of three values: each `<result> = (x, y, z)` becomes
    a = x; b = y; c = z in place (the values of one return must not read the receiving names: the assignment was simultaneous)"""
    if not (len(st.targets) == 1 and isinstance(st.targets[0], (ast.Tuple, ast.List)) and all(isinstance(e, ast.Name) for e in st.targets[0].elts)):
        return False
    tnames = [e.id for e in st.targets[0].elts]
    if len(set(tnames)) != len(tnames):
        return False
    sites = []
    for owner in [ast.Module(body=new_body, type_ignores=[])] + [n for b in new_body for n in ast.walk(b)]:
        for fld in ("body", "orelse", "finalbody"):
            blk = getattr(owner, fld, None)
            if isinstance(blk, list) and blk and isinstance(blk[0], ast.stmt):
                for k, b in enumerate(blk):
                    if isinstance(b, ast.Assign) and len(b.targets) == 1 and isinstance(b.targets[0], ast.Name) and b.targets[0].id == res:
                        sites.append((owner, fld, b))
        if isinstance(owner, ast.Try):
            for h in owner.handlers:
                for b in h.body:
                    if isinstance(b, ast.Assign) and len(b.targets) == 1 and isinstance(b.targets[0], ast.Name) and b.targets[0].id == res:
                        sites.append((h, "body", b))
    uses = [n for b in new_body for n in ast.walk(b) if isinstance(n, ast.Name) and n.id == res]
    if not sites or len(uses) != len(sites):
        return False
    for _, _, b in sites:
        v = b.value
        if not (isinstance(v, ast.Tuple) and len(v.elts) == len(tnames) and not any(isinstance(e, ast.Starred) for e in v.elts)):
            return False
        read = {n.id for e in v.elts for n in ast.walk(e) if isinstance(n, ast.Name)}
        if read & set(tnames):
            # (regex, white_list, black_list) returned under the receiving names themselves is fine when each element IS its own target
            if not all((isinstance(e, ast.Name) and e.id == t) or not ({n.id for n in ast.walk(e) if isinstance(n, ast.Name)} & set(tnames))
                       for e, t in zip(v.elts, tnames)):
                return False
    # the helper's own locals were renamed with a prefix, so the receiving names cannot be written inside the inlined body
    for b in new_body:
        for n in ast.walk(b):
            if isinstance(n, ast.Name) and isinstance(n.ctx, ast.Store) and n.id in tnames:
                return False
    # a local of the helper that is returned in position k and nowhere else stands for the k-th receiving name: it takes that name
    # (nothing of the helper runs after one of its returns, so the shared name cannot be observed in between)
    loads = {n.id for b in new_body for n in ast.walk(b) if isinstance(n, ast.Name)}
    ren = {}
    for _, _, b in sites:
        for t, e in zip(tnames, b.value.elts):
            if isinstance(e, ast.Name) and e.id.startswith(prefix) and t not in loads:
                if ren.get(e.id, t) != t or (t in ren.values() and ren.get(e.id) != t):
                    ren[e.id] = None
                else:
                    ren[e.id] = t
    ren = {k: v for k, v in ren.items() if v is not None}
    for owner, fld, b in sites:
        blk = new_body if isinstance(owner, ast.Module) else getattr(owner, fld)
        k = blk.index(b)
        repl = [ast.Assign(targets=[ast.Name(id=t, ctx=ast.Store())], value=e) for t, e in zip(tnames, b.value.elts)
                if not (isinstance(e, ast.Name) and (e.id == t or ren.get(e.id) == t))]
        blk[k:k + 1] = repl or [ast.Pass()]
    if ren:
        for b in new_body:
            for n in ast.walk(b):
                if isinstance(n, ast.Name) and n.id in ren:
                    n.id = ren[n.id]
    return True


def _flatten_else(stmts):
    out = []
    for st in stmts:
        for fld in ("body", "orelse", "finalbody"):
            sub = getattr(st, fld, None)
            if isinstance(sub, list) and sub and isinstance(sub[0], ast.stmt) and not isinstance(st, (ast.FunctionDef, ast.AsyncFunctionDef, ast.ClassDef)):
                setattr(st, fld, _flatten_else(sub))
        if isinstance(st, ast.Try):
            for h in st.handlers:
                h.body = _flatten_else(h.body)
        if isinstance(st, ast.If) and st.orelse and st.body and isinstance(st.body[-1], (ast.Return, ast.Raise, ast.Continue, ast.Break)) \
                and not (len(st.orelse) == 1 and isinstance(st.orelse[0], ast.If) and False):
            tail = st.orelse
            st.orelse = []
            out.append(st)
            out.extend(tail)
        else:
            out.append(st)
    return out


KNOWN_LENGTHS = {"times": 2}      # attributes that always hold a sequence of this length (FileInfo.times = [start, end])
MAX_UNROLL = 4


def _iter_items(it):
    """the elements a small, statically known iterable yields, as expressions - or None"""
    if isinstance(it, (ast.Tuple, ast.List)):
        if len(it.elts) <= MAX_UNROLL and not any(isinstance(e, ast.Starred) for e in it.elts):
            return list(it.elts)
        return None
    if isinstance(it, ast.Attribute) and it.attr in KNOWN_LENGTHS:
        return [ast.Subscript(value=clone(it), slice=ast.Constant(value=k), ctx=ast.Load()) for k in range(KNOWN_LENGTHS[it.attr])]
    if isinstance(it, ast.Call) and isinstance(it.func, ast.Name) and not it.keywords:
        if it.func.id == "range" and len(it.args) == 1 and isinstance(it.args[0], ast.Constant) and isinstance(it.args[0].value, int) \
                and 0 <= it.args[0].value <= MAX_UNROLL:
            return [ast.Constant(value=k) for k in range(it.args[0].value)]
        if it.func.id == "enumerate" and len(it.args) == 1:
            inner = _iter_items(it.args[0])
            if inner is None:
                return None
            return [ast.Tuple(elts=[ast.Constant(value=k), e], ctx=ast.Load()) for k, e in enumerate(inner)]
        if it.func.id == "zip" and it.args:
            cols = [_iter_items(a) for a in it.args]
            if any(c is None for c in cols) or len({len(c) for c in cols}) != 1:
                return None
            return [ast.Tuple(elts=list(row), ctx=ast.Load()) for row in zip(*cols)]
    return None


def _bind_target(target, item, mapping):
    if isinstance(target, ast.Name):
        mapping[target.id] = item
        return True
    if isinstance(target, (ast.Tuple, ast.List)) and isinstance(item, (ast.Tuple, ast.List)) and len(target.elts) == len(item.elts):
        return all(_bind_target(t, i, mapping) for t, i in zip(target.elts, item.elts))
    return False


def _continue_to_if(body):
    """`if c: continue` guard clauses at the top level of a loop body -> the rest of the body under `if not c:`"""
    out = []
    for i, st in enumerate(body):
        if isinstance(st, ast.If) and not st.orelse and len(st.body) == 1 and isinstance(st.body[0], ast.Continue):
            rest = _continue_to_if(body[i + 1:])
            if rest is None:
                return None
            if rest:
                out.append(ast.copy_location(ast.If(test=ast.UnaryOp(op=ast.Not(), operand=clone(st.test)), body=rest, orelse=[]), st))
            return out
        out.append(st)
    return out


def _unroll(loop):
    """statements equivalent to a `for` over a small literal iterable, or None"""
    if loop.orelse:
        return None
    items = _iter_items(loop.iter)
    if items is None:
        return None
    body = _continue_to_if(loop.body)
    if body is None:
        return None
    loop = ast.copy_location(ast.For(target=loop.target, iter=loop.iter, body=body, orelse=[]), loop)
    for n in _walk_own_stmts(loop.body):
        if isinstance(n, (ast.Break, ast.Continue)):
            return None
    out = []
    for item in items:
        mapping = {}
        if not _bind_target(loop.target, item, mapping):
            return None
        # the loop variables must not be re-bound in the body
        for n in ast.walk(ast.Module(body=loop.body, type_ignores=[])):
            if isinstance(n, ast.Name) and isinstance(n.ctx, (ast.Store, ast.Del)) and n.id in mapping:
                return None
        for st in loop.body:
            new = _Subst({k: v for k, v in mapping.items()}).visit(clone(st))
            out.append(ast.copy_location(new, st))
    return out or [ast.copy_location(ast.Pass(), loop)]


def _walk_own_stmts(stmts):
    """statements of a loop body that belong to this loop (not to nested loops / functions)"""
    for st in stmts:
        yield st
        if isinstance(st, (ast.For, ast.While, ast.FunctionDef, ast.AsyncFunctionDef, ast.ClassDef)):
            continue
        for fld in ("body", "orelse", "finalbody"):
            sub = getattr(st, fld, None)
            if isinstance(sub, list):
                yield from _walk_own_stmts(sub)
        if isinstance(st, ast.Try):
            for h in st.handlers:
                yield from _walk_own_stmts(h.body)


class Normalizer:
    def __init__(self, module, func, flatten=False, depth=2):
        self.module = module
        self.func = func
        self.flatten = flatten
        self.depth = depth
        self.counter = 0
        self.inlined = []
        kf = known_funcs().get(module.rel, set())
        self.known = kf

    def helper_for(self, call, root):
        """resolve a call to an inlinable NEW helper -> (ast.FunctionDef, drop_self) or None"""
        r = self._helper_for(call, root)
        if r is not None:
            plain = ("staticmethod", "classmethod")
            if any(not (isinstance(d, ast.Name) and d.id in plain) for d in r[0].decorator_list):
                return None         # a decorator may change what a call does (functools.lru_cache memoises): the call is left alone
        return r

    def _helper_for(self, call, root):
        f = call.func
        cls = self.func.cls
        # nested helper defined inside the function
        if isinstance(f, ast.Name):
            for n in ast.walk(root):
                if isinstance(n, ast.FunctionDef) and n is not root and n.name == f.id:
                    if "<nested>." + f.id in self.known:
                        return None
                    return n, False
            tgt = self.module.funcs.get(f.id)
            if tgt is not None and tgt.cls is None and f.id not in self.known:
                return tgt.node, False
            return None
        if isinstance(f, ast.Attribute) and isinstance(f.value, ast.Name) and cls is not None:
            owner = f.value.id
            if owner in ("self", "cls", cls.name):
                name = f.attr
                if name.startswith("__") and not name.endswith("__"):
                    pass
                q = "%s.%s" % (cls.name, name)
                alt = "%s._%s%s" % (cls.name, cls.name, name)     # name-mangled private method
                tgt = self.module.funcs.get(q)
                if tgt is None:
                    return None
                if q in self.known or alt in self.known:
                    return None
                is_static = tgt.is_static
                # Class.f(x) on a plain method passes self explicitly
                drop_self = (owner in ("self", "cls")) and not is_static
                if owner == cls.name and not is_static and not tgt.is_classmethod:
                    drop_self = False
                return tgt.node, drop_self
        return None

    def run(self):
        node = clone(self.func.node)
        node._parent = getattr(self.func.node, "_parent", None)
        for _ in range(self.depth):
            changed = self._pass(node)
            if not changed:
                break
        self._unroll_new_loops(node)
        qkey = self.func.qualname
        if any(d.endswith(".setter") for d in self.func.decorators):
            qkey += ".setter"
        snap = known_locals().get(self.module.rel, {}).get(qkey)
        self.renamed = {}
        self.propagated = []
        if snap is not None and not os.environ.get("TYVERIF_NO_LOCALS"):
            ast.fix_missing_locations(node)
            _inplace_on_new_locals(node, snap)
            _collect_keyed_fill(node, snap)
            _param_shadow_back(node, snap)
            coalesce_aliases(node, snap)
            for _ in range(3):
                p_ = propagate_new_temporaries(node, snap)
                r_ = rename_back(node, snap)
                self.propagated += p_
                self.renamed.update(r_)
                if not p_ and not r_:
                    break
            _coalesce_into_rebound(node, snap)    # what is left: temporaries read several times / defined by a conditional
            if self.propagated:
                self._unroll_new_loops(node)      # a loop over a table that was held in a temporary
        _inline_new_module_constants(node, self.module, self.known)
        _inline_new_class_constants(node, self.func, self.module)
        _function_refs_to_lambdas(node, self.module, self.known, self.func)
        _sort_in_place_to_sorted(node)
        if self.inlined:
            _fold_constant_conditions(node)
        n_ = len(self.inlined)
        self._unroll_new_loops(node)              # a loop over a module-level dispatch table
        if len(self.inlined) != n_:
            _explicit_keywords(node)
        _expand_partials(node, snap)
        for parent_ in ast.walk(node):
            for child in ast.iter_child_nodes(parent_):
                child._parent = parent_
        _loops_to_comprehensions(node, self.known)
        if _zip_to_known_enumerate(node, self.known) and snap is not None and not os.environ.get("TYVERIF_NO_LOCALS"):
            rename_back(node, snap)
        _unzip_literal_tables(node)
        _unroll_returned_comprehensions(node)
        _unroll_finite_reductions(node, snap if not os.environ.get("TYVERIF_NO_LOCALS") else None)
        _identity_comprehensions(node)
        _split_tuple_assignments(node, snap if not os.environ.get("TYVERIF_NO_LOCALS") else None)
        if snap is not None and not os.environ.get("TYVERIF_NO_LOCALS"):
            coalesce_aliases(node, snap)
            for _ in range(2):
                p_ = propagate_new_temporaries(node, snap)
                r_ = rename_back(node, snap)
                self.propagated += p_
                self.renamed.update(r_)
                if not p_ and not r_:
                    break
        _fuse_comprehensions(node)
        _splice_starred_displays(node)
        _concat_displays(node)
        _explicit_keywords(node)          # f(**{"k": v}) -> f(k=v), also where the dictionary was a temporary
        if not os.environ.get("TYVERIF_NO_IFEXP"):
            _distribute_calls_over_ifexp(node)
            _expand_ifexp_statements(node, self.known)
        if self.flatten:
            node.body = _flatten_else(node.body)
        ast.fix_missing_locations(node)
        for parent_ in ast.walk(node):
            for child in ast.iter_child_nodes(parent_):
                child._parent = parent_
        node._parent = getattr(self.func.node, "_parent", None)
        return node

    @staticmethod
    def _bind_receiver(stmts, fn, drop, call):
        """the dropped first parameter (self / cls) of an inlined method stands for the receiver of the call"""
        if stmts is None or not drop or not fn.args.args:
            return stmts
        first = fn.args.args[0].arg
        recv = call.func.value if isinstance(call.func, ast.Attribute) else None
        if recv is None or (isinstance(recv, ast.Name) and recv.id == first):
            return stmts
        return [_Subst({first: recv}).visit(s_) for s_ in stmts]

    def _hoist_nested(self, st, root):
        """[statements of the inlined helper..., st with the call replaced by the temporary] or None"""
        blocked = set()
        for n in ast.walk(st):
            if isinstance(n, (ast.Lambda, ast.ListComp, ast.SetComp, ast.DictComp, ast.GeneratorExp)):
                blocked |= {id(x) for x in ast.walk(n)}
            elif isinstance(n, ast.IfExp):
                blocked |= {id(x) for x in ast.walk(n.body)} | {id(x) for x in ast.walk(n.orelse)}
            elif isinstance(n, ast.BoolOp):
                for v in n.values[1:]:
                    blocked |= {id(x) for x in ast.walk(v)}
        for n in ast.walk(st):
            if not isinstance(n, ast.Call) or id(n) in blocked or n is getattr(st, "value", None):
                continue
            h = self.helper_for(n, root)
            if h is None:
                continue
            fn, drop = h
            eh = _expr_helper(fn, drop)
            if eh is not None and _inline_expr(n, eh) is not None:
                continue            # handled at expression level
            sh = _stmt_helper(fn, drop)
            if sh is None:
                continue
            self.counter += 1
            tmp = "_h%d_v" % self.counter
            asg = ast.copy_location(ast.Assign(targets=[ast.Name(id=tmp, ctx=ast.Store())], value=n), st)
            new = _inline_stmt(asg, n, sh, self.counter)
            new = self._bind_receiver(new, fn, drop, n)
            if new is None:
                continue
            target = n

            class R(ast.NodeTransformer):
                def visit_Call(self, c):
                    if c is target:
                        return ast.copy_location(ast.Name(id=tmp, ctx=ast.Load()), c)
                    return self.generic_visit(c)
            st2 = R().visit(st)
            self.inlined.append(fn.name)
            return list(new) + [st2]
        return None

    def _unroll_new_loops(self, root):
        """`for` loops over a small literal iterable that are not in the snapshot are unrolled"""
        def rec(stmts):
            out = []
            for st in stmts:
                if isinstance(st, (ast.FunctionDef, ast.AsyncFunctionDef, ast.ClassDef)):
                    out.append(st)
                    continue
                for fld in ("body", "orelse", "finalbody"):
                    sub = getattr(st, fld, None)
                    if isinstance(sub, list) and sub and isinstance(sub[0], ast.stmt):
                        setattr(st, fld, rec(sub))
                if isinstance(st, ast.Try):
                    for h in st.handlers:
                        h.body = rec(h.body)
                if isinstance(st, ast.For) and "<for>:%s in %s" % (ast.unparse(st.target), ast.unparse(st.iter)) not in self.known:
                    new = _unroll(st)
                    if new is not None:
                        self.inlined.append("<unrolled for %s>" % ast.unparse(st.target))
                        out.extend(new)
                        continue
                out.append(st)
            return out
        root.body = rec(root.body)

    def _pass(self, root):
        changed = False
        # statement level first
        def rec(stmts):
            nonlocal changed
            out = []
            for st in stmts:
                if isinstance(st, (ast.FunctionDef, ast.AsyncFunctionDef, ast.ClassDef)):
                    out.append(st)
                    continue
                for fld in ("body", "orelse", "finalbody"):
                    sub = getattr(st, fld, None)
                    if isinstance(sub, list) and sub and isinstance(sub[0], ast.stmt):
                        setattr(st, fld, rec(sub))
                if isinstance(st, ast.Try):
                    for h in st.handlers:
                        h.body = rec(h.body)
                call = None
                if isinstance(st, ast.Expr) and isinstance(st.value, ast.Call):
                    call = st.value
                elif isinstance(st, (ast.Assign, ast.Return)) and isinstance(st.value, ast.Call):
                    call = st.value
                # `yield from <new generator helper>(...)` as a whole statement
                if isinstance(st, ast.Expr) and isinstance(st.value, ast.YieldFrom) and isinstance(st.value.value, ast.Call):
                    h = self.helper_for(st.value.value, root)
                    if h is not None:
                        fn, drop = h
                        sh = _stmt_helper(fn, drop, generator=True)
                        if sh is not None:
                            self.counter += 1
                            pseudo = ast.copy_location(ast.Expr(value=st.value.value), st)
                            new = _inline_stmt(pseudo, st.value.value, sh, self.counter)
                            new = self._bind_receiver(new, fn, drop, st.value.value)
                            if new is not None:
                                self.inlined.append(fn.name)
                                out.extend(new)
                                changed = True
                                continue
                if call is not None:
                    h = self.helper_for(call, root)
                    if h is not None:
                        fn, drop = h
                        eh = _expr_helper(fn, drop)
                        if eh is None or isinstance(st, ast.Expr) or _inline_expr(call, eh) is None:
                            sh = _stmt_helper(fn, drop)
                            if sh is None and isinstance(st, ast.Return) and st.value is call:
                                sh = _tail_helper(fn, drop)      # `return helper(...)`: the helper may return from anywhere
                            if sh is not None:
                                self.counter += 1
                                new = _inline_stmt(st, call, sh, self.counter)
                                new = self._bind_receiver(new, fn, drop, call)
                                if new is not None:
                                    self.inlined.append(fn.name)
                                    out.extend(new)
                                    changed = True
                                    continue
                # a helper call nested inside a simple statement: hoisted in front of it as `_hN_v = <inlined body>`
                if isinstance(st, (ast.Assign, ast.AugAssign, ast.Expr, ast.Return, ast.AnnAssign)):
                    hoisted = self._hoist_nested(st, root)
                    if hoisted is not None:
                        out.extend(hoisted)
                        changed = True
                        continue
                out.append(st)
            return out
        root.body = rec(root.body)
        # expression level
        norm_self = self

        class T(ast.NodeTransformer):
            def visit_FunctionDef(self, n):
                if n is root:
                    self.generic_visit(n)
                return n

            def visit_Lambda(self, n):
                return n

            def visit_Call(self, n):
                nonlocal changed
                self.generic_visit(n)
                h = norm_self.helper_for(n, root)
                if h is None:
                    return n
                fn, drop = h
                eh = _expr_helper(fn, drop)
                if eh is None:
                    return n
                new = _inline_expr(n, eh)
                if new is None:
                    return n
                got = norm_self._bind_receiver([ast.Expr(value=new)], fn, drop, n)
                new = got[0].value
                norm_self.inlined.append(fn.name)
                changed = True
                return ast.copy_location(new, n)
        T().visit(root)
        return changed


def normalized_func(func, flatten=False):
    """-> (new ast.FunctionDef with parent links, list of inlined helper names)"""
    nz = Normalizer(func.module, func, flatten=flatten)
    node = nz.run()
    return node, nz.inlined


def helper_closure(func, depth=3):
    """[normalised node of func] + the definitions of the NEW helpers (not in the snapshot) it calls, transitively.
    For rules that look for a construct 'somewhere in the implementation of func' when a helper could not be inlined."""
    from .core import calls_in
    nz = Normalizer(func.module, func)
    root = nz.run()
    out = [root]
    seen = {id(func.node)}
    frontier = [root]
    for _ in range(depth):
        nxt = []
        for node in frontier:
            for c in calls_in(node):
                h = nz.helper_for(c, node)
                if h is not None and id(h[0]) not in seen:
                    seen.add(id(h[0]))
                    out.append(h[0])
                    nxt.append(h[0])
        frontier = nxt
    return out


# ---------------------------------------------------------------------------------------------------------------
# locals: rename new names back to the names of the snapshot, then forward-substitute the remaining new temporaries
_LOCALS = None
PURE_CALLEES = {"int", "float", "len", "abs", "str", "min", "max", "sorted", "list", "tuple", "dict", "set", "isinstance", "getattr", "hasattr",
                "bool", "round", "sum", "any", "all", "zip", "range", "enumerate", "repr", "type", "id"}
PURE_ROOTS = {"np", "numpy", "math", "os", "posixpath", "re", "constants", "typhon", "datetime", "timedelta", "pd", "xr"}
PURE_METHODS = {"total_seconds", "ravel", "reshape", "min", "max", "sum", "mean", "astype", "tolist", "copy", "lstrip", "rstrip", "strip", "upper", "lower",
                "startswith", "endswith", "format", "join", "split", "get", "items", "keys", "values", "cumsum", "argsort", "argmin", "argmax", "flatten",
                "squeeze", "swapaxes", "transpose", "isel", "sel", "size", "item", "replace", "index", "count", "dot", "any", "all", "std", "intersection",
                "union", "difference", "isoformat", "strftime", "date", "time", "timestamp", "group", "groupdict", "match", "search", "findall"}
MUTATORS = {"append", "extend", "insert", "update", "setdefault", "pop", "popitem", "clear", "add", "remove", "discard", "sort", "reverse", "fill", "resize",
            "popleft", "appendleft", "put", "write"}


def known_locals():
    global _LOCALS
    if _LOCALS is None:
        p = os.path.join(os.path.dirname(os.path.abspath(__file__)), "known_locals.json")
        try:
            with open(p) as fh:
                _LOCALS = json.load(fh)
        except FileNotFoundError:
            _LOCALS = {}
    return _LOCALS


def _ctext(node, rename=None):
    from .canon import canon_text
    if rename:
        node = _Rename(rename).visit(clone(node))
    try:
        return canon_text(node)
    except Exception:
        return ast.unparse(node)


def local_signatures(fnode, rename=None):
    """{local name: [signature, ...]} - how each local of the function is defined (canonical text of what it is bound to)"""
    out = {}

    def add(name, sig):
        out.setdefault(name, [])
        if sig not in out[name]:
            out[name].append(sig)

    def bind(t, sig):
        if isinstance(t, ast.Name):
            add(t.id, sig)
        elif isinstance(t, (ast.Tuple, ast.List)):
            for i, e in enumerate(t.elts):
                bind(e.value if isinstance(e, ast.Starred) else e, "%s[%d/%d]" % (sig, i, len(t.elts)))
    for n in ast.walk(fnode):
        if isinstance(n, ast.Assign):
            sig = "=" + _ctext(n.value, rename)
            for t in n.targets:
                bind(t, sig)
        elif isinstance(n, ast.AnnAssign) and n.value is not None:
            bind(n.target, "=" + _ctext(n.value, rename))
        elif isinstance(n, ast.For):
            bind(n.target, "for:" + _ctext(n.iter, rename))
        elif isinstance(n, ast.With):
            for it in n.items:
                if it.optional_vars is not None:
                    bind(it.optional_vars, "with:" + _ctext(it.context_expr, rename))
        elif isinstance(n, ast.ExceptHandler) and n.name:
            add(n.name, "except:" + (_ctext(n.type, rename) if n.type is not None else ""))
    return out


def _all_local_names(fnode):
    names = set()
    for n in ast.walk(fnode):
        if isinstance(n, ast.Name) and isinstance(n.ctx, (ast.Store, ast.Del)):
            names.add(n.id)
        elif isinstance(n, ast.ExceptHandler) and n.name:
            names.add(n.name)
    return names


def rename_back(fnode, snapshot):
    """new local names whose definition is the definition of a vanished snapshot local get that local's name back"""
    if not snapshot:
        return {}
    mapping = {}
    for _ in range(6):
        cur = _all_local_names(fnode)
        params = {a.arg for a in fnode.args.posonlyargs + fnode.args.args + fnode.args.kwonlyargs}
        new = {n for n in cur if n not in snapshot and n not in mapping} - params
        missing = {n for n in snapshot if n not in cur and n not in mapping.values()}
        if not new or not missing:
            break
        sigs = local_signatures(fnode, rename=mapping)
        found = {}
        for n in sorted(new):
            for sig in sigs.get(n, []):
                cands = [o for o in sorted(missing) if sig in snapshot[o]]
                if len(cands) == 1 and cands[0] not in found.values():
                    found[n] = cands[0]
                    break
        if not found:
            break
        mapping.update(found)
    if mapping:
        class R(ast.NodeTransformer):
            def visit_Name(self, n):
                if n.id in mapping:
                    n.id = mapping[n.id]
                return n

            def visit_ExceptHandler(self, n):
                if n.name in mapping:
                    n.name = mapping[n.name]
                return self.generic_visit(n)
        R().visit(fnode)
    return mapping


def _pure_expr(e):
    """no call whose repetition could matter (unknown callee)"""
    for n in ast.walk(e):
        if isinstance(n, (ast.Yield, ast.YieldFrom, ast.Await, ast.NamedExpr, ast.Lambda)):
            return False
        if isinstance(n, ast.Call):
            f = n.func
            if isinstance(f, ast.Name):
                if f.id not in PURE_CALLEES:
                    return False
            elif isinstance(f, ast.Attribute):
                root = f
                while isinstance(root, ast.Attribute):
                    root = root.value
                if not ((isinstance(root, ast.Name) and root.id in PURE_ROOTS) or f.attr in PURE_METHODS):
                    return False
            else:
                return False
    return True


def propagate_new_temporaries(fnode, snapshot):
    """`t = expr` for a NEW local t (not in the snapshot), assigned once: uses of t are replaced by expr and the assignment
    disappears - provided nothing expr depends on changes in between.  Undoes 'introduce temporary', 'hoist common
    sub-expression' and 'split expression into steps'."""
    done = []
    for _ in range(40):
        cur = _all_local_names(fnode)
        params = {a.arg for a in fnode.args.posonlyargs + fnode.args.args + fnode.args.kwonlyargs}
        cand = None
        # names that are a renamed snapshot local (once the other new temporaries are looked through) keep their statement
        missing = {n for n in snapshot if n not in cur}
        newdefs = {}
        for n_ in ast.walk(fnode):
            if isinstance(n_, ast.Assign) and len(n_.targets) == 1 and isinstance(n_.targets[0], ast.Name) and n_.targets[0].id not in snapshot \
                    and n_.targets[0].id not in params:
                newdefs.setdefault(n_.targets[0].id, []).append(n_.value)
        single = {k: v[0] for k, v in newdefs.items() if len(v) == 1}
        keep = set()
        if missing:
            for k, v in single.items():
                e = clone(v)
                for _d in range(4):
                    e = _Subst({a: b for a, b in single.items() if a != k}).visit(e)
                sig = "=" + _ctext(e)
                if any(sig in snapshot[o] for o in missing):
                    keep.add(k)
        for blk_owner in ast.walk(fnode):
            for fld in ("body", "orelse", "finalbody"):
                blk = getattr(blk_owner, fld, None)
                if not (isinstance(blk, list) and blk and isinstance(blk[0], ast.stmt)):
                    continue
                for i, st in enumerate(blk):
                    if not (isinstance(st, ast.Assign) and len(st.targets) == 1 and isinstance(st.targets[0], ast.Name)):
                        continue
                    name = st.targets[0].id
                    if name in snapshot or name in params or name in done or name in keep:
                        continue
                    if _try_propagate(fnode, blk, i, name):
                        cand = name
                        break
                if cand:
                    break
            if cand:
                break
        if not cand:
            break
        done.append(cand)
    return done


def _attribute_stable(fnode, attr):
    """no method of the module other than __init__ / a property setter stores to `<obj>.attr`: a call made between the hoisting and
    the use cannot have re-bound it"""
    root = fnode
    seen = 0
    while getattr(root, "_parent", None) is not None and seen < 50:
        root = root._parent
        seen += 1
    if not isinstance(root, ast.Module):
        return False
    for fn in ast.walk(root):
        if not isinstance(fn, (ast.FunctionDef, ast.AsyncFunctionDef)):
            continue
        if fn.name == "__init__" or any(isinstance(d, ast.Attribute) and d.attr == "setter" for d in fn.decorator_list):
            continue
        for n in ast.walk(fn):
            if isinstance(n, ast.Attribute) and n.attr == attr and isinstance(n.ctx, (ast.Store, ast.Del)):
                return False
            if isinstance(n, ast.Call) and isinstance(n.func, ast.Name) and n.func.id in ("setattr", "delattr"):
                return False
    return True


def _try_propagate(fnode, blk, i, name):
    st = blk[i]
    # exactly one binding of the name in the whole function
    stores = [n for n in ast.walk(fnode) if isinstance(n, ast.Name) and n.id == name and isinstance(n.ctx, (ast.Store, ast.Del))]
    if len(stores) != 1:
        return False
    loads = [n for n in ast.walk(fnode) if isinstance(n, ast.Name) and n.id == name and isinstance(n.ctx, ast.Load)]
    if not loads:
        return False
    rest = blk[i + 1:]
    inside = {id(n) for s in rest for n in ast.walk(s)}
    if not all(id(n) in inside for n in loads):
        return False            # used outside the block that defines it (or before the definition)
    # not used inside a nested function (late binding) 
    for s in rest:
        for n in ast.walk(s):
            if isinstance(n, (ast.FunctionDef, ast.AsyncFunctionDef)) and any(id(x) in {id(l) for l in loads} for x in ast.walk(n)):
                return False
    value = st.value
    if any(isinstance(n, (ast.Yield, ast.YieldFrom, ast.Await, ast.NamedExpr)) for n in ast.walk(value)):
        return False
    # an object that is modified through the name (accumulator, buffer) is not a temporary for a value
    load_ids = {id(l) for l in loads}
    # (`h = self.handler`: a second name for an object that exists anyway - writing the attribute chain out keeps its identity)
    chain = value
    while isinstance(chain, ast.Attribute):
        chain = chain.value
    alias_of_attribute = isinstance(value, ast.Attribute) and isinstance(chain, ast.Name) and chain.id in ("self", "cls") \
        and _attribute_stable(fnode, value.attr)
    for n in ast.walk(fnode):
        if isinstance(n, ast.Call) and isinstance(n.func, ast.Attribute) and n.func.attr in MUTATORS and not alias_of_attribute:
            b = n.func.value
            while isinstance(b, (ast.Subscript, ast.Attribute)):
                b = b.value
            if id(b) in load_ids:
                return False
        if isinstance(n, (ast.Subscript, ast.Attribute)) and isinstance(n.ctx, (ast.Store, ast.Del)) and not alias_of_attribute:
            b = n.value
            while isinstance(b, (ast.Subscript, ast.Attribute)):
                b = b.value
            if id(b) in load_ids:
                return False
        if isinstance(n, ast.AugAssign):
            b = n.target
            while isinstance(b, (ast.Subscript, ast.Attribute)):
                b = b.value
            if isinstance(b, ast.Name) and b.id == name and (not alias_of_attribute or b is n.target):
                return False
    if len(loads) > 1 and isinstance(value, (ast.List, ast.Dict, ast.Set, ast.ListComp, ast.DictComp, ast.SetComp)):
        return False        # one mutable object shared by several uses
    ALLOC = {"zeros", "empty", "ones", "full", "zeros_like", "empty_like", "ones_like", "full_like", "array", "asarray", "copy", "deepcopy", "arange",
             "linspace", "list", "dict", "set", "defaultdict", "deque", "OrderedDict", "Counter", "bytearray", "DataArray", "Dataset", "DataFrame", "Series"}
    if len(loads) > 1 and any(isinstance(n, ast.Call) and ((isinstance(n.func, ast.Attribute) and n.func.attr in ALLOC) or
                                                          (isinstance(n.func, ast.Name) and n.func.id in ALLOC)) for n in ast.walk(value)):
        return False        # a freshly allocated object: its uses share ONE object (it may be filled through a view)
    if len(loads) > 1 and (not _pure_expr(value) or len(ast.unparse(value)) > 100
                           or any(isinstance(n, (ast.ListComp, ast.DictComp, ast.SetComp, ast.GeneratorExp)) for n in ast.walk(value))):
        return False
    if len(loads) == 1 and not _pure_expr(value):
        # a single use of an effectful call may move only if nothing else with effects lies in between: require the very next statement
        if not any(id(loads[0]) == id(n) for n in ast.walk(rest[0])):
            return False
        # and not into a loop / comprehension (would repeat the call)
        p = getattr(loads[0], "_parent", None)
        for n in ast.walk(rest[0]):
            if isinstance(n, (ast.For, ast.While, ast.ListComp, ast.SetComp, ast.DictComp, ast.GeneratorExp)) and any(id(x) == id(loads[0]) for x in ast.walk(n)) \
                    and not (isinstance(n, ast.For) and any(id(x) == id(loads[0]) for x in ast.walk(n.iter))):
                return False
    # nothing the value depends on changes between the definition and the last use
    own = {n.id for c_ in ast.walk(value) if isinstance(c_, ast.comprehension) for n in ast.walk(c_.target) if isinstance(n, ast.Name)}
    deps = {n.id for n in ast.walk(value) if isinstance(n, ast.Name)} - own      # a comprehension's loop variables are its own
    dep_attrs = {ast.unparse(n) for n in ast.walk(value) if isinstance(n, ast.Attribute)}
    last = max(k for k, s in enumerate(rest) if any(id(n) in {id(l) for l in loads} for n in ast.walk(s)))
    # a hoisted bound-method look-up (`pop = queue.popleft`), used only by calling it
    bound_method = isinstance(value, ast.Attribute) and isinstance(value.value, ast.Name) and value.attr in MUTATORS | PURE_METHODS \
        and all(isinstance(getattr(l, "_parent", None), ast.Call) and getattr(l, "_parent").func is l for l in loads)
    for s in rest[:last + 1]:
        for n in ast.walk(s):
            if isinstance(n, ast.Name) and isinstance(n.ctx, (ast.Store, ast.Del)) and n.id in deps:
                return False
            if isinstance(n, (ast.Subscript, ast.Attribute)) and isinstance(n.ctx, (ast.Store, ast.Del)):
                if s is rest[last] and isinstance(s, ast.Assign) and all(any(id(l) == id(x) for x in ast.walk(s.value))
                                                                        for l in loads if any(id(l) == id(x) for x in ast.walk(s))):
                    continue        # the use is on the right-hand side of this very store: evaluated before it
                b = n
                while isinstance(b, (ast.Subscript, ast.Attribute)):
                    if isinstance(b, ast.Attribute) and ast.unparse(b) in dep_attrs:
                        return False
                    b = b.value
                if isinstance(b, ast.Name) and b.id in deps and b.id != "self":
                    return False
            if isinstance(n, ast.Call) and isinstance(n.func, ast.Attribute) and n.func.attr in MUTATORS:
                if bound_method:
                    continue        # `f = obj.method`: calling mutators on obj does not change which method f is
                if s is rest[last] and all(any(id(l) == id(x) for a_ in list(n.args) + [k_.value for k_ in n.keywords] for x in ast.walk(a_))
                                           for l in loads if any(id(l) == id(x) for x in ast.walk(s))):
                    continue        # the use is an argument of the mutating call itself: evaluated before the mutation
                b = n.func.value
                while isinstance(b, (ast.Subscript, ast.Attribute)):
                    b = b.value
                if isinstance(b, ast.Name) and b.id in deps and b.id != "self":
                    return False
            if isinstance(n, ast.AugAssign):
                b = n.target
                while isinstance(b, (ast.Subscript, ast.Attribute)):
                    b = b.value
                if isinstance(b, ast.Name) and b.id in deps:
                    return False
    # a loop in between re-evaluates: a use inside a loop body while a dependency changes in that loop was excluded above
    for s in rest[:last + 1]:
        _Subst({name: value}).visit(s)
    # _Subst skips lambdas; uses inside lambdas keep the name -> refuse in that case
    if any(isinstance(n, ast.Name) and n.id == name and isinstance(n.ctx, ast.Load) for s in rest for n in ast.walk(s)):
        # restore impossible: treat as failure only if nothing was substituted; keep the assignment
        return True if False else _keep(blk, i)
    del blk[i]
    if not blk:
        blk.append(ast.Pass())
    return True


def _keep(blk, i):
    return True


def _expand_ifexp_statements(fnode, known=()):
    """`x = a if c else b` / `return a if c else b` / `f(a if c else b)` as a whole statement value -> if c: x = a else: x = b.
    One canonical spelling for value selection, so that rules see the same guards either way."""
    def rec(stmts):
        out = []
        for st in stmts:
            if isinstance(st, (ast.FunctionDef, ast.AsyncFunctionDef, ast.ClassDef)):
                out.append(st)
                continue
            for fld in ("body", "orelse", "finalbody"):
                sub = getattr(st, fld, None)
                if isinstance(sub, list) and sub and isinstance(sub[0], ast.stmt):
                    setattr(st, fld, rec(sub))
            if isinstance(st, ast.Try):
                for h in st.handlers:
                    h.body = rec(h.body)
            v = getattr(st, "value", None)
            # (f if c else g)(args)  ->  f(args) if c else g(args)
            if isinstance(v, ast.Call) and isinstance(v.func, ast.IfExp):
                fx = v.func
                v = ast.copy_location(ast.IfExp(test=fx.test,
                                                body=ast.Call(func=fx.body, args=[clone(a) for a in v.args], keywords=[clone(k) for k in v.keywords]),
                                                orelse=ast.Call(func=fx.orelse, args=[clone(a) for a in v.args], keywords=[clone(k) for k in v.keywords])), v)
                ast.fix_missing_locations(v)
                st.value = v
            if isinstance(st, (ast.Assign, ast.Return, ast.AugAssign, ast.AnnAssign, ast.Expr)) and isinstance(v, ast.IfExp) \
                    and "<ifexp>:" + ast.unparse(st) not in known:
                a, b = clone(st), clone(st)
                a.value, b.value = clone(v.body), clone(v.orelse)
                new = ast.If(test=clone(v.test), body=rec([a]), orelse=rec([b]))
                out.append(ast.copy_location(new, st))
                continue
            out.append(st)
        return out
    fnode.body = rec(fnode.body)


def _split_tuple_assignments(fnode, snapshot=None):
    """`a, b = x, y` with NEW-looking independent sides -> `a = x; b = y` (only when no target is read by any value)"""
    def rec(stmts):
        out = []
        for st in stmts:
            if isinstance(st, (ast.FunctionDef, ast.AsyncFunctionDef, ast.ClassDef)):
                out.append(st)
                continue
            for fld in ("body", "orelse", "finalbody"):
                sub = getattr(st, fld, None)
                if isinstance(sub, list) and sub and isinstance(sub[0], ast.stmt):
                    setattr(st, fld, rec(sub))
            if isinstance(st, ast.Try):
                for h in st.handlers:
                    h.body = rec(h.body)
            # a = b = <immutable value>  ->  a = <value>; b = <value>
            if isinstance(st, ast.Assign) and len(st.targets) > 1 and (
                    isinstance(st.value, (ast.Constant, ast.Name)) or (isinstance(st.value, ast.Attribute) and isinstance(st.value.value, ast.Name))
                    or (isinstance(st.value, ast.Call) and isinstance(st.value.func, ast.Name) and st.value.func.id in ("float", "int", "str", "bool")
                        and all(isinstance(a_, ast.Constant) for a_ in st.value.args) and not st.value.keywords)):
                for t in st.targets:
                    out.append(ast.copy_location(ast.Assign(targets=[t], value=clone(st.value)), st))
                continue
            if isinstance(st, ast.Assign) and len(st.targets) == 1 and isinstance(st.targets[0], (ast.Tuple, ast.List)) \
                    and isinstance(st.value, (ast.Tuple, ast.List)) and len(st.targets[0].elts) == len(st.value.elts) \
                    and all(isinstance(t, ast.Name) or (isinstance(t, ast.Attribute) and isinstance(t.value, ast.Name)) for t in st.targets[0].elts) \
                    and not any(isinstance(v, ast.Starred) for v in st.value.elts):
                tnames = {ast.unparse(t) for t in st.targets[0].elts}
                reads = {n.id for v in st.value.elts for n in ast.walk(v) if isinstance(n, ast.Name)} | \
                    {ast.unparse(n) for v in st.value.elts for n in ast.walk(v) if isinstance(n, ast.Attribute)}
                if not (tnames & reads) and getattr(st, "_inlined", True):
                    for t, v in zip(st.targets[0].elts, st.value.elts):
                        out.append(ast.copy_location(ast.Assign(targets=[t], value=v), st))
                    continue
            # a, b = obj.attr  for NEW locals a, b (a pair held in an attribute unpacked into temporaries) -> a = obj.attr[0]; b = obj.attr[1]
            if snapshot is not None and isinstance(st, ast.Assign) and len(st.targets) == 1 and isinstance(st.targets[0], ast.Tuple) \
                    and 2 <= len(st.targets[0].elts) <= 4 and all(isinstance(t, ast.Name) and t.id not in snapshot for t in st.targets[0].elts) \
                    and isinstance(st.value, ast.Attribute) and isinstance(st.value.value, (ast.Name, ast.Attribute)) and _pure_expr(st.value):
                for k_, t in enumerate(st.targets[0].elts):
                    out.append(ast.copy_location(ast.Assign(targets=[t], value=ast.Subscript(value=clone(st.value), slice=ast.Constant(value=k_), ctx=ast.Load())), st))
                continue
            out.append(st)
        return out
    fnode.body = rec(fnode.body)


def _zip_to_known_enumerate(fnode, known):
    """`for x, (a, b) in zip(A, B): body` where the snapshot has `for i, x0 in enumerate(A)`: the parallel walk is written back as that
    index loop - `for i, x in enumerate(A)` with a -> B[i][0], b -> B[i][1] (parallel sequences of equal length: zip and indexing agree).
    Only when B, ... are plain names that the loop does not re-bind and the unpacked names are not re-bound in the body."""
    changed = False
    for lp in ast.walk(fnode):
        if not (isinstance(lp, ast.For) and isinstance(lp.iter, ast.Call) and isinstance(lp.iter.func, ast.Name) and lp.iter.func.id == "zip"
                and not lp.iter.keywords and len(lp.iter.args) >= 2 and isinstance(lp.target, (ast.Tuple, ast.List)) and len(lp.target.elts) == len(lp.iter.args)):
            continue
        if "<for>:%s in %s" % (ast.unparse(lp.target), ast.unparse(lp.iter)) in known:
            continue
        first = lp.iter.args[0]
        suffix = " in enumerate(%s)" % ast.unparse(first)
        cands = [k for k in known if k.startswith("<for>:") and k.endswith(suffix)]
        if len(cands) != 1:
            continue
        try:
            ktarget = ast.parse(cands[0][len("<for>:"):-len(suffix)], mode="eval").body
        except SyntaxError:
            continue
        if not (isinstance(ktarget, ast.Tuple) and len(ktarget.elts) == 2 and isinstance(ktarget.elts[0], ast.Name)):
            continue
        idx = ktarget.elts[0].id
        if any(isinstance(n, ast.Name) and n.id == idx for n in ast.walk(fnode)):
            continue        # the index name is in use
        if not all(isinstance(a, ast.Name) for a in lp.iter.args[1:]):
            continue
        mapping = {}

        def bind(t, expr):
            if isinstance(t, ast.Name):
                mapping[t.id] = expr
                return True
            if isinstance(t, (ast.Tuple, ast.List)) and not any(isinstance(e, ast.Starred) for e in t.elts):
                return all(bind(e, ast.Subscript(value=clone(expr), slice=ast.Constant(value=k_), ctx=ast.Load())) for k_, e in enumerate(t.elts))
            return False
        ok = True
        for t, a in zip(lp.target.elts[1:], lp.iter.args[1:]):
            ok = ok and bind(t, ast.Subscript(value=clone(a), slice=ast.Name(id=idx, ctx=ast.Load()), ctx=ast.Load()))
        if not ok:
            continue
        body_mod = ast.Module(body=lp.body, type_ignores=[])
        stored = {n.id for n in ast.walk(body_mod) if isinstance(n, ast.Name) and isinstance(n.ctx, (ast.Store, ast.Del))}
        if stored & (set(mapping) | {a.id for a in lp.iter.args[1:]}):
            continue
        later = [n for s_ in _stmts_after(fnode, lp) for n in ast.walk(s_) if isinstance(n, ast.Name) and isinstance(n.ctx, ast.Load) and n.id in mapping]
        if later:
            continue
        lp.body = [_Subst(mapping).visit(b) for b in lp.body]
        lp.target = ast.Tuple(elts=[ast.Name(id=idx, ctx=ast.Store()), lp.target.elts[0]], ctx=ast.Store())
        lp.iter = ast.Call(func=ast.Name(id="enumerate", ctx=ast.Load()), args=[first], keywords=[])
        ast.fix_missing_locations(lp)
        changed = True
    return changed


def _loops_to_comprehensions(fnode, known):
    """X = []; for t in S: X.append(E)   /   ... if c: X.append(E)   ->   X = [E for t in S if c]  for loops that are not in the snapshot
    (the loop variables must not be read after the loop: a comprehension does not leak them)"""
    def names(e):
        return {n.id for n in ast.walk(e) if isinstance(n, ast.Name)}
    changed = False
    for owner in ast.walk(fnode):
        for fld in ("body", "orelse", "finalbody"):
            blk = getattr(owner, fld, None)
            if not (isinstance(blk, list) and blk and isinstance(blk[0], ast.stmt)):
                continue
            i = 0
            while i + 1 < len(blk):
                a, lp = blk[i], blk[i + 1]
                i += 1
                counting = (isinstance(a, ast.Assign) and len(a.targets) == 1 and isinstance(a.targets[0], ast.Name)
                            and isinstance(a.value, ast.Constant) and a.value.value == 0 and type(a.value.value) is int)
                keyed = (isinstance(a, ast.Assign) and len(a.targets) == 1 and isinstance(a.targets[0], ast.Name)
                         and ((isinstance(a.value, ast.Dict) and not a.value.keys) or
                              (isinstance(a.value, ast.Call) and isinstance(a.value.func, ast.Name) and a.value.func.id == "dict" and not a.value.args and not a.value.keywords)))
                if not counting and not keyed and not (isinstance(a, ast.Assign) and len(a.targets) == 1 and isinstance(a.targets[0], ast.Name)
                        and ((isinstance(a.value, ast.List) and not a.value.elts) or
                             (isinstance(a.value, ast.Call) and isinstance(a.value.func, ast.Name) and a.value.func.id == "list" and not a.value.args and not a.value.keywords))):
                    continue
                if not (isinstance(lp, ast.For) and not lp.orelse and len(lp.body) == 1):
                    continue
                if "<for>:%s in %s" % (ast.unparse(lp.target), ast.unparse(lp.iter)) in known:
                    continue
                acc = a.targets[0].id
                inner = lp.body[0]
                conds = []
                while isinstance(inner, ast.If) and not inner.orelse and len(inner.body) == 1:
                    conds.append(inner.test)
                    inner = inner.body[0]
                if counting:
                    # n = 0; for t in S: [if c:] n += E   ->   n = sum(E for t in S if c)   (sum() starts from the integer 0 and adds left to right)
                    if not (isinstance(inner, ast.AugAssign) and isinstance(inner.op, ast.Add) and isinstance(inner.target, ast.Name) and inner.target.id == acc):
                        continue
                    elt = inner.value
                elif keyed:
                    # d = {}; for t in S: [if c:] d[K] = V   ->   d = {K: V for t in S if c}   (a later entry of the same key replaces the earlier one)
                    if not (isinstance(inner, ast.Assign) and len(inner.targets) == 1 and isinstance(inner.targets[0], ast.Subscript)
                            and isinstance(inner.targets[0].value, ast.Name) and inner.targets[0].value.id == acc):
                        continue
                    elt = ast.Tuple(elts=[inner.targets[0].slice, inner.value], ctx=ast.Load())
                elif not (isinstance(inner, ast.Expr) and isinstance(inner.value, ast.Call) and isinstance(inner.value.func, ast.Attribute)
                        and inner.value.func.attr == "append" and isinstance(inner.value.func.value, ast.Name) and inner.value.func.value.id == acc
                        and len(inner.value.args) == 1 and not inner.value.keywords):
                    continue
                else:
                    elt = inner.value.args[0]
                used = names(elt) | names(lp.iter)
                for c_ in conds:
                    used |= names(c_)
                if acc in used:
                    continue
                if any(isinstance(n, (ast.Yield, ast.YieldFrom, ast.Await, ast.NamedExpr)) for n in ast.walk(lp)):
                    continue
                tnames = names(lp.target)
                after = [n for s_ in _stmts_after(fnode, lp) for n in ast.walk(s_) if isinstance(n, ast.Name) and isinstance(n.ctx, ast.Load) and n.id in tnames]
                # a later loop may re-bind the same variable before reading it: only a read that is not preceded by a new binding matters;
                # conservatively, any later load of the name outside a statement that binds it again blocks the rewrite
                if after and not all(_rebound_before(fnode, lp, n) for n in after):
                    continue
                gens = [ast.comprehension(target=lp.target, iter=lp.iter, ifs=list(conds), is_async=0)]
                if counting:
                    comp = ast.Call(func=ast.Name(id="sum", ctx=ast.Load()), args=[ast.GeneratorExp(elt=elt, generators=gens)], keywords=[])
                elif keyed:
                    comp = ast.DictComp(key=elt.elts[0], value=elt.elts[1], generators=gens)
                else:
                    comp = ast.ListComp(elt=elt, generators=gens)
                new = ast.copy_location(ast.Assign(targets=[a.targets[0]], value=ast.copy_location(comp, lp)), lp)
                blk[i - 1:i + 1] = [new]
                ast.fix_missing_locations(new)
                changed = True
    return changed


def _stmts_after(fnode, st):
    """statements of the function that come after `st` in source order (document order of the tree)"""
    seen = False
    out = []
    order = []

    def rec(stmts):
        for s_ in stmts:
            order.append(s_)
            for fld in ("body", "orelse", "finalbody"):
                sub = getattr(s_, fld, None)
                if isinstance(sub, list) and sub and isinstance(sub[0], ast.stmt) and not isinstance(s_, (ast.FunctionDef, ast.AsyncFunctionDef, ast.ClassDef)):
                    rec(sub)
            if isinstance(s_, ast.Try):
                for h in s_.handlers:
                    rec(h.body)
    rec(fnode.body)
    inside = {id(x) for x in ast.walk(st)}
    for s_ in order:
        if s_ is st:
            seen = True
            continue
        if seen and id(s_) not in inside and not any(id(s_) == id(x) for x in ast.walk(st)):
            # only top-most statements: skip those nested in an already listed one
            if not any(any(id(s_) == id(y) for y in ast.walk(o) if y is not o) for o in out):
                out.append(s_)
    return out


def _rebound_before(fnode, lp, load):
    """the load of a former loop variable sits in a later `for` / comprehension that binds the name itself"""
    p = getattr(load, "_parent", None)
    cur = load
    while p is not None and p is not fnode:
        if isinstance(p, ast.For) and any(isinstance(n, ast.Name) and n.id == load.id for n in ast.walk(p.target)) and not any(cur is x for x in ast.walk(p.iter)):
            return True
        if isinstance(p, (ast.ListComp, ast.SetComp, ast.DictComp, ast.GeneratorExp)):
            for k_, g in enumerate(p.generators):
                if any(isinstance(n, ast.Name) and n.id == load.id for n in ast.walk(g.target)) and not (k_ == 0 and any(cur is x for x in ast.walk(g.iter))):
                    return True
        cur, p = p, getattr(p, "_parent", None)
    return False


def _unroll_finite_reductions(fnode, snapshot):
    """sum / any / all over a generator whose iterable is a small literal table (a tuple / list / dict literal, possibly held in a NEW local
    that is bound once and never modified; `.items()` / `.keys()` / `.values()` of such a dict) -> the explicit sum / or / and"""
    snapshot = snapshot or {}

    def literal_of(e):
        if isinstance(e, (ast.Tuple, ast.List, ast.Dict)):
            return e
        if isinstance(e, ast.Name) and e.id not in snapshot:
            ds = [st for st in ast.walk(fnode) if isinstance(st, ast.Assign) and len(st.targets) == 1 and isinstance(st.targets[0], ast.Name) and st.targets[0].id == e.id]
            stores = [n for n in ast.walk(fnode) if isinstance(n, ast.Name) and n.id == e.id and isinstance(n.ctx, (ast.Store, ast.Del))]
            if len(ds) != 1 or len(stores) != 1 or not isinstance(ds[0].value, (ast.Tuple, ast.List, ast.Dict)):
                return None
            for n in ast.walk(fnode):
                if isinstance(n, ast.Call) and isinstance(n.func, ast.Attribute) and n.func.attr in MUTATORS and isinstance(n.func.value, ast.Name) and n.func.value.id == e.id:
                    return None
                if isinstance(n, ast.Subscript) and isinstance(n.ctx, (ast.Store, ast.Del)) and isinstance(n.value, ast.Name) and n.value.id == e.id:
                    return None
            return ds[0].value
        return None

    def items_of(it):
        how = None
        if isinstance(it, ast.Call) and isinstance(it.func, ast.Attribute) and it.func.attr in ("items", "keys", "values") and not it.args and not it.keywords:
            how, it = it.func.attr, it.func.value
        lit = literal_of(it)
        if lit is None:
            return None
        if isinstance(lit, ast.Dict):
            if any(k is None for k in lit.keys) or len(lit.keys) > MAX_UNROLL or not all(_literal_tree(k) and _literal_tree(v) for k, v in zip(lit.keys, lit.values)):
                return None
            if how == "items":
                return [ast.Tuple(elts=[clone(k), clone(v)], ctx=ast.Load()) for k, v in zip(lit.keys, lit.values)]
            if how == "values":
                return [clone(v) for v in lit.values]
            return [clone(k) for k in lit.keys]
        if how is not None or len(lit.elts) > MAX_UNROLL or not all(_literal_tree(x) for x in lit.elts):
            return None
        return [clone(x) for x in lit.elts]

    class R(ast.NodeTransformer):
        def visit_Call(self, n):
            self.generic_visit(n)
            if not (isinstance(n.func, ast.Name) and n.func.id in ("sum", "any", "all") and len(n.args) == 1 and not n.keywords
                    and isinstance(n.args[0], (ast.GeneratorExp, ast.ListComp)) and len(n.args[0].generators) == 1 and not n.args[0].generators[0].ifs):
                return n
            g = n.args[0].generators[0]
            items = items_of(g.iter)
            if not items:
                return n
            terms = []
            for it_ in items:
                m = {}
                if not _bind_target(g.target, it_, m):
                    return n
                terms.append(_Subst(m).visit(clone(n.args[0].elt)))
            if n.func.id == "sum":
                out = terms[0]
                for t_ in terms[1:]:
                    out = ast.BinOp(left=out, op=ast.Add(), right=t_)
            else:
                out = ast.BoolOp(op=ast.Or() if n.func.id == "any" else ast.And(), values=terms) if len(terms) > 1 else terms[0]
            return ast.copy_location(out, n)
    R().visit(fnode)
    ast.fix_missing_locations(fnode)


def _unzip_literal_tables(fnode):
    """a, b, c = (F(col) for col in zip(*[(a1, b1, c1), (a2, b2, c2), ...]))  ->  a, b, c = (F((a1, a2, ..)), F((b1, b2, ..)), F((c1, c2, ..))):
    a table written row by row and unzipped into its columns is the same columns written out"""
    for st in ast.walk(fnode):
        # (tuple(<generator>) / list(<generator>) unpacked into names is the generator unpacked into names)
        if isinstance(st, ast.Assign) and len(st.targets) == 1 and isinstance(st.targets[0], (ast.Tuple, ast.List)) and isinstance(st.value, ast.Call) \
                and isinstance(st.value.func, ast.Name) and st.value.func.id in ("tuple", "list") and len(st.value.args) == 1 and not st.value.keywords \
                and isinstance(st.value.args[0], (ast.GeneratorExp, ast.ListComp)):
            st.value = st.value.args[0]
        if not (isinstance(st, ast.Assign) and len(st.targets) == 1 and isinstance(st.targets[0], (ast.Tuple, ast.List))
                and isinstance(st.value, (ast.GeneratorExp, ast.ListComp)) and len(st.value.generators) == 1 and not st.value.generators[0].ifs
                and isinstance(st.value.generators[0].target, ast.Name)):
            continue
        g = st.value.generators[0]
        n = len(st.targets[0].elts)
        cols = None
        it = g.iter
        if isinstance(it, ast.Call) and isinstance(it.func, ast.Name) and it.func.id == "zip" and len(it.args) == 1 and isinstance(it.args[0], ast.Starred) \
                and isinstance(it.args[0].value, (ast.List, ast.Tuple)) and not it.keywords:
            rows = it.args[0].value.elts
            if rows and all(isinstance(r, (ast.Tuple, ast.List)) and len(r.elts) == n and all(_literal_tree(x) for x in r.elts) for r in rows):
                cols = [ast.Tuple(elts=[clone(r.elts[k]) for r in rows], ctx=ast.Load()) for k in range(n)]
        elif isinstance(it, (ast.Tuple, ast.List)) and len(it.elts) == n and all(_literal_tree(x) or _simple_arg(x) for x in it.elts):
            cols = [clone(x) for x in it.elts]
        if cols is None or not _pure_expr(st.value.elt):
            continue
        st.value = ast.copy_location(ast.Tuple(elts=[_Subst({g.target.id: c}).visit(clone(st.value.elt)) for c in cols], ctx=ast.Load()), st.value)


def _unroll_returned_comprehensions(fnode):
    """return tuple(F(v) for v in (a, b))  ->  return (F(a), F(b)): a returned tuple / list built by a comprehension over a display of
    simple elements is the display written out"""
    for st in ast.walk(fnode):
        if not (isinstance(st, ast.Return) and isinstance(st.value, ast.Call) and isinstance(st.value.func, ast.Name) and st.value.func.id in ("tuple", "list")
                and len(st.value.args) == 1 and not st.value.keywords and isinstance(st.value.args[0], (ast.GeneratorExp, ast.ListComp))):
            continue
        comp = st.value.args[0]
        if len(comp.generators) != 1 or comp.generators[0].ifs or not isinstance(comp.generators[0].target, ast.Name):
            continue
        it = comp.generators[0].iter
        if not (isinstance(it, (ast.Tuple, ast.List)) and 1 <= len(it.elts) <= 8 and all(_simple_arg(x) for x in it.elts)) or not _pure_expr(comp.elt):
            continue
        elts = [_Subst({comp.generators[0].target.id: clone(x)}).visit(clone(comp.elt)) for x in it.elts]
        st.value = ast.copy_location((ast.Tuple if st.value.func.id == "tuple" else ast.List)(elts=elts, ctx=ast.Load()), st.value)


def _identity_comprehensions(fnode):
    """[x for x in E] -> list(E): one spelling for 'materialise the iterable';  [f(x) for x in ('a', 'b')] -> [f('a'), f('b')]"""
    class R(ast.NodeTransformer):
        def visit_ListComp(self, n):
            self.generic_visit(n)
            if len(n.generators) == 1 and not n.generators[0].ifs and isinstance(n.generators[0].target, ast.Name) \
                    and isinstance(n.generators[0].iter, (ast.Tuple, ast.List)) and 0 < len(n.generators[0].iter.elts) <= MAX_UNROLL \
                    and all(isinstance(e, ast.Constant) for e in n.generators[0].iter.elts):
                var = n.generators[0].target.id
                return ast.copy_location(ast.List(elts=[_Subst({var: e}).visit(clone(n.elt)) for e in n.generators[0].iter.elts], ctx=ast.Load()), n)
            if len(n.generators) == 1 and not n.generators[0].ifs and not n.generators[0].is_async and isinstance(n.elt, ast.Name) \
                    and isinstance(n.generators[0].target, ast.Name) and n.elt.id == n.generators[0].target.id:
                return ast.copy_location(ast.Call(func=ast.Name(id="list", ctx=ast.Load()), args=[n.generators[0].iter], keywords=[]), n)
            return n

        def visit_Assign(self, st):
            self.generic_visit(st)
            v = st.value
            if isinstance(v, (ast.GeneratorExp, ast.ListComp)) and len(st.targets) == 1 and isinstance(st.targets[0], (ast.Tuple, ast.List)) \
                    and len(v.generators) == 1 and not v.generators[0].ifs and isinstance(v.generators[0].iter, (ast.Tuple, ast.List)) \
                    and len(v.generators[0].iter.elts) == len(st.targets[0].elts) <= MAX_UNROLL \
                    and not any(isinstance(e, ast.Starred) for e in v.generators[0].iter.elts):
                elts = []
                for item in v.generators[0].iter.elts:
                    m = {}
                    if not _bind_target(v.generators[0].target, item, m):
                        return st
                    elts.append(_Subst(m).visit(clone(v.elt)))
                st.value = ast.copy_location(ast.Tuple(elts=elts, ctx=ast.Load()), v)
            return st
    R().visit(fnode)


def _fuse_comprehensions(fnode):
    """`G(a, b) for a, b in ((E1(t), E2(t)) for t in S if c)` -> `G(E1(t), E2(t)) for t in S if c` when the inner generator has one
    clause, its elements are pure and the outer targets bind structurally; a generator held in a new temporary arrives here
    after propagation"""
    changed = False
    for comp in ast.walk(fnode):
        if not isinstance(comp, (ast.GeneratorExp, ast.ListComp, ast.SetComp, ast.DictComp)) or len(comp.generators) != 1:
            continue
        g = comp.generators[0]
        inner = g.iter
        if not isinstance(inner, (ast.GeneratorExp, ast.ListComp)) or len(inner.generators) != 1 or g.is_async or inner.generators[0].is_async:
            continue
        if not _pure_expr(inner.elt):
            continue
        mapping = {}
        if not _bind_target(g.target, inner.elt, mapping):
            continue
        ig = inner.generators[0]
        inner_names = {n.id for n in ast.walk(ig.target) if isinstance(n, ast.Name)}
        outer_used = {n.id for part in ([comp.key, comp.value] if isinstance(comp, ast.DictComp) else [comp.elt]) + list(g.ifs)
                      for n in ast.walk(part) if isinstance(n, ast.Name)}
        if inner_names & (outer_used - set(mapping)):
            continue          # the inner loop variable would capture a name of the outer element
        sub = _Subst(mapping)
        if isinstance(comp, ast.DictComp):
            comp.key = sub.visit(comp.key)
            comp.value = sub.visit(comp.value)
        else:
            comp.elt = sub.visit(comp.elt)
        g.ifs = [clone(i) for i in ig.ifs] + [sub.visit(i) for i in g.ifs]
        g.target = clone(ig.target)
        g.iter = clone(ig.iter)
        changed = True
    return changed


def _expand_partials(fnode, snapshot):
    """`g = partial(F, *a, **k)` for a NEW local g bound once: every call g(*b, **l) becomes F(*a, *b, **k, **l)"""
    snapshot = snapshot or {}
    defs = {}
    for n in ast.walk(fnode):
        if isinstance(n, ast.Assign) and len(n.targets) == 1 and isinstance(n.targets[0], ast.Name) and isinstance(n.value, ast.Call) \
                and (dotted(n.value.func) or "").split(".")[-1] == "partial" and n.value.args and n.targets[0].id not in snapshot:
            defs.setdefault(n.targets[0].id, []).append(n)
    for name, ds in defs.items():
        stores = [x for x in ast.walk(fnode) if isinstance(x, ast.Name) and x.id == name and isinstance(x.ctx, (ast.Store, ast.Del))]
        if len(ds) != 1 or len(stores) != 1:
            continue
        loads = [x for x in ast.walk(fnode) if isinstance(x, ast.Name) and x.id == name and isinstance(x.ctx, ast.Load)]
        calls = [c for c in ast.walk(fnode) if isinstance(c, ast.Call) and isinstance(c.func, ast.Name) and c.func.id == name]
        if len(loads) != len(calls) or not calls:
            continue            # the partial object escapes (passed on, stored): leave it alone
        p = ds[0].value
        for c in calls:
            c.func = clone(p.args[0])
            c.args = [clone(a) for a in p.args[1:]] + c.args
            c.keywords = [clone(k) for k in p.keywords] + c.keywords
        # drop the definition

        class D(ast.NodeTransformer):
            def visit_Assign(self, st):
                return None if st is ds[0] else st
        D().visit(fnode)
        for owner in ast.walk(fnode):
            for fld in ("body", "orelse", "finalbody"):
                blk = getattr(owner, fld, None)
                if isinstance(blk, list) and not blk and fld == "body":
                    blk.append(ast.Pass())


def coalesce_aliases(fnode, snapshot):
    """`n = x` ... `x = n` in one block, n a NEW local, x untouched in between and n unused afterwards: n is x under another
    name (what inlining a helper that re-binds its parameter and hands it back leaves behind) - n is renamed to x."""
    params = {a.arg for a in fnode.args.posonlyargs + fnode.args.args + fnode.args.kwonlyargs}
    changed = True
    rounds = 0
    while changed and rounds < 10:
        changed = False
        rounds += 1
        for owner in ast.walk(fnode):
            for fld in ("body", "orelse", "finalbody"):
                blk = getattr(owner, fld, None)
                if not (isinstance(blk, list) and blk and isinstance(blk[0], ast.stmt)):
                    continue
                for i, st in enumerate(blk):
                    if not (isinstance(st, ast.Assign) and len(st.targets) == 1 and isinstance(st.targets[0], ast.Name) and isinstance(st.value, ast.Name)):
                        continue
                    n, x = st.targets[0].id, st.value.id
                    if n in snapshot or n in params or n == x:
                        continue
                    back = [j for j in range(i + 1, len(blk)) if isinstance(blk[j], ast.Assign) and len(blk[j].targets) == 1
                            and isinstance(blk[j].targets[0], ast.Name) and blk[j].targets[0].id == x and isinstance(blk[j].value, ast.Name) and blk[j].value.id == n]
                    if not back:
                        continue
                    j = back[0]
                    between = blk[i + 1:j]
                    if any(isinstance(m, ast.Name) and m.id == x for s_ in between for m in ast.walk(s_)):
                        continue
                    # n is not used outside blk[i..j]
                    inside = {id(m) for s_ in blk[i:j + 1] for m in ast.walk(s_)}
                    if any(isinstance(m, ast.Name) and m.id == n and id(m) not in inside for m in ast.walk(fnode)):
                        continue
                    for s_ in between:
                        for m in ast.walk(s_):
                            if isinstance(m, ast.Name) and m.id == n:
                                m.id = x
                    del blk[j]
                    del blk[i]
                    if not blk:
                        blk.append(ast.Pass())
                    changed = True
                    break
                if changed:
                    break
            if changed:
                break


def _literal_tree(e):
    if isinstance(e, ast.Constant):
        return True
    if isinstance(e, ast.UnaryOp) and isinstance(e.operand, ast.Constant):
        return True
    if isinstance(e, (ast.Tuple, ast.List)):
        return all(_literal_tree(x) for x in e.elts)
    if isinstance(e, ast.Dict):
        return all(k is not None and _literal_tree(k) for k in e.keys) and all(_literal_tree(x) for x in e.values)
    return False


def _literal_row(e):
    """a row of a dispatch table: a tuple of literals, literal tuples and literal dicts"""
    return isinstance(e, ast.Tuple) and all(_literal_tree(x) for x in e.elts)


def _fresh_value(v):
    """an expression whose value is a new object (not a view of / the same object as something the caller can see)"""
    if isinstance(v, (ast.BinOp, ast.UnaryOp, ast.Compare, ast.Constant, ast.List, ast.Dict, ast.ListComp, ast.DictComp, ast.Tuple, ast.Set, ast.JoinedStr)):
        return True
    if isinstance(v, ast.Call):
        d = dotted(v.func) or ""
        last = d.split(".")[-1]
        if any(k.arg in ("out", "copy", "order", "subok") or k.arg is None for k in v.keywords):
            return False        # out=: the result IS that argument; copy=False and friends may hand the argument back
        # numpy functions that may hand back their argument or a view of it
        if last in ("asarray", "asanyarray", "ravel", "reshape", "atleast_1d", "atleast_2d", "squeeze", "transpose", "view", "swapaxes", "moveaxis",
                    "broadcast_to", "broadcast_arrays", "diagonal", "real", "imag", "get", "pop", "setdefault", "values", "items", "keys", "getattr"):
            return False
        return d.startswith(("np.", "numpy.", "math.")) or last in ("list", "dict", "set", "tuple", "sorted", "copy", "deepcopy", "array", "zeros", "ones", "empty", "full")
    return False


def _inplace_on_new_locals(fnode, snapshot):
    """`x *= e` -> `x = x * e` and `np.f(x, ..., out=x)` -> `x = np.f(x, ...)` for a local x that is NEW (not in the snapshot of the
    function), is not a parameter and is bound only to fresh values: for such an object nobody else holds a reference, so updating it
    in place and re-binding the name cannot be told apart.  (The rules read re-bindings; parameters and known locals are left alone -
    an in-place update of those is what the purity rules look for.)"""
    params = {a.arg for a in fnode.args.args + fnode.args.kwonlyargs + fnode.args.posonlyargs}
    if fnode.args.vararg:
        params.add(fnode.args.vararg.arg)
    if fnode.args.kwarg:
        params.add(fnode.args.kwarg.arg)
    binds = {}
    bad = set()
    for n in ast.walk(fnode):
        if isinstance(n, ast.Assign):
            for t in n.targets:
                if isinstance(t, ast.Name):
                    binds.setdefault(t.id, []).append(n.value)
                else:
                    for x in ast.walk(t):
                        if isinstance(x, ast.Name) and isinstance(x.ctx, ast.Store):
                            bad.add(x.id)
        elif isinstance(n, (ast.For, ast.AsyncFor, ast.comprehension)):
            for x in ast.walk(n.target):
                if isinstance(x, ast.Name):
                    bad.add(x.id)
        elif isinstance(n, (ast.With, ast.AsyncWith)):
            for it in n.items:
                if it.optional_vars is not None:
                    for x in ast.walk(it.optional_vars):
                        if isinstance(x, ast.Name):
                            bad.add(x.id)
        elif isinstance(n, (ast.AnnAssign, ast.NamedExpr)) and isinstance(n.target, ast.Name):
            bad.add(n.target.id)
        elif isinstance(n, (ast.Global, ast.Nonlocal)):
            bad.update(n.names)
    ok = {k for k, vs in binds.items() if k not in params and k not in bad and k not in (snapshot or {}) and all(_fresh_value(v) for v in vs)}
    # ... and nobody else can hold the object when it is updated: no use of the name (an alias `y = x`, an argument, an element of a
    # container) lies before its last in-place update, other than those updates themselves
    def updates_of(name):
        out = []
        for n in ast.walk(fnode):
            if isinstance(n, ast.AugAssign) and isinstance(n.target, ast.Name) and n.target.id == name:
                out.append(n)
            elif isinstance(n, ast.Expr) and isinstance(n.value, ast.Call) and any(k.arg == "out" and isinstance(k.value, ast.Name) and k.value.id == name
                                                                                   for k in n.value.keywords):
                out.append(n)
        return out
    for name in sorted(ok):
        ups = updates_of(name)
        if not ups:
            ok.discard(name)
            continue
        last_line = max(getattr(u, "lineno", 0) for u in ups)
        inside = {id(x) for u in ups for x in ast.walk(u)}
        for n in ast.walk(fnode):
            if isinstance(n, ast.Name) and n.id == name and isinstance(n.ctx, ast.Load) and id(n) not in inside and getattr(n, "lineno", 0) <= last_line:
                ok.discard(name)
                break
    if not ok:
        return 0
    count = 0

    def rec(stmts, in_loop=False):
        nonlocal count
        for i, st in enumerate(stmts):
            if isinstance(st, (ast.FunctionDef, ast.AsyncFunctionDef, ast.ClassDef)):
                continue
            # (inside a loop `acc += x` is an accumulation - the form the rules read - and stays)
            if isinstance(st, ast.AugAssign) and isinstance(st.target, ast.Name) and st.target.id in ok and not in_loop:
                new = ast.Assign(targets=[ast.Name(id=st.target.id, ctx=ast.Store())],
                                 value=ast.BinOp(left=ast.Name(id=st.target.id, ctx=ast.Load()), op=st.op, right=st.value))
                stmts[i] = ast.copy_location(new, st)
                count += 1
                continue
            if isinstance(st, ast.Expr) and isinstance(st.value, ast.Call) and (dotted(st.value.func) or "").startswith(("np.", "numpy.")):
                c = st.value
                outs = [k for k in c.keywords if k.arg == "out"]
                if len(outs) == 1 and isinstance(outs[0].value, ast.Name) and outs[0].value.id in ok and c.args \
                        and isinstance(c.args[0], ast.Name) and c.args[0].id == outs[0].value.id:
                    call = ast.Call(func=c.func, args=c.args, keywords=[k for k in c.keywords if k.arg != "out"])
                    stmts[i] = ast.copy_location(ast.Assign(targets=[ast.Name(id=outs[0].value.id, ctx=ast.Store())], value=call), st)
                    count += 1
                    continue
            for fld in ("body", "orelse", "finalbody"):
                sub = getattr(st, fld, None)
                if isinstance(sub, list) and sub and isinstance(sub[0], ast.stmt):
                    rec(sub, in_loop or (isinstance(st, (ast.For, ast.AsyncFor, ast.While)) and fld == "body"))
            if isinstance(st, ast.Try):
                for h in st.handlers:
                    rec(h.body, in_loop)
    rec(fnode.body)
    if count:
        ast.fix_missing_locations(fnode)
    return count


def _collect_keyed_fill(fnode, snapshot):
    """d = {}; d["a"] = x; d["b"] = y; d.update({"c": z}); d.update(e=w)  ->  d = {"a": x, "b": y, "c": z, "e": w}
    for a NEW local d: a dictionary filled key by key right after its creation is the display written out (later entries of the same
    key replace earlier ones, as in a display)"""
    known = set(snapshot or ())
    count = 0

    def uses(e, name):
        return any(isinstance(n, ast.Name) and n.id == name for n in ast.walk(e))

    def rec(stmts):
        nonlocal count
        i = 0
        while i < len(stmts):
            st = stmts[i]
            if isinstance(st, (ast.FunctionDef, ast.AsyncFunctionDef, ast.ClassDef)):
                i += 1
                continue
            for fld in ("body", "orelse", "finalbody"):
                sub = getattr(st, fld, None)
                if isinstance(sub, list) and sub and isinstance(sub[0], ast.stmt):
                    rec(sub)
            if isinstance(st, ast.Try):
                for h in st.handlers:
                    rec(h.body)
            if isinstance(st, ast.Assign) and len(st.targets) == 1 and isinstance(st.targets[0], ast.Name):
                name = st.targets[0].id
                v = st.value
                start = None
                if isinstance(v, ast.Dict):
                    start = (list(v.keys), list(v.values))
                elif isinstance(v, ast.Call) and isinstance(v.func, ast.Name) and v.func.id == "dict" and not v.args and all(k.arg for k in v.keywords):
                    start = ([ast.Constant(k.arg) for k in v.keywords], [k.value for k in v.keywords])
                elif isinstance(v, ast.Call) and isinstance(v.func, ast.Name) and v.func.id == "dict" and len(v.args) == 1 and not isinstance(v.args[0], ast.Starred) \
                        and all(k.arg for k in v.keywords):
                    start = ([None] + [ast.Constant(k.arg) for k in v.keywords], [v.args[0]] + [k.value for k in v.keywords])
                if start is not None:
                    keys, vals = start
                    j = i + 1
                    while j < len(stmts):
                        nx = stmts[j]
                        if isinstance(nx, ast.Assign) and len(nx.targets) == 1 and isinstance(nx.targets[0], ast.Subscript) and isinstance(nx.targets[0].value, ast.Name) \
                                and nx.targets[0].value.id == name and isinstance(nx.targets[0].slice, ast.Constant) and not uses(nx.value, name):
                            keys.append(nx.targets[0].slice)
                            vals.append(nx.value)
                        elif isinstance(nx, ast.Expr) and isinstance(nx.value, ast.Call) and isinstance(nx.value.func, ast.Attribute) and nx.value.func.attr == "update" \
                                and isinstance(nx.value.func.value, ast.Name) and nx.value.func.value.id == name and not uses(ast.Tuple(elts=list(nx.value.args) + [k.value for k in nx.value.keywords], ctx=ast.Load()), name) \
                                and all(k.arg for k in nx.value.keywords) and len(nx.value.args) <= 1 \
                                and (not nx.value.args or isinstance(nx.value.args[0], ast.Dict) or _simple_arg(nx.value.args[0])):
                            if nx.value.args and isinstance(nx.value.args[0], ast.Dict):
                                keys.extend(nx.value.args[0].keys)
                                vals.extend(nx.value.args[0].values)
                            elif nx.value.args:
                                keys.append(None)               # d.update(other) -> {**d, **other}
                                vals.append(nx.value.args[0])
                            keys.extend(ast.Constant(k.arg) for k in nx.value.keywords)
                            vals.extend(k.value for k in nx.value.keywords)
                        else:
                            break
                        j += 1
                    if j > i + 1:
                        st.value = ast.copy_location(ast.Dict(keys=keys, values=vals), st.value)
                        del stmts[i + 1:j]
                        count += 1
            i += 1
    rec(fnode.body)
    if count:
        ast.fix_missing_locations(fnode)
    return count


def _fold_constant_conditions(fnode):
    """after a helper was inlined with literal flags: `False and x` -> False, `True and x` -> x, `not True` -> False, and an `if` /
    conditional expression whose test is a literal keeps the arm that is taken"""
    class E(ast.NodeTransformer):
        def visit_BoolOp(self, n):
            self.generic_visit(n)
            is_and = isinstance(n.op, ast.And)
            vals = []
            for v in n.values:
                if isinstance(v, ast.Constant) and isinstance(v.value, bool):
                    if v.value != is_and:
                        # False in an `and` / True in an `or`: decides the result, provided what stands before it has no effect
                        if all(_pure_expr(x) for x in vals):
                            return ast.copy_location(ast.Constant(value=v.value), n)
                        vals.append(v)
                    # True in an `and` / False in an `or`: neutral
                    continue
                vals.append(v)
            if not vals:
                return ast.copy_location(ast.Constant(value=is_and), n)
            if len(vals) == 1:
                return vals[0]
            n.values = vals
            return n

        def visit_UnaryOp(self, n):
            self.generic_visit(n)
            if isinstance(n.op, ast.Not) and isinstance(n.operand, ast.Constant) and isinstance(n.operand.value, bool):
                return ast.copy_location(ast.Constant(value=not n.operand.value), n)
            return n

        def visit_IfExp(self, n):
            self.generic_visit(n)
            if isinstance(n.test, ast.Constant) and isinstance(n.test.value, bool):
                return n.body if n.test.value else n.orelse
            return n
    E().visit(fnode)

    def rec(stmts):
        out = []
        for st in stmts:
            if isinstance(st, (ast.FunctionDef, ast.AsyncFunctionDef, ast.ClassDef)):
                out.append(st)
                continue
            for fld in ("body", "orelse", "finalbody"):
                sub = getattr(st, fld, None)
                if isinstance(sub, list) and sub and isinstance(sub[0], ast.stmt):
                    setattr(st, fld, rec(sub) or ([ast.Pass()] if fld == "body" else []))
            if isinstance(st, ast.Try):
                for h in st.handlers:
                    h.body = rec(h.body) or [ast.Pass()]
            if isinstance(st, ast.If) and isinstance(st.test, ast.Constant) and isinstance(st.test.value, bool):
                out.extend(st.body if st.test.value else st.orelse)
                continue
            out.append(st)
        return out
    fnode.body = rec(fnode.body) or [ast.Pass()]
    ast.fix_missing_locations(fnode)


def _param_shadow_back(fnode, snapshot):
    """A NEW local that takes the place of a re-bound parameter (`T_arr = np.asarray([T]) if scalar else T` ... use T_arr) is the
    parameter again: one of its definitions is exactly `X = P`, and from its first definition on P is read only inside X's definitions."""
    params = [a.arg for a in fnode.args.posonlyargs + fnode.args.args + fnode.args.kwonlyargs]
    known = set(snapshot or ())
    stores = {}
    for n in ast.walk(fnode):
        if isinstance(n, ast.Name) and isinstance(n.ctx, (ast.Store, ast.Del)):
            stores.setdefault(n.id, []).append(n)
    changed = 0
    for x in sorted(stores):
        if x in known or x in params:
            continue
        defs = [st for st in ast.walk(fnode) if isinstance(st, ast.Assign) and len(st.targets) == 1 and isinstance(st.targets[0], ast.Name) and st.targets[0].id == x]
        if len(defs) != len(stores[x]) or not defs:
            continue
        ident = [st for st in defs if isinstance(st.value, ast.Name) and st.value.id in params]
        cand = {st.value.id for st in ident}
        ifexp = [st for st in defs if isinstance(st.value, ast.IfExp) and any(isinstance(b, ast.Name) and b.id in params for b in (st.value.body, st.value.orelse))]
        for st in ifexp:
            cand |= {b.id for b in (st.value.body, st.value.orelse) if isinstance(b, ast.Name) and b.id in params}
        if len(cand) != 1:
            continue
        p = cand.pop()
        if p in stores:
            continue            # the parameter is re-bound itself somewhere
        first = min(getattr(st, "lineno", 0) for st in defs)
        in_defs = {id(n) for st in defs for n in ast.walk(st)}
        later = [n for n in ast.walk(fnode) if isinstance(n, ast.Name) and n.id == p and isinstance(n.ctx, ast.Load) and id(n) not in in_defs
                 and getattr(n, "lineno", 0) >= first]
        if later:
            continue
        before = [n for n in ast.walk(fnode) if isinstance(n, ast.Name) and n.id == x and isinstance(n.ctx, ast.Load) and getattr(n, "lineno", 0) < first]
        if before:
            continue
        _Rename({x: p}).visit(fnode)

        def drop(stmts):
            out = []
            for st in stmts:
                if isinstance(st, ast.Assign) and len(st.targets) == 1 and isinstance(st.targets[0], ast.Name) and isinstance(st.value, ast.Name) \
                        and st.targets[0].id == st.value.id == p:
                    continue
                for fld in ("body", "orelse", "finalbody"):
                    sub = getattr(st, fld, None)
                    if isinstance(sub, list) and sub and isinstance(sub[0], ast.stmt):
                        new = drop(sub)
                        setattr(st, fld, new if (new or fld != "body") else [ast.copy_location(ast.Pass(), st)])
                out.append(st)
            return out
        fnode.body = drop(fnode.body)
        changed += 1
    if changed:
        ast.fix_missing_locations(fnode)
    return changed


def _coalesce_into_rebound(fnode, snapshot):
    """first = E(start) ... start = F(first)  ->  start = E(start) ... start = F(start): a NEW local whose whole life lies between its
    definition (one assignment, or one if/else tree of single assignments) and a later re-binding of a KNOWN name P in the same
    block, while P itself is neither read nor written from that definition up to the re-binding, shares P's name - their live ranges
    do not meet (not inside `try`: a handler could see the difference)."""
    params = {a.arg for a in fnode.args.posonlyargs + fnode.args.args + fnode.args.kwonlyargs}
    if fnode.args.vararg:
        params.add(fnode.args.vararg.arg)
    if fnode.args.kwarg:
        params.add(fnode.args.kwarg.arg)
    known = set(snapshot or ()) | params
    in_try = {id(x) for t in ast.walk(fnode) if isinstance(t, ast.Try) for x in ast.walk(t) if x is not t}
    # (a generator expression reads its names when it is consumed, not where it is written)
    nested = {n.id for d in ast.walk(fnode) if isinstance(d, (ast.FunctionDef, ast.AsyncFunctionDef, ast.Lambda, ast.ClassDef, ast.GeneratorExp)) and d is not fnode
              for n in ast.walk(d) if isinstance(n, ast.Name)}

    def single_defs(st, name):
        """st assigns `name` and nothing else: Assign, or an If tree whose arms are such statements; returns the value nodes or None"""
        if isinstance(st, ast.Assign) and len(st.targets) == 1 and isinstance(st.targets[0], ast.Name) and st.targets[0].id == name:
            return [st.value]
        if isinstance(st, ast.If) and len(st.body) == 1 and len(st.orelse) == 1:
            a, b = single_defs(st.body[0], name), single_defs(st.orelse[0], name)
            if a is not None and b is not None:
                return a + b
        return None

    def names_in(nodes, ctx=None):
        return [n for x in nodes for n in ast.walk(x) if isinstance(n, ast.Name) and (ctx is None or isinstance(n.ctx, ctx))]

    changed = 0
    for _ in range(8):
        hit = False
        for owner in ast.walk(fnode):
            for fld in ("body", "orelse", "finalbody"):
                blk = getattr(owner, fld, None)
                if not (isinstance(blk, list) and blk and isinstance(blk[0], ast.stmt)):
                    continue
                for i, s1 in enumerate(blk):
                    if id(s1) in in_try:
                        continue
                    tgt = None
                    if isinstance(s1, ast.Assign) and len(s1.targets) == 1 and isinstance(s1.targets[0], ast.Name):
                        tgt = s1.targets[0].id
                    elif isinstance(s1, ast.If):
                        st_ = s1
                        while isinstance(st_, ast.If) and len(st_.body) == 1:
                            st_ = st_.body[0]
                        if isinstance(st_, ast.Assign) and len(st_.targets) == 1 and isinstance(st_.targets[0], ast.Name):
                            tgt = st_.targets[0].id
                    if tgt is None or tgt in known or tgt in nested or single_defs(s1, tgt) is None:
                        continue
                    for j in range(i + 1, len(blk)):
                        s2 = blk[j]
                        if not (isinstance(s2, ast.Assign) and len(s2.targets) == 1 and isinstance(s2.targets[0], ast.Name)
                                and s2.targets[0].id in known and s2.targets[0].id not in nested):
                            continue
                        pn = s2.targets[0].id
                        if not any(n.id == tgt for n in names_in([s2.value])):
                            continue
                        # every occurrence of the new local lies in blk[i..j]
                        inside = {id(n) for n in names_in(blk[i:j + 1])}
                        if any(n.id == tgt and id(n) not in inside for n in names_in([fnode])):
                            break
                        # ... and it is bound only by the defining statement
                        in_s1 = {id(n) for n in names_in([s1])}
                        if any(n.id == tgt and isinstance(n.ctx, (ast.Store, ast.Del)) and id(n) not in in_s1 for n in names_in(blk[i:j + 1])):
                            break
                        # P is untouched from the definition up to (and including the value of) the re-binding
                        if any(n.id == pn for n in names_in(blk[i + 1:j])) or any(n.id == pn for n in names_in([s2.value])):
                            break
                        if any(n.id == pn and isinstance(n.ctx, (ast.Store, ast.Del)) for n in names_in([s1])):
                            break
                        _Rename({tgt: pn}).visit(ast.Module(body=blk[i:j + 1], type_ignores=[]))
                        if isinstance(blk[j].value, ast.Name) and blk[j].value.id == pn:
                            del blk[j]            # `P = P` is left of `P = <the local>`
                        hit = True
                        changed += 1
                        break
                    if hit:
                        break
                if hit:
                    break
            if hit:
                break
        if not hit:
            break
    if changed:
        ast.fix_missing_locations(fnode)
    return changed


def _sort_in_place_to_sorted(fnode):
    """x = list(E) / x = <fresh list>; x.sort(key=..) [next statement]  ->  x = sorted(E, key=..)"""
    count = 0

    def rec(stmts):
        nonlocal count
        i = 0
        while i < len(stmts):
            st = stmts[i]
            if isinstance(st, (ast.FunctionDef, ast.AsyncFunctionDef, ast.ClassDef)):
                i += 1
                continue
            for fld in ("body", "orelse", "finalbody"):
                sub = getattr(st, fld, None)
                if isinstance(sub, list) and sub and isinstance(sub[0], ast.stmt):
                    rec(sub)
            if isinstance(st, ast.Try):
                for h in st.handlers:
                    rec(h.body)
            if isinstance(st, ast.Assign) and len(st.targets) == 1 and isinstance(st.targets[0], ast.Name) and i + 1 < len(stmts):
                nx = stmts[i + 1]
                name = st.targets[0].id
                if isinstance(nx, ast.Expr) and isinstance(nx.value, ast.Call) and isinstance(nx.value.func, ast.Attribute) and nx.value.func.attr == "sort" \
                        and isinstance(nx.value.func.value, ast.Name) and nx.value.func.value.id == name and not nx.value.args \
                        and not any(isinstance(n_, ast.Name) and n_.id == name for k_ in nx.value.keywords for n_ in ast.walk(k_.value)):
                    v = st.value
                    src = None
                    if isinstance(v, ast.Call) and isinstance(v.func, ast.Name) and v.func.id == "list" and len(v.args) == 1 and not v.keywords:
                        src = v.args[0]
                    elif isinstance(v, (ast.List, ast.ListComp)):
                        src = v
                    if src is not None:
                        st.value = ast.copy_location(ast.Call(func=ast.Name(id="sorted", ctx=ast.Load()), args=[src], keywords=list(nx.value.keywords)), v)
                        del stmts[i + 1]
                        count += 1
            i += 1
    rec(fnode.body)
    if count:
        ast.fix_missing_locations(fnode)
    return count


def _function_refs_to_lambdas(fnode, module, known, func=None):
    """key=_helper / map(_helper, xs) / key=Class._helper / key=self._helper with a NEW helper that is one expression (after its own
    temporaries are written out): the reference becomes the lambda it stands for"""
    def as_lambda(st, drop_self):
        if any(not (isinstance(d, ast.Name) and d.id == "staticmethod") for d in st.decorator_list):
            return None
        eh = _expr_helper(st, drop_self)
        if eh is None or eh[1]:
            return None
        names = eh[0]
        call = ast.Call(func=ast.Name(id=st.name, ctx=ast.Load()), args=[ast.Name(id=a, ctx=ast.Load()) for a in names], keywords=[])
        body = _inline_expr(call, eh)
        if body is None:
            return None
        if drop_self and any(isinstance(n, ast.Name) and n.id == "self" for n in ast.walk(body)):
            pass        # the bound method's self is the caller's self: the lambda closes over it
        return names, body
    cands, mcands = {}, {}
    for st in module.tree.body:
        if isinstance(st, ast.FunctionDef) and st.name not in known and not st.decorator_list:
            lam = as_lambda(st, False)
            if lam is not None:
                cands[st.name] = lam
    cls = getattr(func, "cls", None) if func is not None else None
    if cls is not None:
        for st in getattr(cls, "body", []):
            if isinstance(st, ast.FunctionDef) and "%s.%s" % (cls.name, st.name) not in known \
                    and "%s._%s%s" % (cls.name, cls.name, st.name) not in known:
                static = any(isinstance(d, ast.Name) and d.id == "staticmethod" for d in st.decorator_list)
                if static:
                    lam = as_lambda(st, False)
                    if lam is not None:
                        mcands[("self", st.name)] = mcands[("cls", st.name)] = mcands[(cls.name, st.name)] = lam
                elif not st.decorator_list:
                    lam = as_lambda(st, True)
                    if lam is not None:
                        mcands[("self", st.name)] = lam
    if not cands and not mcands:
        return
    call_funcs = {id(n.func) for n in ast.walk(fnode) if isinstance(n, ast.Call)}

    def make(names, body, at):
        return ast.copy_location(ast.Lambda(args=ast.arguments(posonlyargs=[], args=[ast.arg(arg=a) for a in names], kwonlyargs=[], kw_defaults=[], defaults=[]),
                                            body=clone(body)), at)

    class R(ast.NodeTransformer):
        def visit_Name(self, n):
            if isinstance(n.ctx, ast.Load) and n.id in cands and id(n) not in call_funcs:
                return make(cands[n.id][0], cands[n.id][1], n)
            return n

        def visit_Attribute(self, n):
            if isinstance(n.ctx, ast.Load) and isinstance(n.value, ast.Name) and (n.value.id, n.attr) in mcands and id(n) not in call_funcs:
                names, body = mcands[(n.value.id, n.attr)]
                return make(names, body, n)
            self.generic_visit(n)
            return n
    stored = {n.id for n in ast.walk(fnode) if isinstance(n, ast.Name) and isinstance(n.ctx, ast.Store)}
    for k in list(cands):
        if k in stored:
            cands.pop(k)
    if "self" in stored or "cls" in stored:
        mcands.clear()
    R().visit(fnode)
    ast.fix_missing_locations(fnode)


def _concat_displays(fnode):
    """(a, b) + (c, d) -> (a, b, c, d) and [a] + [b] -> [a, b]: the sum of two displays of the same kind is the display"""
    class C(ast.NodeTransformer):
        def visit_BinOp(self, n):
            self.generic_visit(n)
            if isinstance(n.op, ast.Add) and type(n.left) is type(n.right) and isinstance(n.left, (ast.Tuple, ast.List)) \
                    and not any(isinstance(e, ast.Starred) for e in n.left.elts + n.right.elts):
                return ast.copy_location(type(n.left)(elts=list(n.left.elts) + list(n.right.elts), ctx=ast.Load()), n)
            return n
    C().visit(fnode)
    ast.fix_missing_locations(fnode)


def _splice_starred_displays(fnode):
    """(a, *(b, c)) -> (a, b, c); f(a, *(b, c)) -> f(a, b, c): a starred tuple / list display is written out in place"""
    def splice(elts):
        out, changed = [], False
        for e in elts:
            if isinstance(e, ast.Starred) and isinstance(e.value, (ast.Tuple, ast.List)) and not any(isinstance(x, ast.Starred) for x in e.value.elts):
                out.extend(e.value.elts)
                changed = True
            else:
                out.append(e)
        return out, changed
    for n in ast.walk(fnode):
        if isinstance(n, (ast.Tuple, ast.List, ast.Set)) and isinstance(getattr(n, "ctx", ast.Load()), ast.Load):
            n.elts, _ = splice(n.elts)
        elif isinstance(n, ast.Call):
            n.args, _ = splice(n.args)
        elif isinstance(n, ast.Dict) and any(k is None and isinstance(v, ast.Dict) for k, v in zip(n.keys, n.values)):
            # {**{"a": x}, **rest} -> {"a": x, **rest}
            keys, vals = [], []
            for k, v in zip(n.keys, n.values):
                if k is None and isinstance(v, ast.Dict):
                    keys.extend(v.keys)
                    vals.extend(v.values)
                else:
                    keys.append(k)
                    vals.append(v)
            n.keys, n.values = keys, vals


def _explicit_keywords(fnode):
    """f(**{"k": v}) -> f(k=v)"""
    for c in ast.walk(fnode):
        if isinstance(c, ast.Call):
            new = []
            for kw in c.keywords:
                if kw.arg is None and isinstance(kw.value, ast.Dict) and kw.value.keys and all(
                        isinstance(k, ast.Constant) and isinstance(k.value, str) and k.value.isidentifier() for k in kw.value.keys):
                    new.extend(ast.keyword(arg=k.value, value=v) for k, v in zip(kw.value.keys, kw.value.values))
                else:
                    new.append(kw)
            c.keywords = new


CONSTANT_ROOTS = {"np", "numpy", "math", "datetime", "timedelta", "date", "frozenset", "set", "tuple", "dict", "list", "float", "int", "str", "slice",
                  "range", "re", "operator", "pd", "Fraction", "Decimal", "getattr", "hasattr", "calendar", "scipy", "os", "posixpath"}


def _constant_expr(v, consts=(), depth=0):
    """an expression built from literals and well-known library names only: its value is the same wherever it is written"""
    if depth > 8:
        return False
    if isinstance(v, ast.Constant):
        return True
    if isinstance(v, ast.JoinedStr):
        return all(isinstance(x, ast.Constant) for x in v.values)
    if isinstance(v, (ast.Tuple, ast.List, ast.Set)):
        return all(_constant_expr(e, consts, depth + 1) for e in v.elts)
    if isinstance(v, ast.Dict):
        return all(k is not None and _constant_expr(k, consts, depth + 1) for k in v.keys) and all(_constant_expr(e, consts, depth + 1) for e in v.values)
    if isinstance(v, ast.UnaryOp):
        return _constant_expr(v.operand, consts, depth + 1)
    if isinstance(v, ast.BinOp):
        return _constant_expr(v.left, consts, depth + 1) and _constant_expr(v.right, consts, depth + 1)
    if isinstance(v, ast.BoolOp):
        return all(_constant_expr(x, consts, depth + 1) for x in v.values)
    if isinstance(v, ast.IfExp):
        return all(_constant_expr(x, consts, depth + 1) for x in (v.test, v.body, v.orelse))
    if isinstance(v, ast.Compare):
        return _constant_expr(v.left, consts, depth + 1) and all(_constant_expr(x, consts, depth + 1) for x in v.comparators)
    if isinstance(v, ast.Name):
        return v.id in CONSTANT_ROOTS or v.id in consts
    if isinstance(v, ast.Attribute):
        if v.attr in ("environ", "argv", "path", "stdin", "stdout", "modules") and isinstance(v.value, ast.Name) and v.value.id in ("os", "sys"):
            return v.attr == "path" and v.value.id == "os"      # os.path.<function> is fine; os.environ & co. are state of the process
        return _constant_expr(v.value, consts, depth + 1)
    if isinstance(v, ast.Subscript):
        return _constant_expr(v.value, consts, depth + 1) and _constant_expr(v.slice, consts, depth + 1)
    if isinstance(v, ast.Call):
        d = dotted(v.func) or ""
        if d.split(".")[-1] in ("random", "rand", "randn", "now", "today", "utcnow", "time", "getenv", "environ", "open", "shuffle", "permutation", "seed"):
            return False
        return _constant_expr(v.func, consts, depth + 1) and all(_constant_expr(a, consts, depth + 1) for a in v.args) \
            and all(k.arg is not None and _constant_expr(k.value, consts, depth + 1) for k in v.keywords)
    if isinstance(v, ast.Lambda):
        own = {a.arg for a in v.args.args + v.args.kwonlyargs + v.args.posonlyargs}
        free = {n.id for n in ast.walk(v.body) if isinstance(n, ast.Name)} - own
        return free <= CONSTANT_ROOTS and not any(isinstance(n, (ast.Yield, ast.Await, ast.NamedExpr)) for n in ast.walk(v.body))
    return False


def _inline_new_class_constants(fnode, func, module):
    """Class.NAME / self.NAME / cls.NAME for a class-level NAME = <constant expression> that is not in the snapshot: written out"""
    cls = getattr(func, "cls", None)
    if cls is None:
        return
    from .state import known as _known_state
    base = _known_state().get(module.rel, {}).get("attrs", {}).get(cls.name)
    if base is None:
        return
    cnode = cls.node if hasattr(cls, "node") else cls
    consts = {}
    class_names = {t.id for st in getattr(cnode, "body", []) if isinstance(st, ast.Assign) for t in st.targets if isinstance(t, ast.Name)}

    class Q(ast.NodeTransformer):
        """inside the class body a bare NAME is the class attribute: Class.NAME outside"""
        def visit_Name(self, n):
            if isinstance(n.ctx, ast.Load) and n.id in class_names:
                return ast.copy_location(ast.Attribute(value=ast.Name(id=cls.name, ctx=ast.Load()), attr=n.id, ctx=ast.Load()), n)
            return n
    for st in getattr(cnode, "body", []):
        if isinstance(st, ast.Assign) and len(st.targets) == 1 and isinstance(st.targets[0], ast.Name) and st.targets[0].id not in base \
                and _constant_expr(st.value, consts=class_names):
            consts[st.targets[0].id] = ast.fix_missing_locations(Q().visit(clone(st.value)))
    if not consts:
        return
    # never assigned through an instance / the class anywhere in the module
    for n in ast.walk(module.tree):
        if isinstance(n, ast.Attribute) and isinstance(n.ctx, (ast.Store, ast.Del)) and n.attr in consts:
            consts.pop(n.attr, None)
    if not consts:
        return
    me = fnode.args.args[0].arg if fnode.args.args else None

    class R(ast.NodeTransformer):
        def visit_Attribute(self, n):
            self.generic_visit(n)
            if isinstance(n.ctx, ast.Load) and n.attr in consts and isinstance(n.value, ast.Name) and n.value.id in (cls.name, me, "self", "cls"):
                return ast.copy_location(clone(consts[n.attr]), n)
            return n
    R().visit(fnode)
    ast.fix_missing_locations(fnode)


def _inline_new_module_constants(fnode, module, known):
    """a module-level NAME = <constant-like value> that is not in the snapshot (a literal hoisted into a named constant) is
    written out where it is used"""
    consts = {}
    written = set()
    for n in ast.walk(module.tree):
        if isinstance(n, (ast.FunctionDef, ast.AsyncFunctionDef)):
            declared = {nm for g in ast.walk(n) if isinstance(g, ast.Global) for nm in g.names}
            written |= declared
            for x in ast.walk(n):
                if isinstance(x, (ast.Subscript, ast.Attribute)) and isinstance(x.ctx, (ast.Store, ast.Del)):
                    b = x.value
                    while isinstance(b, (ast.Subscript, ast.Attribute)):
                        b = b.value
                    if isinstance(b, ast.Name):
                        written.add(b.id)
                elif isinstance(x, ast.Call) and isinstance(x.func, ast.Attribute) and x.func.attr in MUTATORS and isinstance(x.func.value, ast.Name):
                    written.add(x.func.value.id)
    for st in module.tree.body:
        if isinstance(st, ast.Assign) and len(st.targets) == 1 and isinstance(st.targets[0], ast.Name) and "<global>:" + st.targets[0].id not in known:
            v = st.value
            ok = isinstance(v, ast.Constant) or (isinstance(v, ast.Call) and isinstance(v.func, ast.Name) and v.func.id in ("slice", "frozenset", "tuple")
                                               and all(isinstance(a, (ast.Constant, ast.UnaryOp)) for a in v.args) and not v.keywords) \
                or (isinstance(v, (ast.Tuple, ast.List)) and all(isinstance(e, (ast.Constant, ast.Tuple)) or _literal_row(e) for e in v.elts)) \
                or (isinstance(v, ast.UnaryOp) and isinstance(v.operand, ast.Constant))
            if not ok and st.targets[0].id not in written and sum(1 for s2 in module.tree.body if isinstance(s2, ast.Assign) and any(
                    isinstance(t2, ast.Name) and t2.id == st.targets[0].id for t2 in s2.targets)) == 1:
                ok = _constant_expr(v, consts)       # np.dtype('>i2'), timedelta(microseconds=1), np.array([...]), datetime.max - datetime.min ...
            if ok:
                consts[st.targets[0].id] = v
    if not consts:
        return
    assigned = {n.id for n in ast.walk(fnode) if isinstance(n, ast.Name) and isinstance(n.ctx, (ast.Store, ast.Del))}
    params = {a.arg for a in fnode.args.posonlyargs + fnode.args.args + fnode.args.kwonlyargs}
    use = {k: v for k, v in consts.items() if k not in assigned and k not in params}
    if use:
        _Subst(use).visit(fnode)

        class SL(ast.NodeTransformer):
            def visit_Subscript(self, n):
                self.generic_visit(n)
                from .canon import _Canon
                return _Canon.visit_Subscript(_NoVisit(), n)

        class _NoVisit:
            def generic_visit(self, n):
                return n
        SL().visit(fnode)


def _distribute_calls_over_ifexp(fnode):
    """(f if c else g)(args) -> f(args) if c else g(args), wherever it occurs"""
    class R(ast.NodeTransformer):
        def visit_Call(self, n):
            self.generic_visit(n)
            if isinstance(n.func, ast.IfExp):
                fx = n.func
                new = ast.IfExp(test=fx.test,
                                body=ast.Call(func=fx.body, args=[clone(a) for a in n.args], keywords=[clone(k) for k in n.keywords]),
                                orelse=ast.Call(func=fx.orelse, args=[clone(a) for a in n.args], keywords=[clone(k) for k in n.keywords]))
                return ast.fix_missing_locations(ast.copy_location(new, n))
            return n
    R().visit(fnode)
