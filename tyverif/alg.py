"""Formula algebra (T5): turn branch-free (or finitely branching) function bodies into sympy
terms and decide identities by canonical forms.  No typhon code is executed: the terms are read
off the AST.

Values are sympy expressions, explicit sympy matrices, python tuples of values, or
python callables (for function-valued parameters such as `e_eq`).
"""
import ast
import itertools
import sympy as sp
from .core import AnalysisError, norm, dotted

CONSTANTS = "typhon/constants.py"


class Unsupported(AnalysisError):
    pass


class NeedChoice(Exception):
    def __init__(self, text):
        self.text = text


class PathRaised(Exception):
    """the interpreted path ends in a raise statement"""


class Const:
    """typhon.constants resolved statically: alias groups share one symbol; derived
    constants are kept as expressions of the basic ones."""

    def __init__(self, repo):
        self.mod = repo.mod(CONSTANTS)
        self.sym = {}
        self.value = {}     # canonical name -> literal numeric value if written as a literal
        self.expr = {}
        for st in self.mod.tree.body:
            if not isinstance(st, ast.Assign):
                continue
            names = [t.id for t in st.targets if isinstance(t, ast.Name)]
            if not names:
                continue
            canon = names[-1] if len(names) > 1 else names[0]
            v = st.value
            if isinstance(v, ast.Constant) and isinstance(v.value, (int, float)):
                s = sp.Symbol("K_" + canon, positive=True)
                self.value[canon] = v.value
            elif isinstance(v, ast.Attribute) and dotted(v) and dotted(v).startswith("spc."):
                s = sp.Symbol("K_" + canon, positive=True)
            else:
                try:
                    s = self._derived(v)
                except Unsupported:
                    s = sp.Symbol("K_" + canon, positive=True)
            for n in names:
                self.sym[n] = s
                self.expr[n] = v

    def _derived(self, v):
        if isinstance(v, ast.Name):
            if v.id in self.sym:
                return self.sym[v.id]
            raise Unsupported(v.id)
        if isinstance(v, ast.Constant) and isinstance(v.value, (int, float)):
            return sp.Rational(str(v.value)) if isinstance(v.value, float) else sp.Integer(v.value)
        if isinstance(v, ast.BinOp):
            l, r = self._derived(v.left), self._derived(v.right)
            return _binop(v.op, l, r)
        if isinstance(v, ast.Attribute) and dotted(v) in ("np.pi", "spc.pi"):
            return sp.pi
        raise Unsupported(norm(v))

    def get(self, name):
        if name not in self.sym:
            raise AnalysisError("typhon.constants.%s not found" % name)
        return self.sym[name]


def _binop(op, l, r):
    if isinstance(op, ast.Add):
        return l + r
    if isinstance(op, ast.Sub):
        return l - r
    if isinstance(op, ast.Mult):
        return l * r
    if isinstance(op, ast.Div):
        if isinstance(r, sp.MatrixBase) and not isinstance(l, sp.MatrixBase):
            return r.applyfunc(lambda x: l / x)     # numpy: element-wise
        if isinstance(r, sp.MatrixBase) and isinstance(l, sp.MatrixBase):
            # numpy divides element-wise with broadcasting; the matrix model has no such operation
            raise Unsupported("element-wise division of two arrays (%s / %s)" % (l.shape, r.shape))
        return l / r
    if isinstance(op, ast.Pow):
        return l ** r
    if isinstance(op, ast.MatMult):
        return l * r
    _B = sp.logic.boolalg.Boolean
    if isinstance(op, (ast.BitAnd, ast.BitOr)) and all(isinstance(x, (_B, bool)) for x in (l, r)):
        return sp.And(l, r) if isinstance(op, ast.BitAnd) else sp.Or(l, r)
    raise Unsupported("operator %s" % type(op).__name__)


def _num(v):
    if isinstance(v, bool):
        raise Unsupported("bool constant")
    if isinstance(v, int):
        return sp.Integer(v)
    if isinstance(v, float):
        return sp.Rational(repr(v)) if ("e" not in repr(v) and "inf" not in repr(v) and "nan" not in repr(v)) else sp.nsimplify(v, rational=True)
    raise Unsupported("constant %r" % (v,))


NP_UNARY = {
    "exp": sp.exp, "log": sp.log, "sqrt": sp.sqrt, "sin": sp.sin, "cos": sp.cos, "tan": sp.tan,
    "arcsin": sp.asin, "arccos": sp.acos, "arctan": sp.atan, "abs": sp.Abs, "absolute": sp.Abs, "fabs": sp.Abs,
    "tanh": sp.tanh, "sinh": sp.sinh, "cosh": sp.cosh,
    "deg2rad": lambda x: x * sp.pi / 180, "radians": lambda x: x * sp.pi / 180,
    "rad2deg": lambda x: x * 180 / sp.pi, "degrees": lambda x: x * 180 / sp.pi,
    "asarray": lambda x: x, "array": lambda x: x, "asanyarray": lambda x: x, "float64": lambda x: x,
    "ravel": lambda x: x, "squeeze": lambda x: x, "atleast_1d": lambda x: x, "real": lambda x: x,
    "square": lambda x: x ** 2, "reciprocal": lambda x: 1 / x, "imag": lambda x: sp.Integer(0),
    "negative": lambda x: -x, "positive": lambda x: x,
}
NP_BINARY = {
    "divide": lambda a, b: a / b, "true_divide": lambda a, b: a / b, "multiply": lambda a, b: a * b,
    "add": lambda a, b: a + b, "subtract": lambda a, b: a - b, "power": lambda a, b: a ** b,
    "arctan2": lambda a, b: sp.atan2(a, b), "hypot": lambda a, b: sp.sqrt(a ** 2 + b ** 2),
}
# reductions / shape operations that are the identity on a single sample point (element-wise model)
ELEMENTWISE_ID_METHODS = {"ravel", "flatten", "squeeze", "copy", "astype", "reshape"}


class Sym:
    """Symbolic evaluator of typhon functions."""

    def __init__(self, repo, opaque=(), hooks=None, max_depth=6, elementwise=False, decide=None):
        self.repo = repo
        self.const = Const(repo)
        self.opaque = set(opaque)       # function names kept as opaque atoms
        self.hooks = hooks or {}        # callee last-name -> python callable(*values, **kw)
        self.max_depth = max_depth
        self.elementwise = elementwise  # treat reductions over samples as identity (one sample)
        self.choices = []
        self._ci = 0
        self.trace = []
        self.guards = []
        self.decide = decide            # callable(test source text) -> True/False/None

    # -- entry points
    def call(self, rel, fname, *args, **kw):
        """Evaluate with all undecidable branches raising NeedChoice -> use paths() for forks."""
        self._ci = 0
        try:
            return self._call(self.repo.func(rel, fname), list(args), dict(kw), 0)
        except NeedChoice as n:
            raise Unsupported("undecidable branch `%s` in %s" % (n.text, fname))
        except PathRaised:
            raise Unsupported("%s raises on the analysed path" % fname)

    def paths(self, rel, fname, *args, **kw):
        """All paths through undecidable tests: list of (choices, value | PathRaised)."""
        out = []
        todo = [[]]
        while todo:
            ch = todo.pop()
            self.choices = ch
            self._ci = 0
            self.trace = []
            try:
                v = self._call(self.repo.func(rel, fname), list(args), dict(kw), 0)
                out.append((list(self.trace), v))
            except NeedChoice as n:
                todo.append(ch + [True])
                todo.append(ch + [False])
                if len(ch) > 8:
                    raise Unsupported("too many undecidable branches in %s" % fname)
            except PathRaised:
                out.append((list(self.trace), PathRaised))
        self.choices = []
        return out

    # -- machinery
    _normalized = {}

    def _norm(self, func):
        """the function as the structural normaliser presents it (new helpers inlined, new temporaries removed ...)"""
        import os
        if os.environ.get("TYVERIF_NO_NORMALIZE") or getattr(func, "raw", None) is not None:
            return func
        key = (id(func.module), func.qualname, id(func.node))
        if key not in Sym._normalized:
            from .normalize import normalized_func
            from .core import Func
            try:
                node, _ = normalized_func(func)
                nf = Func(func.module, node, func.cls)
                nf.raw = func
            except Exception:
                nf = func
            Sym._normalized[key] = nf
        return Sym._normalized[key]

    def _call(self, func, args, kw, depth):
        func = self._norm(func)
        if depth > self.max_depth:
            raise Unsupported("call depth exceeded at %s" % func.qualname)
        params = func.params
        if params and params[0] in ("self", "cls") and not func.is_static:
            params = params[1:]
        env = {}
        dflt = func.defaults()
        for i, p in enumerate(params):
            if i < len(args):
                env[p] = args[i]
            elif p in kw:
                env[p] = kw[p]
            elif p in dflt:
                env[p] = self.expr(dflt[p], {}, func, depth)
            else:
                raise Unsupported("missing argument %s of %s" % (p, func.qualname))
        for k, v in kw.items():
            if k not in params:
                raise Unsupported("unexpected keyword %s for %s" % (k, func.qualname))
        r = self.block(func.body, env, func, depth)
        if r is _NORETURN:
            return None
        return r

    def block(self, stmts, env, func, depth):
        for st in stmts:
            if isinstance(st, ast.Expr) and isinstance(st.value, ast.Constant):
                continue
            if isinstance(st, (ast.Pass, ast.Import, ast.ImportFrom, ast.Assert)):
                continue
            if isinstance(st, (ast.FunctionDef, ast.AsyncFunctionDef)):
                continue        # a nested helper: its calls were inlined by the normaliser, or evaluating one raises Unsupported
            if isinstance(st, ast.Expr) and isinstance(st.value, ast.Call):
                continue      # a call for its effect (validation helpers): no value
            if isinstance(st, ast.Assign):
                if len(st.targets) == 1 and isinstance(st.targets[0], ast.Name):
                    # lazy: evaluated when (and if) the name is used
                    env[st.targets[0].id] = _Lazy(self, st.value, dict(env), func, depth)
                    continue
                v = self.expr(st.value, env, func, depth)
                for t in st.targets:
                    self.assign(t, v, env, func, depth)
                continue
            if isinstance(st, ast.AugAssign) and isinstance(st.target, ast.Name):
                cur = self.expr(st.target, env, func, depth)
                v = self.expr(st.value, env, func, depth)
                env[st.target.id] = _binop(st.op, cur, v)
                continue
            if isinstance(st, ast.Return):
                return self.expr(st.value, env, func, depth) if st.value is not None else None
            if isinstance(st, ast.Raise):
                raise PathRaised()
            if isinstance(st, ast.If):
                if not st.orelse and st.body and isinstance(st.body[-1], ast.Raise) \
                        and self.static_truth(st.test, env, func, depth) is None:
                    # a guard that rejects arguments outside the domain: the algebra is about
                    # the paths that compute a value
                    self.guards.append(norm(st.test))
                    continue
                t = self.truth(st.test, env, func, depth)
                r = self.block(st.body if t else st.orelse, env, func, depth)
                if r is not _NORETURN:
                    return r
                continue
            if isinstance(st, (ast.Try, ast.With)):
                r = self.block(st.body, env, func, depth)
                if r is not _NORETURN:
                    return r
                continue
            raise Unsupported("statement %s in %s" % (norm(st)[:60], func.qualname))
        return _NORETURN

    def assign(self, t, v, env, func, depth):
        if isinstance(t, ast.Name):
            env[t.id] = v
        elif isinstance(t, (ast.Tuple, ast.List)) and isinstance(v, tuple) and len(v) == len(t.elts):
            for tt, x in zip(t.elts, v):
                self.assign(tt, x, env, func, depth)
        elif isinstance(t, ast.Attribute) and isinstance(t.value, ast.Name) and t.attr == "shape":
            pass   # reshaping in place: identity on the element-wise model
        else:
            raise Unsupported("assignment target %s" % norm(t))

    def truth(self, test, env, func, depth):
        """Decide a test statically if possible, else consume a choice."""
        v = self.static_truth(test, env, func, depth)
        if v is None and self.decide is not None:
            v = self.decide(norm(test))
        if v is None:
            if self._ci < len(self.choices):
                v = self.choices[self._ci]
                self._ci += 1
            else:
                raise NeedChoice(norm(test))
            self.trace.append((norm(test), v))
        return v

    def static_truth(self, test, env, func, depth):
        if isinstance(test, ast.BoolOp):
            vals = [self.static_truth(x, env, func, depth) for x in test.values]
            if isinstance(test.op, ast.And):
                if any(v is False for v in vals):
                    return False
                return True if all(v is True for v in vals) else None
            if any(v is True for v in vals):
                return True
            return False if all(v is False for v in vals) else None
        if isinstance(test, ast.UnaryOp) and isinstance(test.op, ast.Not):
            v = self.static_truth(test.operand, env, func, depth)
            return None if v is None else (not v)
        if isinstance(test, ast.Compare) and len(test.ops) == 1 and isinstance(test.ops[0], (ast.Is, ast.IsNot)):
            try:
                l = self.expr(test.left, env, func, depth)
                r = self.expr(test.comparators[0], env, func, depth)
            except Unsupported:
                return None
            same = (l is None and r is None) or (l is r)
            if l is None or r is None:
                return same if isinstance(test.ops[0], ast.Is) else (not same)
            return None
        if isinstance(test, ast.Compare) and len(test.ops) == 1 and isinstance(test.ops[0], (ast.Eq, ast.NotEq)) \
                and isinstance(test.left, (ast.Compare, ast.BoolOp, ast.UnaryOp)) and isinstance(test.comparators[0], (ast.Compare, ast.BoolOp, ast.UnaryOp)):
            # two truth values compared: (a is None) != (b is None)
            lv = self.static_truth(test.left, env, func, depth)
            rv = self.static_truth(test.comparators[0], env, func, depth)
            if lv is None or rv is None:
                return None
            return (lv == rv) if isinstance(test.ops[0], ast.Eq) else (lv != rv)
        if isinstance(test, ast.Name) and test.id in env and isinstance(env[test.id], bool):
            return env[test.id]
        if isinstance(test, ast.Compare) and len(test.ops) == 1 and isinstance(test.ops[0], (ast.Eq, ast.NotEq)):
            try:
                l = self.expr(test.left, env, func, depth)
                r = self.expr(test.comparators[0], env, func, depth)
            except Unsupported:
                return None
            if isinstance(l, str) or isinstance(r, str):
                eq = (l == r)
                return eq if isinstance(test.ops[0], ast.Eq) else (not eq)
            return None
        if isinstance(test, ast.Call) and dotted(test.func) == "isinstance":
            return None
        return None

    # -- expressions
    def expr(self, n, env, func, depth):
        if isinstance(n, ast.Constant):
            if n.value is None or isinstance(n.value, (str, bool)):
                return n.value
            return _num(n.value)
        if isinstance(n, ast.Name):
            if n.id in env:
                v = env[n.id]
                if isinstance(v, _Lazy):
                    v = v.force()
                    env[n.id] = v
                return v
            return self.global_name(n.id, func)
        if isinstance(n, ast.Attribute):
            d = dotted(n)
            if d:
                parts = d.split(".")
                if parts[0] not in env:
                    g = self.global_attr(parts, func)
                    if g is not None:
                        return g
            base = self.expr(n.value, env, func, depth)
            if n.attr == "T":
                return base.T if isinstance(base, sp.MatrixBase) else base
            if n.attr == "shape" and isinstance(base, sp.MatrixBase):
                return (sp.Integer(base.rows), sp.Integer(base.cols))
            if n.attr in ("real",):
                return base
            raise Unsupported("attribute %s" % norm(n))
        if isinstance(n, ast.BinOp):
            l = self.expr(n.left, env, func, depth)
            r = self.expr(n.right, env, func, depth)
            if isinstance(l, tuple) or isinstance(r, tuple):
                raise Unsupported("tuple arithmetic %s" % norm(n))
            return _binop(n.op, l, r)
        if isinstance(n, ast.UnaryOp):
            v = self.expr(n.operand, env, func, depth)
            if isinstance(n.op, ast.USub):
                return -v
            if isinstance(n.op, ast.UAdd):
                return v
            if isinstance(n.op, (ast.Invert, ast.Not)) and (v in (sp.true, sp.false, True, False) or isinstance(v, sp.logic.boolalg.Boolean)):
                return sp.Not(v)
            raise Unsupported("unary %s" % norm(n))
        if isinstance(n, (ast.Tuple, ast.List)):
            return tuple(self.expr(e, env, func, depth) for e in n.elts)
        if isinstance(n, ast.Compare) and len(n.ops) == 1:
            l = self.expr(n.left, env, func, depth)
            r = self.expr(n.comparators[0], env, func, depth)
            op = n.ops[0]
            rel = {ast.Lt: sp.Lt, ast.LtE: sp.Le, ast.Gt: sp.Gt, ast.GtE: sp.Ge, ast.Eq: sp.Eq, ast.NotEq: sp.Ne}.get(type(op))
            if rel is None:
                raise Unsupported("comparison %s" % norm(n))
            return rel(l, r)
        if isinstance(n, ast.Subscript):
            return self.subscript(n, env, func, depth)
        if isinstance(n, ast.IfExp):
            t = self.truth(n.test, env, func, depth)
            return self.expr(n.body if t else n.orelse, env, func, depth)
        if isinstance(n, (ast.ListComp, ast.GeneratorExp)) and len(n.generators) == 1 and not n.generators[0].ifs:
            # a comprehension over a statically finite sequence (the components of a point, zip of two points): one value per element
            items = self._finite_iter(n.generators[0].iter, env, func, depth)
            out = []
            for it_ in items:
                env2 = dict(env)
                self.assign(n.generators[0].target, it_, env2, func, depth)
                out.append(self.expr(n.elt, env2, func, depth))
            return tuple(out)
        if isinstance(n, ast.Call):
            return self.call_expr(n, env, func, depth)
        raise Unsupported("expression %s" % norm(n)[:60])

    def _finite_iter(self, it, env, func, depth):
        if isinstance(it, ast.Call) and isinstance(it.func, ast.Name) and it.func.id in ("zip", "enumerate") and not it.keywords and it.args:
            cols = [self._finite_iter(a, env, func, depth) for a in it.args]
            if it.func.id == "enumerate":
                if len(cols) != 1:
                    raise Unsupported("enumerate with a start")
                return tuple((sp.Integer(k), v) for k, v in enumerate(cols[0]))
            if len({len(c) for c in cols}) != 1:
                raise Unsupported("zip over sequences of different length")
            return tuple(zip(*cols))
        v = self.expr(it, env, func, depth)
        if not isinstance(v, tuple):
            raise Unsupported("iteration over %s, not a statically finite sequence" % norm(it)[:60])
        return v

    def subscript(self, n, env, func, depth):
        base = self.expr(n.value, env, func, depth)
        s = n.slice
        if isinstance(base, tuple) and isinstance(s, ast.Constant) and isinstance(s.value, int):
            return base[s.value]
        if isinstance(s, ast.Tuple) and not s.elts:
            return base            # x[()] : the element of a 0-d array
        if "subscript" in self.hooks:
            r = self.hooks["subscript"](base, n, self, env, func, depth)
            if r is not NotImplemented:
                return r
        raise Unsupported("subscript %s" % norm(n))

    def global_name(self, name, func):
        mod = func.module
        if name in mod.funcs and mod.funcs[name].cls is None:
            f = mod.funcs[name]
            return self._callable(f)
        org = mod.imports.get(name)
        if org:
            if org.endswith("typhon.constants." + name) or org == "typhon.constants." + name or org.endswith("constants." + name):
                return self.const.get(name)
        # module level constant of the same module
        vals = mod.assignments(name)
        if vals:
            return self.expr(vals[-1], {}, _ModCtx(mod), 0)
        raise Unsupported("global name %s in %s" % (name, mod.rel))

    def global_attr(self, parts, func):
        mod = func.module
        head = parts[0]
        org = mod.imports.get(head, "")
        if head == "constants" or org.endswith("constants"):
            if len(parts) == 2:
                return self.const.get(parts[1])
        if parts == ["np", "pi"] or parts == ["numpy", "pi"] or parts == ["math", "pi"]:
            return sp.pi
        if parts in (["np", "nan"], ["numpy", "nan"]):
            return sp.nan
        return None

    def _callable(self, f):
        def fn(*a, **k):
            if f.name in self.opaque:
                return sp.Function(f.name, positive=True)(*[x for x in a if x is not None])
            return self._call(f, list(a), dict(k), 1)
        fn._typhon = f
        return fn

    def resolve_callee(self, n, env, func):
        """-> ('hook'|'np'|'typhon'|'value', object, lastname)"""
        d = dotted(n.func)
        last = d.split(".")[-1] if d else (n.func.attr if isinstance(n.func, ast.Attribute) else None)
        if isinstance(n.func, ast.Name) and n.func.id in env:
            v = env[n.func.id]
            if isinstance(v, _Lazy):
                v = v.force()
                env[n.func.id] = v
            return "value", v, last
        if last in self.hooks:
            return "hook", self.hooks[last], last
        if d:
            parts = d.split(".")
            mod = func.module
            if parts[0] in ("np", "numpy", "math", "scipy", "sp", "linalg") or mod.imports.get(parts[0], "").split(".")[0] in ("numpy", "scipy", "math"):
                if not (len(parts) == 2 and parts[0] == "math" and mod.imports.get("math", "").startswith("typhon")):
                    return "np", last, last
            # typhon function in the same module
            if len(parts) == 1 and parts[0] in mod.funcs:
                return "typhon", mod.funcs[parts[0]], last
            # typhon function in another module reached via an imported module alias
            target = self._typhon_lookup(parts, mod)
            if target is not None:
                return "typhon", target, last
        return "unknown", None, last

    def _typhon_lookup(self, parts, mod):
        head = parts[0]
        org = mod.imports.get(head)
        if not org:
            return None
        cands = []
        o = org.lstrip(".")
        if len(parts) == 1:
            # from x import f
            modpath, fname = o.rsplit(".", 1) if "." in o else ("", o)
            cands.append((modpath, fname))
        else:
            cands.append((o + ("." + ".".join(parts[1:-1]) if len(parts) > 2 else ""), parts[-1]))
        for modpath, fname in cands:
            if org.startswith("."):
                level = len(org) - len(org.lstrip("."))
                pkg = mod.rel.split("/")[:-level]
                modpath = ".".join(pkg + ([modpath] if modpath else []))
            if not modpath.startswith("typhon"):
                continue
            rel = modpath.replace(".", "/")
            for cand in (rel + ".py", rel + "/__init__.py", rel + "/common.py"):
                try:
                    m = self.repo.mod(cand)
                except AnalysisError:
                    continue
                if fname in m.funcs:
                    return m.funcs[fname]
        return None

    def call_expr(self, n, env, func, depth):
        kind, target, last = self.resolve_callee(n, env, func)
        # method calls on values
        if kind == "unknown" and isinstance(n.func, ast.Attribute):
            base = self.expr(n.func.value, env, func, depth)
            if "method" in self.hooks:
                r = self.hooks["method"](base, n, self, env, func, depth)
                if r is not NotImplemented:
                    return r
            if n.func.attr in ELEMENTWISE_ID_METHODS:
                return base
            if n.func.attr == "dot" and len(n.args) == 1:
                return base * self.expr(n.args[0], env, func, depth)
            if n.func.attr in ("mean", "sum", "min", "max", "std", "var", "prod", "cumsum", "nanmean") and not any(isinstance(a, ast.Starred) for a in n.args):
                # x.mean(...) is np.mean(x, ...)
                args_ = [base] + [self.expr(a, env, func, depth) for a in n.args]
                kw_ = {k.arg: self.expr(k.value, env, func, depth) for k in n.keywords if k.arg}
                return self.np_call(n.func.attr, args_, kw_, n)
            raise Unsupported("method call %s" % norm(n)[:60])
        args = [self.expr(a, env, func, depth) for a in n.args if not isinstance(a, ast.Starred)]
        if any(isinstance(a, ast.Starred) for a in n.args):
            raise Unsupported("starred call %s" % norm(n)[:40])
        kw = {k.arg: self.expr(k.value, env, func, depth) for k in n.keywords if k.arg}
        if kind == "value":
            if callable(target):
                return target(*args, **kw)
            raise Unsupported("call of non-callable value %s" % norm(n.func))
        if kind == "hook":
            return target(*args, **kw)
        if kind == "typhon":
            if last in self.opaque:
                return sp.Function(last, positive=True)(*[a for a in args if a is not None])
            return self._call(target, args, kw, depth + 1)
        if kind == "np":
            return self.np_call(last, args, kw, n)
        if isinstance(n.func, ast.Name) and n.func.id in ("tuple", "list") and len(args) == 1 and not kw and isinstance(args[0], tuple):
            return args[0]        # tuple(<finite comprehension>) / list(<display>): the elements themselves
        raise Unsupported("call %s" % norm(n)[:60])

    def np_call(self, last, args, kw, n):
        if last in NP_UNARY and len(args) == 1 and not kw:
            a = args[0]
            if isinstance(a, sp.MatrixBase) and last not in ("asarray", "array", "asanyarray"):
                return a.applyfunc(NP_UNARY[last])
            return NP_UNARY[last](a)
        if last in NP_BINARY and len(args) == 2 and not kw:
            return NP_BINARY[last](*args)
        if last in ("inv", "pinv") and len(args) == 1:
            a = args[0]
            if isinstance(a, sp.MatrixBase):
                if a.rows != a.cols:
                    raise ShapeError("inverse of a non-square %dx%d matrix" % (a.rows, a.cols))
                return a.inv()
            return 1 / a
        if last == "solve" and len(args) == 2:
            a, b = args
            if isinstance(a, sp.MatrixBase):
                return a.inv() * b
            return b / a
        # Cholesky factorisation: which triangle is produced / consumed is part of the value (scipy: upper by default, numpy: lower)
        if last == "cholesky" and len(args) == 1 and isinstance(args[0], sp.MatrixBase):
            lower = kw.get("lower")
            if lower is None:
                d_ = dotted(n.func) or ""
                lower = "linalg" in d_ and d_.split(".")[0] in ("np", "numpy")      # numpy.linalg.cholesky returns L, scipy.linalg.cholesky U
            lower = bool(lower)
            a = args[0]
            # symbolic factor: opaque entries constrained only by L L^T = A would not reduce; use the closed form (generic SPD matrix)
            L = a.cholesky(hermitian=False)
            return L if lower else L.T
        if last == "cho_solve" and len(args) == 2 and isinstance(args[0], tuple) and len(args[0]) == 2 and isinstance(args[0][0], sp.MatrixBase):
            c, lower = args[0]
            b = args[1]
            lower = bool(lower)
            t = c.lower_triangular() if lower else c.upper_triangular()       # only that triangle of the array is read
            full = t * t.T if lower else t.T * t
            return full.inv() * b
        if last in ("dot", "matmul") and len(args) == 2:
            return args[0] * args[1]
        if last == "transpose" and len(args) == 1:
            return args[0].T if isinstance(args[0], sp.MatrixBase) else args[0]
        if last in ("eye", "identity") and len(args) == 1 and isinstance(args[0], (int, sp.Integer)):
            return sp.eye(int(args[0]))
        if last == "diag" and len(args) == 1 and isinstance(args[0], sp.MatrixBase):
            a = args[0]
            if a.cols == 1 or a.rows == 1:
                return sp.diag(*list(a))
            return sp.Matrix([a[i, i] for i in range(min(a.rows, a.cols))])
        if last == "clip" and len(args) == 3:
            return sp.Max(args[1], sp.Min(args[2], args[0]))
        if last == "isnan" and len(args) == 1:
            # a term over real symbols is a number; NaN only when it is literally nan
            return sp.true if args[0] is sp.nan or (hasattr(args[0], "has") and args[0].has(sp.nan)) else sp.false
        if last == "where" and len(args) == 3:
            if args[0] in (sp.true, True):
                return args[1]
            if args[0] in (sp.false, False):
                return args[2]
            return sp.Piecewise((args[1], args[0]), (args[2], True))
        if last in ("maximum", "fmax") and len(args) == 2:
            return sp.Max(*args)
        if last in ("minimum", "fmin") and len(args) == 2:
            return sp.Min(*args)
        if self.elementwise and last in ("mean", "nanmean", "sum", "nansum", "average", "median", "nanmedian") and args:
            return args[0]
        raise Unsupported("numpy call %s" % norm(n)[:60])


class _Lazy:
    def __init__(self, ev, node, env, func, depth):
        self.ev, self.node, self.env, self.func, self.depth = ev, node, env, func, depth
        self.done = False
        self.value = None

    def force(self):
        if not self.done:
            self.value = self.ev.expr(self.node, self.env, self.func, self.depth)
            self.done = True
        return self.value


class ShapeError(AnalysisError):
    pass


class _ModCtx:
    def __init__(self, mod):
        self.module = mod
        self.qualname = "<module>"


_NORETURN = object()


# ----------------------------------------------------------------------------------
# identity decision
# ----------------------------------------------------------------------------------
def is_zero(e, assume_trig=()):
    """Decide e == 0.  -> (verdict, info) with verdict True / False / None (unknown)."""
    if isinstance(e, sp.MatrixBase):
        worst = True
        for x in e:
            v, info = is_zero(x)
            if v is False:
                return False, info
            if v is None:
                worst = None
        return worst, "matrix"
    e = sp.sympify(e)
    if e == 0:
        return True, "0"
    try:
        c = sp.cancel(sp.together(sp.expand_log(e, force=True)))
        if c == 0:
            return True, "cancel"
        c2 = sp.simplify(c)
        if c2 == 0:
            return True, "simplify"
        c3 = sp.simplify(sp.expand_trig(sp.expand(c2)))
        if c3 == 0:
            return True, "trig"
    except Exception as ex:  # pragma: no cover
        c2 = e
    # non-zero canonical remainder: confirm with an exact rational sample point
    wit = sample_nonzero(c2 if c2 is not None else e)
    if wit is not None:
        return False, {"remainder": str(c2)[:200], "point": wit[0], "value": wit[1]}
    return None, {"remainder": str(c2)[:200]}


_PRIMES = [2, 3, 5, 7, 11, 13, 17, 19, 23, 29, 31, 37, 41, 43, 47, 53, 59, 61]


def sample_nonzero(e, tries=12):
    syms = sorted(e.free_symbols, key=lambda s: s.name)
    funcs = [f for f in e.atoms(sp.Function) if isinstance(f, sp.core.function.AppliedUndef)]
    for t in range(tries):
        sub = {}
        for i, s in enumerate(syms):
            p, q = _PRIMES[(i + t) % len(_PRIMES)], _PRIMES[(i + 2 * t + 5) % len(_PRIMES)]
            sub[s] = sp.Rational(p, q) if t else sp.Rational(p + 1, p)
            if t >= 4:
                sub[s] = sub[s] ** (1 if (i + t) % 3 else 3) * (7 if (i + t) % 2 else sp.Rational(1, 7))
            if t == tries - 1:
                sub[s] = sub[s] * sp.Rational(1, 10 ** 12)      # very small magnitudes (absolute floors / tolerances show up here)
            elif t == tries - 2:
                sub[s] = sub[s] * 10 ** 12
            if not s.is_positive and (t + i) % 2 == 1:
                sub[s] = -sub[s]
        try:
            ee = e.subs(sub)
            # opaque functions: replace by a fixed positive algebraic expression of their arguments
            names = sorted(set(fa.func.__name__ for fa in ee.atoms(sp.Function)
                               if isinstance(fa, sp.core.function.AppliedUndef)))
            for fa in list(ee.atoms(sp.Function)):
                if isinstance(fa, sp.core.function.AppliedUndef):
                    k = names.index(fa.func.__name__)
                    ee = ee.subs(fa, (k + 1) + sum(abs(a) for a in fa.args) / (3 + 2 * k))
            val = sp.N(ee, 30)
            if val.is_number and val.is_finite is not False and abs(val) > sp.Float("1e-18"):
                return ({str(k): str(v) for k, v in sub.items()}, str(sp.N(val, 8)))
        except Exception:
            continue
    return None


def positive(*names):
    return sp.symbols(" ".join(names), positive=True)
