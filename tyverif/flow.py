"""Def-use helpers on top of the CFG: reaching definitions of names at a statement,
inlining of single definitions, provenance sets."""
import ast
import copy
from .core import AnalysisError, norm, dotted, enclosing_stmt, walk_no_nested, parent, clone
from .cfg import CFG, ENTRY, EXIT, RAISE, all_stmts


class Flow:
    def __init__(self, func):
        self.func = func
        self.cfg = CFG(func.node)
        self.rd = self.cfg.reaching_defs()
        self.stmts = all_stmts(func.node)

    # -- nodes
    def node_of(self, st):
        ns = self.cfg.nodes(st)
        if not ns:
            raise AnalysisError("statement at line %d has no CFG node" % getattr(st, "lineno", 0))
        return ns[0]

    def stmt_of_expr(self, expr):
        st = enclosing_stmt(expr)
        # expressions inside an except handler's type etc. are attached to the handler
        return st

    # -- reaching definitions
    def defs(self, name, at):
        """Definition sites (ast statements, or 'param') of `name` reaching statement `at`
        (an ast statement or an expression inside one)."""
        st = at if isinstance(at, (ast.stmt, ast.ExceptHandler)) else enclosing_stmt(at)
        out = []
        for n in self.cfg.nodes(st):
            for d in self.rd.get(n, {}).get(name, ()):  # noqa
                if d == ENTRY:
                    if "param" not in out:
                        out.append("param")
                else:
                    s = self.cfg.stmt_of[d]
                    if s not in out:
                        out.append(s)
        return out

    def single_def_value(self, name, at):
        """If exactly one plain assignment `name = value` reaches `at`, return (value, stmt)."""
        ds = self.defs(name, at)
        if len(ds) != 1 or ds[0] == "param":
            return None
        st = ds[0]
        if isinstance(st, ast.Assign) and len(st.targets) == 1 and isinstance(st.targets[0], ast.Name):
            return st.value, st
        if isinstance(st, ast.AnnAssign) and st.value is not None and isinstance(st.target, ast.Name):
            return st.value, st
        # a, b = x, y   /   a, b = f(...)
        if isinstance(st, ast.Assign) and len(st.targets) == 1 and isinstance(st.targets[0], (ast.Tuple, ast.List)):
            elts = st.targets[0].elts
            idx = [i for i, e in enumerate(elts) if isinstance(e, ast.Name) and e.id == name]
            if len(idx) == 1 and not any(isinstance(e, ast.Starred) for e in elts):
                i = idx[0]
                if isinstance(st.value, (ast.Tuple, ast.List)) and len(st.value.elts) == len(elts):
                    return st.value.elts[i], st
                if isinstance(st.value, (ast.Call, ast.Name)):
                    sub = ast.Subscript(value=st.value, slice=ast.Constant(i), ctx=ast.Load())
                    ast.copy_location(sub, st.value)
                    ast.fix_missing_locations(sub)
                    return sub, st
        return None

    def resolve(self, expr, at=None, depth=6, stop=()):
        """Copy of expr with local names replaced by their unique reaching definition's value
        (recursively).  Names with several definitions, parameters, loop variables stay."""
        at = at if at is not None else expr
        flow = self

        class T(ast.NodeTransformer):
            def __init__(self, at, depth):
                self.at = at
                self.depth = depth

            def visit_Name(self, n):
                if not isinstance(n.ctx, ast.Load) or self.depth <= 0 or n.id in stop:
                    return n
                r = flow.single_def_value(n.id, self.at)
                if r is None:
                    return n
                value, st = r
                # do not inline through a definition that mentions the name itself
                return T(st, self.depth - 1).visit(clone(value))

            def visit_Lambda(self, n):
                return n

            def visit_Subscript(self, n):
                n = self.generic_visit(n)
                # (a, b, c)[k] -> the k-th element (a tuple held in a temporary and taken apart again)
                if isinstance(n.value, (ast.Tuple, ast.List)) and isinstance(n.slice, ast.Constant) and isinstance(n.slice.value, int) \
                        and not isinstance(n.slice.value, bool) and not any(isinstance(e, ast.Starred) for e in n.value.elts) \
                        and -len(n.value.elts) <= n.slice.value < len(n.value.elts) and isinstance(n.ctx, ast.Load):
                    return n.value.elts[n.slice.value]
                return n

        new = T(at, depth).visit(clone(expr))
        return ast.fix_missing_locations(new)

    def _def_value(self, st, name):
        """value a defining statement binds to `name`, or None"""
        if isinstance(st, ast.Assign):
            for t in st.targets:
                if isinstance(t, ast.Name) and t.id == name:
                    return st.value
                if isinstance(t, (ast.Tuple, ast.List)) and not any(isinstance(e, ast.Starred) for e in t.elts):
                    for i, e in enumerate(t.elts):
                        if isinstance(e, ast.Name) and e.id == name:
                            if isinstance(st.value, (ast.Tuple, ast.List)) and len(st.value.elts) == len(t.elts):
                                return st.value.elts[i]
                            return ast.fix_missing_locations(ast.copy_location(ast.Subscript(value=st.value, slice=ast.Constant(i), ctx=ast.Load()), st.value))
        if isinstance(st, ast.AnnAssign) and st.value is not None and isinstance(st.target, ast.Name) and st.target.id == name:
            return st.value
        if isinstance(st, ast.AugAssign) and isinstance(st.target, ast.Name) and st.target.id == name:
            # x op= v  binds  x op v  (the x on the right is the value reaching the statement)
            return ast.fix_missing_locations(ast.copy_location(ast.BinOp(left=ast.Name(id=name, ctx=ast.Load()), op=st.op, right=st.value), st))
        return None

    def _drop_overwritten(self, live, decide):
        """among the definitions of one name that are consistent with the assumptions: a definition that is an
        unconditional statement of an if-arm KNOWN to be taken overwrites every definition made before that `if`"""
        out = list(live)

        def chain_nodes(d):
            """[(if node, polarity)] outermost first; None when a loop / try lies in between"""
            res = []
            child, n = d, parent(d)
            while n is not None and not isinstance(n, (ast.FunctionDef, ast.AsyncFunctionDef)):
                if isinstance(n, (ast.For, ast.While, ast.Try)):
                    return None
                if isinstance(n, ast.If):          # (a with-statement is straight-line code)
                    if any(child is x for x in n.body):
                        res.append((n, True))
                    elif any(child is x for x in n.orelse):
                        res.append((n, False))
                child, n = n, parent(n)
            res.reverse()
            return res
        for d2 in live:
            if d2 == "param":
                continue
            c2 = chain_nodes(d2)
            if not c2:
                continue
            for d1 in list(out):
                if d1 is d2:
                    continue
                if d1 == "param":
                    c1 = []
                else:
                    c1 = chain_nodes(d1)
                    if c1 is None:
                        continue
                # common part of the two chains: both definitions lie in the same arms of the same ifs up to there
                k = 0
                while k < len(c1) and k < len(c2) and c1[k][0] is c2[k][0] and c1[k][1] == c2[k][1]:
                    k += 1
                if len(c2) <= k:
                    continue
                if not all(decide(n_.test, d2) == pol for n_, pol in c2[k:]):
                    continue
                top = c2[k][0]
                if d1 == "param" or (self._order(d1) < self._order(top) and id(d1) not in {id(x) for x in ast.walk(top)}):
                    if d1 in out:
                        out.remove(d1)
        return out

    def _order(self, st):
        if not hasattr(self, "_pos"):
            self._pos = {id(x): i for i, x in enumerate(self.stmts)}
        return self._pos.get(id(st), getattr(st, "lineno", 0) * 1000)

    def resolve_join(self, expr, at, depth=3, stop=(), _level=0):
        """resolve, and a name that is bound in both arms of one `if` (and nowhere else on the way) becomes the conditional
        expression `<then value> if <test> else <else value>`"""
        r = self.resolve(expr, at=at, depth=depth, stop=stop)
        if _level > 3:
            return r
        flow = self

        class J(ast.NodeTransformer):
            def visit_Name(self, n):
                if not isinstance(n.ctx, ast.Load) or n.id in stop:
                    return n
                ds = flow.defs(n.id, at)
                if len(ds) != 2 or not all(d != "param" and isinstance(d, ast.Assign) and len(d.targets) == 1 and isinstance(d.targets[0], ast.Name) for d in ds):
                    return n
                pa, pb = parent(ds[0]), parent(ds[1])
                if pa is not pb or not isinstance(pa, ast.If):
                    return n
                in_body = [any(d is x for x in pa.body) for d in ds]
                in_else = [any(d is x for x in pa.orelse) for d in ds]
                if in_body[0] and in_else[1]:
                    a, b = ds
                elif in_body[1] and in_else[0]:
                    b, a = ds
                else:
                    return n
                out = ast.IfExp(test=flow.resolve_join(pa.test, pa, depth, stop, _level + 1),
                                body=flow.resolve_join(a.value, a, depth, stop, _level + 1),
                                orelse=flow.resolve_join(b.value, b, depth, stop, _level + 1))
                return ast.copy_location(out, n)
        return ast.fix_missing_locations(J().visit(clone(r)))

    def decide_under(self, test, assume, at=None, stop=()):
        """truth value of `test` under the assumptions (condition text -> truth value), or None if undecided.  Temporaries
        in the test are looked through; not / and / or are evaluated three-valued."""
        at = at if at is not None else test
        t = norm(self.resolve_under(test, assume, at=at, stop=stop)) if not isinstance(test, ast.Constant) else norm(test)
        for k, v in assume.items():
            if t == k or norm(test) == k:
                return v
        if isinstance(test, ast.Constant):
            return bool(test.value)
        if isinstance(test, ast.UnaryOp) and isinstance(test.op, ast.Not):
            d = self.decide_under(test.operand, assume, at, stop)
            return None if d is None else (not d)
        if isinstance(test, ast.BoolOp):
            ds = [self.decide_under(v, assume, at, stop) for v in test.values]
            if isinstance(test.op, ast.And):
                if any(d is False for d in ds):
                    return False
                return True if all(d is True for d in ds) else None
            if any(d is True for d in ds):
                return True
            return False if all(d is False for d in ds) else None
        if isinstance(test, ast.Name):
            r = self.single_def_value(test.id, at)
            if r is not None and test.id not in stop:
                return self.decide_under(r[0], assume, r[1], stop)
            if r is None and test.id not in stop:
                # bound on several paths: the one definition that lies on a path consistent with the assumptions
                ds = self.defs(test.id, at)
                if ds and "param" not in ds and all(isinstance(d, ast.Assign) and len(d.targets) == 1 and isinstance(d.targets[0], ast.Name) for d in ds):
                    live = [d for d in ds if self.live_under(d, assume, stop=stop)]
                    if len(live) == 1:
                        return self.decide_under(live[0].value, assume, live[0], stop)
        if isinstance(test, ast.Call) and isinstance(test.func, ast.Name) and test.func.id == "bool" and len(test.args) == 1 and not test.keywords:
            return self.decide_under(test.args[0], assume, at, stop)
        neg = norm(ast.UnaryOp(op=ast.Not(), operand=clone(test)))
        tneg = norm(ast.UnaryOp(op=ast.Not(), operand=ast.parse(str(t), mode="eval").body)) if t else None
        for k, v in assume.items():
            if neg == k or (tneg is not None and tneg == k):
                return not v
        return None

    def live_under(self, st, assume, stop=()):
        """False when the guards of statement `st` (including earlier guard clauses) contradict the assumptions"""
        for test, pol in guard_chain(st, implicit=True):
            d = self.decide_under(test, assume, at=test, stop=stop)
            if d is not None and d != pol:
                return False
        return True

    def resolve_under(self, expr, assume, at=None, depth=6, stop=()):
        """Like resolve, but path-conditioned: `assume` maps condition texts to truth values.  A name with several
        reaching definitions is replaced when exactly one of them lies on a path consistent with the assumptions;
        a conditional expression whose test is decided is replaced by the chosen arm."""
        at = at if at is not None else expr
        flow = self

        budget = [0]

        def decide(test, where, depth):
            # the recursion branches on every guarded definition: on code with loops that re-bind the names of their own tests it is
            # exponential in `depth`; past a fixed amount of work the resolution is given up (no verdict) instead of running for minutes
            budget[0] += 1
            if budget[0] > 5000:
                raise AnalysisError("path-conditioned resolution of %s exceeds its work budget (definitions inside loops feed their own guards): no verdict" % norm(expr)[:80])
            t = norm(T(where, depth).visit(clone(test))) if depth > 0 else norm(test)
            for k, v in assume.items():
                if t == k or norm(test) == k:
                    return v
            if isinstance(test, ast.UnaryOp) and isinstance(test.op, ast.Not):
                d = decide(test.operand, where, depth)
                return None if d is None else (not d)
            if isinstance(test, ast.BoolOp):
                ds = [decide(v, where, depth) for v in test.values]
                if isinstance(test.op, ast.And):
                    if any(d is False for d in ds):
                        return False
                    return True if all(d is True for d in ds) else None
                if any(d is True for d in ds):
                    return True
                return False if all(d is False for d in ds) else None
            neg = norm(ast.UnaryOp(op=ast.Not(), operand=clone(test)))
            for k, v in assume.items():
                if neg == k:
                    return not v
            if isinstance(test, (ast.Name, ast.Call)) and not getattr(flow, "_in_decide", False):
                # a flag computed on several paths / wrapped in bool(): decided through its definitions
                flow._in_decide = True
                try:
                    return flow.decide_under(test, assume, at=where, stop=stop)
                except (AnalysisError, RecursionError):
                    return None
                finally:
                    flow._in_decide = False
            return None

        class T(ast.NodeTransformer):
            def __init__(self, at, depth):
                self.at = at
                self.depth = depth

            def visit_Name(self, n):
                if not isinstance(n.ctx, ast.Load) or self.depth <= 0 or n.id in stop:
                    return n
                ds = flow.defs(n.id, self.at)
                live = []
                for d in ds:
                    if d == "param":
                        live.append(d)
                        continue
                    ok = True
                    for test, pol in guard_chain(d, implicit=True):
                        v = decide(test, d, self.depth - 1)
                        if v is not None and v != pol:
                            ok = False
                    if ok:
                        live.append(d)
                live = flow._drop_overwritten(live, lambda t, w: decide(t, w, self.depth - 1))
                if len(live) == 2 and "param" not in live:
                    # the two arms of one undecided `if` each define the name: the value is the conditional expression
                    pa, pb = parent(live[0]), parent(live[1])
                    if pa is pb and isinstance(pa, ast.If) and len(pa.body) == 1 and len(pa.orelse) == 1 \
                            and {id(pa.body[0]), id(pa.orelse[0])} == {id(live[0]), id(live[1])}:
                        va, vb = flow._def_value(pa.body[0], n.id), flow._def_value(pa.orelse[0], n.id)
                        if va is not None and vb is not None:
                            return ast.copy_location(ast.IfExp(test=T(pa, self.depth - 1).visit(clone(pa.test)),
                                                               body=T(pa.body[0], self.depth - 1).visit(clone(va)),
                                                               orelse=T(pa.orelse[0], self.depth - 1).visit(clone(vb))), n)
                if len(live) != 1 or live[0] == "param":
                    return n
                value = flow._def_value(live[0], n.id)
                if value is None:
                    return n
                return T(live[0], self.depth - 1).visit(clone(value))

            def visit_Subscript(self, n):
                n = self.generic_visit(n)
                if isinstance(n.value, (ast.Tuple, ast.List)) and isinstance(n.slice, ast.Constant) and isinstance(n.slice.value, int) \
                        and -len(n.value.elts) <= n.slice.value < len(n.value.elts) and not any(isinstance(e, ast.Starred) for e in n.value.elts):
                    return n.value.elts[n.slice.value]
                k = n.slice.value if isinstance(n.slice, ast.Constant) and isinstance(n.slice.value, int) and not isinstance(n.slice.value, bool) else None
                # [E(x) for x in S][k]  ->  E(S[k])     (one generator, no filter: element k of the list is E of element k of S;
                #                                        out of range raises IndexError either way)
                if k is not None and k >= 0 and isinstance(n.value, ast.ListComp) and len(n.value.generators) == 1 and not n.value.generators[0].ifs \
                        and isinstance(n.value.generators[0].target, ast.Name) and not n.value.generators[0].is_async:
                    g = n.value.generators[0]
                    var = g.target.id
                    elem = ast.Subscript(value=clone(g.iter), slice=ast.Constant(k), ctx=ast.Load())

                    class S_(ast.NodeTransformer):
                        def visit_Name(self, m):
                            return clone(elem) if m.id == var and isinstance(m.ctx, ast.Load) else m
                    return self.visit_Subscript(ast.fix_missing_locations(S_().visit(clone(n.value.elt)))) if isinstance(n.value.elt, ast.Subscript) \
                        else self.generic_visit(ast.fix_missing_locations(S_().visit(clone(n.value.elt))))
                # X[:m][k] -> X[k]  for constants 0 <= k < m
                if k is not None and k >= 0 and isinstance(n.value, ast.Subscript) and isinstance(n.value.slice, ast.Slice) and n.value.slice.lower is None \
                        and n.value.slice.step is None and isinstance(n.value.slice.upper, ast.Constant) and isinstance(n.value.slice.upper.value, int) \
                        and k < n.value.slice.upper.value:
                    return ast.Subscript(value=n.value.value, slice=ast.Constant(k), ctx=ast.Load())
                return n

            def visit_IfExp(self, n):
                v = decide(n.test, self.at, self.depth - 1)
                if v is None:
                    return self.generic_visit(n)
                return self.visit(n.body if v else n.orelse)

            def visit_Lambda(self, n):
                return n

        new = T(at, depth).visit(clone(expr))
        return ast.fix_missing_locations(new)

    def prov(self, expr, at=None, depth=8):
        """Provenance: set of leaves the value of expr may derive from:
        ('param', name) ('attr', dotted) ('call', dotted-callee) ('const', repr) ('name', id)
        following all reaching definitions (any number) of local names."""
        at = at if at is not None else expr
        out = set()
        seen = set()

        def from_stmt_def(st, name):
            # value(s) that a defining statement binds to `name`
            if isinstance(st, ast.Assign):
                for t in st.targets:
                    if isinstance(t, ast.Name) and t.id == name:
                        return [st.value]
                    if isinstance(t, (ast.Tuple, ast.List)):
                        for i, e in enumerate(t.elts):
                            if isinstance(e, ast.Name) and e.id == name:
                                if isinstance(st.value, (ast.Tuple, ast.List)) and len(st.value.elts) == len(t.elts):
                                    return [st.value.elts[i]]
                                return [st.value]
                return [st.value]
            if isinstance(st, ast.AugAssign):
                return [st.value, ("prev", st)]
            if isinstance(st, ast.AnnAssign):
                return [st.value] if st.value is not None else []
            if isinstance(st, (ast.For, ast.AsyncFor)):
                return [st.iter]
            if isinstance(st, (ast.With, ast.AsyncWith)):
                return [i.context_expr for i in st.items]
            return []

        def rec(e, at, d):
            if isinstance(e, tuple) and e and e[0] == "prev":
                st = e[1]
                name = st.target.id if isinstance(st.target, ast.Name) else None
                if name:
                    for dd in self.defs(name, st):
                        visit_def(dd, name, d - 1)
                return
            for n in walk_no_nested(e):
                if isinstance(n, ast.Call):
                    dn = dotted(n.func)
                    if dn is None and isinstance(n.func, ast.Attribute):
                        dn = "?." + n.func.attr
                    if dn:
                        out.add(("call", dn))
                elif isinstance(n, ast.Attribute):
                    dn = dotted(n)
                    if dn and isinstance(n.ctx, ast.Load):
                        out.add(("attr", dn))
                elif isinstance(n, ast.Constant):
                    out.add(("const", repr(n.value)))
                elif isinstance(n, ast.Name) and isinstance(n.ctx, ast.Load):
                    # comprehension-bound names resolve to their iterables lexically
                    comp_iter = _comprehension_binding(n)
                    if comp_iter is not None:
                        continue
                    ds = self.defs(n.id, at)
                    if not ds:
                        out.add(("name", n.id))
                    for dd in ds:
                        visit_def(dd, n.id, d)

        def visit_def(dd, name, d):
            if dd == "param":
                out.add(("param", name))
                return
            key = (id(dd), name)
            if key in seen or d <= 0:
                return
            seen.add(key)
            for v in from_stmt_def(dd, name):
                rec(v, dd, d - 1)

        rec(expr, at, depth)
        return out


def _comprehension_binding(name_node):
    """If name_node is bound by an enclosing comprehension's target, return its iterable."""
    n = parent(name_node)
    child = name_node
    while n is not None and not isinstance(n, ast.stmt):
        if isinstance(n, (ast.ListComp, ast.SetComp, ast.GeneratorExp, ast.DictComp)):
            for g in n.generators:
                for t in ast.walk(g.target):
                    if isinstance(t, ast.Name) and t.id == name_node.id:
                        return g.iter
        child = n
        n = parent(n)
    return None


def lexically_inside(node, kinds):
    """Innermost ancestor of one of `kinds` (and the field of it that contains node)."""
    child = node
    n = parent(node)
    while n is not None:
        if isinstance(n, kinds):
            for fld in ("body", "orelse", "finalbody", "handlers", "test", "iter", "items"):
                v = getattr(n, fld, None)
                if isinstance(v, list) and any(x is child for x in v):
                    return n, fld
                if v is child:
                    return n, fld
            return n, None
        child = n
        n = parent(n)
    return None, None


def conjuncts(test):
    """Flatten a conjunction (and / &) into its operands."""
    if isinstance(test, ast.BoolOp) and isinstance(test.op, ast.And):
        out = []
        for v in test.values:
            out.extend(conjuncts(v))
        return out
    if isinstance(test, ast.BinOp) and isinstance(test.op, ast.BitAnd):
        return conjuncts(test.left) + conjuncts(test.right)
    return [test]


def emptiness_test_kind(test, about=None):
    """Classify a truth test used as an emptiness check of an array:
    'any'  -> `x.any()` / `np.any(x)` (wrong: zeros are data)
    'size' -> `.size`, `len(x)`, `.shape[i]`, comparison of those with 0
    None   -> something else."""
    t = test
    while isinstance(t, ast.UnaryOp) and isinstance(t.op, ast.Not):
        t = t.operand
    if isinstance(t, ast.Compare) and len(t.ops) == 1:
        sides = [t.left, t.comparators[0]]
        for s in sides:
            k = emptiness_test_kind(s, about)
            if k:
                return k
        return None
    if isinstance(t, ast.Call):
        d = dotted(t.func) or ""
        if isinstance(t.func, ast.Attribute) and t.func.attr in ("any", "all") and not t.args:
            return "any"
        if d.split(".")[-1] in ("any",) and t.args:
            return "any"
        if d == "len":
            return "size"
        if d.split(".")[-1] in ("size",):
            return "size"
    if isinstance(t, ast.Attribute) and t.attr == "size":
        return "size"
    if isinstance(t, ast.Subscript) and isinstance(t.value, ast.Attribute) and t.value.attr == "shape":
        return "size"
    return None


def iteration_constructs(root):
    """Unified view of `for x in it: yield e` / `yield from (e for x in it)` / `[e for x in it]` /
    `for x in it: out.append(e)`:  dicts with target, iter, ifs, elts (produced expressions), node."""
    out = []
    for n in walk_no_nested(root):
        if isinstance(n, (ast.ListComp, ast.SetComp, ast.GeneratorExp)) and len(n.generators) == 1:
            g = n.generators[0]
            out.append({"kind": "comp", "target": g.target, "iter": g.iter, "ifs": list(g.ifs), "elts": [n.elt], "node": n})
        elif isinstance(n, ast.For):
            prods = []      # (filters, produced expression)

            def production(st):
                if isinstance(st, ast.Expr) and isinstance(st.value, ast.Yield) and st.value.value is not None:
                    return st.value.value
                if isinstance(st, ast.Expr) and isinstance(st.value, ast.Call) and isinstance(st.value.func, ast.Attribute) \
                        and st.value.func.attr in ("append", "add") and len(st.value.args) == 1:
                    return st.value.args[0]
                if isinstance(st, ast.AugAssign) and isinstance(st.op, ast.Add) and isinstance(st.value, ast.List) and len(st.value.elts) == 1:
                    return st.value.elts[0]
                return None

            def scan(body, ifs):
                ifs = list(ifs)
                for st in body:
                    e = production(st)
                    if e is not None:
                        prods.append((tuple(ifs), e))
                    elif isinstance(st, ast.If):
                        skip = len(st.body) == 1 and isinstance(st.body[0], ast.Continue)
                        if skip and not st.orelse:
                            # `if c: continue` filters everything that follows
                            ifs.append(ast.UnaryOp(op=ast.Not(), operand=st.test))
                        else:
                            scan(st.body, ifs + [st.test])
                            if st.orelse:
                                scan(st.orelse, ifs + [ast.UnaryOp(op=ast.Not(), operand=st.test)])
            scan(n.body, [])
            groups = {}
            for ifs, e in prods:
                groups.setdefault(tuple(id(x) for x in ifs), (list(ifs), []))[1].append(e)
            for ifs, elts in groups.values():
                out.append({"kind": "for", "target": n.target, "iter": n.iter, "ifs": ifs, "elts": elts, "node": n})
    return out


def guard_chain(node, stop=None, implicit=False):
    """[(test expr, polarity)] of the enclosing if/elif/else branches of a statement (innermost last).
    implicit=True also counts guard clauses: an earlier sibling `if c: ...<jump>` without else contributes (c, False)."""
    out = []
    child = node
    n = parent(node)
    while n is not None:
        if implicit:
            for fld in ("body", "orelse", "finalbody"):
                blk = getattr(n, fld, None)
                if isinstance(blk, list) and any(child is s for s in blk):
                    for sib in reversed(blk[:[i for i, s in enumerate(blk) if s is child][0]]):
                        if isinstance(sib, ast.If) and not sib.orelse and ends_in_jump(sib.body):
                            out.append((sib.test, False))
        if n is stop or isinstance(n, (ast.FunctionDef, ast.AsyncFunctionDef)):
            break
        if isinstance(n, ast.If):
            if any(child is s for s in n.body):
                out.append((n.test, True))
            elif any(child is s for s in n.orelse):
                out.append((n.test, False))
        child = n
        n = parent(n)
    out.reverse()
    return out


def elementwise(target, it, index="_i"):
    """Bindings of one `for <target> in <it>` as expressions in a common index: `for i, x in enumerate(X)` gives
    {i: _i, x: X[_i]}, `for a, b in zip(A, B)` gives {a: A[_i], b: B[_i]}, `for x in X` gives {x: X[_i]},
    `for i in range(len(X))` gives {i: _i}.  None when the loop is not of these parallel forms."""
    def at(seq):
        return ast.Subscript(value=clone(seq), slice=ast.Name(id=index, ctx=ast.Load()), ctx=ast.Load())
    idx = ast.Name(id=index, ctx=ast.Load())
    if isinstance(it, ast.Call) and isinstance(it.func, ast.Name) and not it.keywords:
        fn = it.func.id
        if fn == "enumerate" and len(it.args) == 1 and isinstance(target, (ast.Tuple, ast.List)) and len(target.elts) == 2 \
                and isinstance(target.elts[0], ast.Name):
            inner = elementwise(target.elts[1], it.args[0], index)
            if inner is None:
                return None
            inner[target.elts[0].id] = idx
            return inner
        if fn == "zip" and isinstance(target, (ast.Tuple, ast.List)) and len(target.elts) == len(it.args):
            out = {}
            for t, a in zip(target.elts, it.args):
                sub = elementwise(t, a, index)
                if sub is None:
                    return None
                out.update(sub)
            return out
        if fn == "range" and len(it.args) == 1 and isinstance(target, ast.Name):
            return {target.id: idx}
        if fn in ("enumerate", "zip", "range", "reversed", "sorted", "map", "filter"):
            return None
    if isinstance(target, ast.Name):
        return {target.id: at(it)}
    return None


def elementwise_elt(comp, index="_i"):
    """element expression of a one-generator comprehension rewritten over the common index, or None"""
    if len(comp.generators) != 1 or comp.generators[0].ifs:
        return None
    g = comp.generators[0]
    m = elementwise(g.target, g.iter, index)
    if m is None:
        return None

    class T(ast.NodeTransformer):
        def visit_Name(self, n):
            if isinstance(n.ctx, ast.Load) and n.id in m:
                return clone(m[n.id])
            return n
    return ast.fix_missing_locations(T().visit(clone(comp.elt)))


def ends_in_jump(stmts):
    return bool(stmts) and isinstance(stmts[-1], (ast.Return, ast.Raise, ast.Continue, ast.Break))


def arms(st, cond, siblings=None):
    """(statements executed when `cond` holds, statements executed when it does not) for the if-statement `st`,
    whichever way round it is spelled (`if cond: A else: B`, `if not cond: B else: A`, guard clause `if not cond: B; <jump>` followed
    by A).  `siblings` is the statement list containing `st`: when one arm ends in a jump and there is no else, the
    statements after `st` are the other arm.  None if `st` tests neither `cond` nor its negation."""
    then, other = list(st.body), list(st.orelse)
    if not other and siblings is not None and ends_in_jump(then):
        k = [i for i, s in enumerate(siblings) if s is st]
        if k:
            other = list(siblings[k[0] + 1:])
    t = norm(st.test)
    neg = norm(ast.UnaryOp(op=ast.Not(), operand=clone(st.test)))
    if t == cond:
        return then, other
    if neg == cond:
        return other, then
    if isinstance(st.test, ast.UnaryOp) and isinstance(st.test.op, ast.Not) and norm(st.test.operand) == cond:
        return other, then
    return None


def straight_env(fnode, stop=(), upto=None, limit=1500):
    """Closed forms of the locals and `self.<attr>` values of a straight-line function body: {key: expression} where
    key is a local name or 'self.attr' and the expression mentions only parameters, keys in `stop`, and whatever was
    not assigned in the body.  Statements with control flow invalidate what they assign.  `upto`: stop before this statement."""
    env = {}
    stop = set(stop)

    class Sub(ast.NodeTransformer):
        def visit_Name(self, n):
            if isinstance(n.ctx, ast.Load) and n.id in env and n.id not in stop:
                return clone(env[n.id])
            return n

        def visit_Attribute(self, n):
            key = dotted(n)
            if key and isinstance(n.ctx, ast.Load) and key in env and key not in stop:
                return clone(env[key])
            return self.generic_visit(n)

        def visit_Lambda(self, n):
            return n

    def key_of(t):
        if isinstance(t, ast.Name):
            return t.id
        if isinstance(t, ast.Attribute) and isinstance(t.value, ast.Name) and t.value.id == "self":
            return "self." + t.attr
        return None

    def put(key, value):
        if key is None:
            return
        if len(ast.unparse(value)) > limit:
            env.pop(key, None)
            stop.add(key)
        else:
            env[key] = ast.fix_missing_locations(value)

    for st in fnode.body:
        if st is upto:
            break
        if isinstance(st, ast.Assign):
            v = Sub().visit(clone(st.value))
            for t in st.targets:
                if isinstance(t, (ast.Tuple, ast.List)) and not any(isinstance(e, ast.Starred) for e in t.elts):
                    for i, e in enumerate(t.elts):
                        if isinstance(v, (ast.Tuple, ast.List)) and len(v.elts) == len(t.elts):
                            put(key_of(e), clone(v.elts[i]))
                        else:
                            put(key_of(e), ast.Subscript(value=clone(v), slice=ast.Constant(value=i), ctx=ast.Load()))
                elif key_of(t) is not None:
                    put(key_of(t), clone(v))
                else:
                    # store into an element / attribute of something: that object is no longer its closed form
                    b = t
                    while isinstance(b, (ast.Subscript, ast.Attribute)) and key_of(b) is None:
                        b = b.value
                    k = key_of(b)
                    if k is not None:
                        env.pop(k, None)
        elif isinstance(st, ast.AugAssign) and key_of(st.target) is not None:
            k = key_of(st.target)
            cur = clone(env[k]) if k in env else clone(st.target)
            put(k, ast.BinOp(left=cur, op=st.op, right=Sub().visit(clone(st.value))))
        elif isinstance(st, (ast.If, ast.For, ast.While, ast.Try, ast.With)):
            for n in ast.walk(st):
                if isinstance(n, (ast.Name, ast.Attribute)) and isinstance(getattr(n, "ctx", None), ast.Store):
                    k = key_of(n)
                    if k is not None:
                        env.pop(k, None)
    return env


def const_str(e, env=None):
    """value of a string expression built from constants (and names bound in env to constants): 'a' + 'b', f'{p}x', '%s_x' % p"""
    env = env or {}
    if isinstance(e, ast.Constant) and isinstance(e.value, str):
        return e.value
    if isinstance(e, ast.Name) and e.id in env and isinstance(env[e.id], str):
        return env[e.id]
    if isinstance(e, ast.BinOp) and isinstance(e.op, ast.Add):
        a, b = const_str(e.left, env), const_str(e.right, env)
        return a + b if a is not None and b is not None else None
    if isinstance(e, ast.JoinedStr):
        out = ""
        for v in e.values:
            if isinstance(v, ast.Constant):
                out += str(v.value)
            elif isinstance(v, ast.FormattedValue) and v.format_spec is None and v.conversion == -1:
                s_ = const_str(v.value, env)
                if s_ is None:
                    return None
                out += s_
            else:
                return None
        return out
    if isinstance(e, ast.BinOp) and isinstance(e.op, ast.Mod) and isinstance(e.left, ast.Constant) and isinstance(e.left.value, str):
        args = e.right.elts if isinstance(e.right, ast.Tuple) else [e.right]
        vals = [const_str(a, env) for a in args]
        if any(v is None for v in vals):
            return None
        try:
            return e.left.value % tuple(vals)
        except Exception:
            return None
    return None


def dict_entries(e, flow=None, at=None, depth=4):
    """[(key string, value expression)] of a dict-valued expression that is statically a table: a literal, `{**a, **b}`,
    dict(k=v, **a), a dict comprehension over the items of such a table with a constant-foldable key.  None otherwise."""
    if depth <= 0:
        return None
    if isinstance(e, ast.Name) and flow is not None:
        r = flow.single_def_value(e.id, at if at is not None else e)
        return dict_entries(r[0], flow, r[1], depth - 1) if r else None
    if isinstance(e, ast.Dict):
        out = []
        for k, v in zip(e.keys, e.values):
            if k is None:
                sub = dict_entries(v, flow, at, depth - 1)
                if sub is None:
                    return None
                out.extend(sub)
            else:
                ks = const_str(k)
                if ks is None:
                    return None
                out.append((ks, v))
        return out
    if isinstance(e, ast.Call) and isinstance(e.func, ast.Name) and e.func.id == "dict":
        out = []
        for a in e.args:
            sub = dict_entries(a, flow, at, depth - 1)
            if sub is None:
                return None
            out.extend(sub)
        for k in e.keywords:
            if k.arg is None:
                sub = dict_entries(k.value, flow, at, depth - 1)
                if sub is None:
                    return None
                out.extend(sub)
            else:
                out.append((k.arg, k.value))
        return out
    if isinstance(e, ast.DictComp) and len(e.generators) == 1 and not e.generators[0].ifs:
        g = e.generators[0]
        it = g.iter
        if isinstance(it, ast.Call) and isinstance(it.func, ast.Attribute) and it.func.attr == "items" and not it.args \
                and isinstance(g.target, ast.Tuple) and len(g.target.elts) == 2 and all(isinstance(x, ast.Name) for x in g.target.elts):
            base = dict_entries(it.func.value, flow, at, depth - 1)
            if base is None:
                return None
            kn, vn = g.target.elts[0].id, g.target.elts[1].id
            out = []
            for ks, v in base:
                k2 = const_str(e.key, {kn: ks})
                if k2 is None:
                    return None

                class S(ast.NodeTransformer):
                    def visit_Name(self, n):
                        if isinstance(n.ctx, ast.Load) and n.id == vn:
                            return clone(v)
                        if isinstance(n.ctx, ast.Load) and n.id == kn:
                            return ast.Constant(value=ks)
                        return n
                out.append((k2, S().visit(clone(e.value))))
            return out
    return None


def closed_form(expr, stmt, stop=()):
    """`expr` (evaluated at statement `stmt`) with the locals assigned earlier in the same block replaced by their closed
    forms (assignments and augmented assignments folded; see straight_env)"""
    blk_owner = parent(stmt)
    block = None
    for fld in ("body", "orelse", "finalbody"):
        b = getattr(blk_owner, fld, None)
        if isinstance(b, list) and any(x is stmt for x in b):
            block = b
    if block is None:
        return clone(expr)

    class _B:
        pass
    holder = _B()
    holder.body = block
    env = straight_env(holder, stop=stop, upto=stmt)

    class Sub(ast.NodeTransformer):
        def visit_Name(self, n):
            if isinstance(n.ctx, ast.Load) and n.id in env:
                return clone(env[n.id])
            return n

        def visit_Lambda(self, n):
            return n
    return ast.fix_missing_locations(Sub().visit(clone(expr)))


def facts_at(stmt, stop=None):
    """[(expression, truth)] known when control reaches `stmt`: the conjuncts of the enclosing if-tests, the negated disjuncts of
    the else-branches and of earlier guard clauses; `not x` is reported as (x, False)."""
    out = []

    def add(e, truth):
        while isinstance(e, ast.UnaryOp) and isinstance(e.op, ast.Not):
            e, truth = e.operand, not truth
        if isinstance(e, ast.BoolOp) and ((isinstance(e.op, ast.And) and truth) or (isinstance(e.op, ast.Or) and not truth)):
            for v in e.values:
                add(v, truth)
        else:
            out.append((e, truth))
    for test, pol in guard_chain(stmt, stop=stop, implicit=True):
        add(test, pol)
    return out


def passes_before(flow, first, later, assume, stop=()):
    """Does every execution that reaches statement `later` under `assume` execute statement `first` before?  Structural
    criterion: an ancestor of `first` is an earlier sibling of an ancestor of `later` (control flows through it), and inside
    that ancestor `first` is executed under the assumptions (all of its guards decided in its favour, no loop / try in between)."""
    def chain(st):
        out = [st]
        n = parent(st)
        while n is not None and not isinstance(n, (ast.FunctionDef, ast.AsyncFunctionDef)):
            out.append(n)
            n = parent(n)
        out.append(n)
        return out
    ca, cb = chain(first), chain(later)
    for i, a in enumerate(ca[:-1]):
        pa = ca[i + 1]
        for j, b in enumerate(cb[:-1]):
            if cb[j + 1] is pa and a is not b:
                # a and b are children of the same node: same block, a earlier?
                for fld in ("body", "orelse", "finalbody"):
                    blk = getattr(pa, fld, None)
                    if isinstance(blk, list) and any(x is a for x in blk) and any(x is b for x in blk):
                        ia = [k for k, x in enumerate(blk) if x is a][0]
                        ib = [k for k, x in enumerate(blk) if x is b][0]
                        if ia >= ib:
                            return False
                        # inside a: first must be executed
                        n = parent(first)
                        child = first
                        while child is not a:
                            if isinstance(n, (ast.For, ast.While, ast.Try, ast.With)) and n is not a:
                                return False
                            child, n = n, parent(n)
                        # guards of `first` INSIDE a (what precedes a concerns `later` just as much)
                        child, n = first, parent(first)
                        while child is not a:
                            for fld2 in ("body", "orelse", "finalbody"):
                                blk2 = getattr(n, fld2, None)
                                if isinstance(blk2, list) and any(x is child for x in blk2):
                                    for sib in blk2[:[k for k, x in enumerate(blk2) if x is child][0]]:
                                        if isinstance(sib, ast.If) and not sib.orelse and ends_in_jump(sib.body) \
                                                and flow.decide_under(sib.test, assume, at=sib.test, stop=stop) is not False:
                                            return False
                            if isinstance(n, ast.If):
                                pol = any(child is x for x in n.body)
                                if flow.decide_under(n.test, assume, at=n.test, stop=stop) != pol:
                                    return False
                            child, n = n, parent(n)
                        # nothing inside a jumps past first before it ran (returns / raises in front of it under the assumptions)
                        return True
                return False
    return False


def three_valued(e, atoms):
    """truth of a test under the partial assignment `atoms` (normalised text -> bool): True, False or None (open)"""
    key = str(norm(e))
    if key in atoms:
        return atoms[key]
    if isinstance(e, ast.Constant):
        return bool(e.value)
    if isinstance(e, ast.UnaryOp) and isinstance(e.op, ast.Not):
        v = three_valued(e.operand, atoms)
        return None if v is None else not v
    if isinstance(e, ast.BoolOp):
        vals = [three_valued(v, atoms) for v in e.values]
        if isinstance(e.op, ast.And):
            return False if any(v is False for v in vals) else (True if all(v is True for v in vals) else None)
        return True if any(v is True for v in vals) else (False if all(v is False for v in vals) else None)
    return None


def reach_under(flow, atoms, stop=()):
    """CFG nodes reachable from the entry when every `if`/`while` test that `atoms` decides takes only the decided branch
    (tests are resolved through single-definition locals first).  An over-approximation of the executions consistent with
    the assumption: open tests take both branches, exception edges are all kept."""
    cfg = flow.cfg
    seen = set()
    todo = [ENTRY]
    while todo:
        a = todo.pop()
        st = cfg.stmt_of.get(a)
        decided = None
        if isinstance(st, (ast.If, ast.While)):
            t = st.test
            try:
                t = flow.resolve(t, at=st, stop=stop)
            except AnalysisError:
                pass
            decided = three_valued(t, atoms)
            if decided is None:
                decided = three_valued(st.test, atoms)
        for lab, b in cfg.succ.get(a, []):
            if decided is True and lab == "F":
                continue
            if decided is False and lab == "T":
                continue
            if b not in seen:
                seen.add(b)
                todo.append(b)
    return seen


def expand_none_facts(flow, facts, at):
    """facts (as of facts_at) extended by what `X is not None` implies for a local X that is bound to None everywhere except at one
    definition: control went through that definition, so the conditions under which it is reached hold as well (sound whatever the
    value bound there is).  Returns (facts, {X: value bound at that definition})."""
    out = list(facts)
    values = {}
    for e, truth in facts:
        name = None
        if isinstance(e, ast.Compare) and len(e.ops) == 1 and isinstance(e.left, ast.Name) and isinstance(e.comparators[0], ast.Constant) \
                and e.comparators[0].value is None:
            if (isinstance(e.ops[0], ast.IsNot) and truth) or (isinstance(e.ops[0], ast.Is) and not truth):
                name = e.left.id
        if name is None:
            continue
        ds = flow.defs(name, at)
        if "param" in ds or not ds or not all(isinstance(d, ast.Assign) and len(d.targets) == 1 and isinstance(d.targets[0], ast.Name) for d in ds):
            continue
        real = [d for d in ds if not (isinstance(d.value, ast.Constant) and d.value.value is None)]
        if len(real) != 1:
            continue
        values[name] = real[0].value
        for f2 in facts_at(real[0]):
            if not any(norm(f2[0]) == norm(g[0]) and f2[1] == g[1] for g in out):
                out.append(f2)
    return out, values
