"""T4b - exact rational interpretation of straight-line index arithmetic read from the AST:
+ - * / % with constants, trunc / floor / ceil / round / int, comparisons, one-armed ifs.
Used on finitely many (integer part, fractional class) representatives, which is exhaustive
for such expressions by translation invariance."""
import ast
import math
from fractions import Fraction
from .core import AnalysisError, norm, dotted


def _round_half_even(x):
    f = math.floor(x)
    d = x - f
    if d > Fraction(1, 2):
        return f + 1
    if d < Fraction(1, 2):
        return f
    return f if f % 2 == 0 else f + 1


FUNCS = {"trunc": lambda x: Fraction(math.trunc(x)), "floor": lambda x: Fraction(math.floor(x)), "ceil": lambda x: Fraction(math.ceil(x)),
         "round": lambda x: Fraction(_round_half_even(x)), "rint": lambda x: Fraction(_round_half_even(x)), "around": lambda x: Fraction(_round_half_even(x)),
         "int": lambda x: Fraction(math.trunc(x)), "abs": lambda x: abs(x), "float": lambda x: x, "fix": lambda x: Fraction(math.trunc(x))}


class Rat:
    def __init__(self, env):
        self.env = dict(env)

    def ev(self, n):
        t = norm(n)
        if t in self.env:
            return self.env[t]
        if isinstance(n, ast.Constant):
            if isinstance(n.value, bool):
                return n.value
            if isinstance(n.value, int):
                return Fraction(n.value)
            if isinstance(n.value, float):
                return Fraction(repr(n.value)) if "e" not in repr(n.value) else Fraction(n.value)
        if isinstance(n, ast.BinOp):
            l, r = self.ev(n.left), self.ev(n.right)
            if isinstance(n.op, ast.Add):
                return l + r
            if isinstance(n.op, ast.Sub):
                return l - r
            if isinstance(n.op, ast.Mult):
                return l * r
            if isinstance(n.op, ast.Div):
                return l / r
            if isinstance(n.op, ast.FloorDiv):
                return Fraction(math.floor(l / r))
            if isinstance(n.op, ast.Mod):
                return l - r * math.floor(l / r)
        if isinstance(n, ast.UnaryOp):
            v = self.ev(n.operand)
            if isinstance(n.op, ast.USub):
                return -v
            if isinstance(n.op, ast.Not):
                return not v
        if isinstance(n, ast.Compare):
            left = self.ev(n.left)
            res = True
            for op, c in zip(n.ops, n.comparators):
                r = self.ev(c)
                ok = {ast.Lt: left < r, ast.LtE: left <= r, ast.Gt: left > r, ast.GtE: left >= r, ast.Eq: left == r, ast.NotEq: left != r}.get(type(op))
                if ok is None:
                    raise AnalysisError("comparison outside the index model: %s" % t)
                res = res and ok
                left = r
            return res
        if isinstance(n, ast.BoolOp):
            vals = [self.ev(v) for v in n.values]
            return all(vals) if isinstance(n.op, ast.And) else any(vals)
        if isinstance(n, ast.Call):
            d = dotted(n.func) or ""
            last = d.split(".")[-1]
            if last in FUNCS and len(n.args) == 1 and not n.keywords:
                return FUNCS[last](self.ev(n.args[0]))
        raise AnalysisError("expression outside the index model: %s" % t)

    def run(self, stmts, stop=None):
        for st in stmts:
            if stop is not None and st is stop:
                return
            if isinstance(st, ast.Expr) and isinstance(st.value, ast.Constant):
                continue
            if isinstance(st, ast.Assign) and len(st.targets) == 1 and isinstance(st.targets[0], ast.Name):
                try:
                    self.env[st.targets[0].id] = self.ev(st.value)
                except AnalysisError:
                    self.env.pop(st.targets[0].id, None)   # arrays etc.: not part of the index model
                continue
            if isinstance(st, ast.AugAssign) and isinstance(st.target, ast.Name):
                if st.target.id not in self.env:
                    continue
                try:
                    v = self.ev(st.value)
                except AnalysisError:
                    self.env.pop(st.target.id, None)
                    continue
                cur = self.env[st.target.id]
                if isinstance(st.op, ast.Add):
                    self.env[st.target.id] = cur + v
                elif isinstance(st.op, ast.Sub):
                    self.env[st.target.id] = cur - v
                elif isinstance(st.op, ast.Mult):
                    self.env[st.target.id] = cur * v
                else:
                    raise AnalysisError("augmented assignment outside the index model: %s" % norm(st))
                continue
            if isinstance(st, ast.If):
                c = self.ev(st.test)
                self.run(st.body if c else st.orelse, stop)
                continue
            if isinstance(st, (ast.Return, ast.For, ast.While)):
                return
            if isinstance(st, ast.Assign) and len(st.targets) == 1 and isinstance(st.targets[0], (ast.Tuple, ast.List)) \
                    and all(isinstance(t, ast.Name) for t in st.targets[0].elts):
                # a, b = x, y   /   a, b = [f(v) for v in (p, q)]
                names = [t.id for t in st.targets[0].elts]
                vals = None
                v = st.value
                if isinstance(v, (ast.Tuple, ast.List)) and len(v.elts) == len(names):
                    vals = list(v.elts)
                elif isinstance(v, (ast.ListComp, ast.GeneratorExp)) and len(v.generators) == 1 and not v.generators[0].ifs \
                        and isinstance(v.generators[0].target, ast.Name) and isinstance(v.generators[0].iter, (ast.Tuple, ast.List)) \
                        and len(v.generators[0].iter.elts) == len(names):
                    vals = [("comp", v.elt, v.generators[0].target.id, it) for it in v.generators[0].iter.elts]
                got = []
                for item in (vals or []):
                    try:
                        if isinstance(item, tuple):
                            saved = self.env.get(item[2], self)
                            self.env[item[2]] = self.ev(item[3])
                            try:
                                got.append(self.ev(item[1]))
                            finally:
                                if saved is self:
                                    self.env.pop(item[2], None)
                                else:
                                    self.env[item[2]] = saved
                        else:
                            got.append(self.ev(item))
                    except AnalysisError:
                        got.append(None)
                if vals is None:
                    got = [None] * len(names)
                for nm, val in zip(names, got):
                    if val is None:
                        self.env.pop(nm, None)
                    else:
                        self.env[nm] = val
                continue
            # anything else: the names it binds are no longer known to the model
            for n_ in ast.walk(st):
                if isinstance(n_, ast.Name) and isinstance(n_.ctx, (ast.Store, ast.Del)):
                    self.env.pop(n_.id, None)
            continue
