"""Tiny linear-form extractor: expressions built from named symbols with + and -
(wrappers that are the identity on the time axis are looked through)."""
import ast
from .core import AnalysisError, norm, dotted

IDENTITY_WRAPPERS = {"to_datetime", "to_timedelta", "Timestamp", "Timedelta", "int", "float", "abs_identity"}


def linear_form(e, symmap, wrappers=IDENTITY_WRAPPERS, consts=None):
    """-> {symbol: coefficient} ; integer constants go to key 1 when consts is not None."""
    def rec(n):
        key = norm(n)
        if key in symmap:
            return {symmap[key]: 1}
        if isinstance(n, ast.Name):
            raise AnalysisError("unbound name %s in a linear form" % n.id)
        if isinstance(n, ast.Constant) and isinstance(n.value, (int, float)) and consts is not None:
            return {1: n.value} if n.value else {}
        if isinstance(n, ast.BinOp) and isinstance(n.op, (ast.Add, ast.Sub)):
            l, r = rec(n.left), rec(n.right)
            out = dict(l)
            sg = 1 if isinstance(n.op, ast.Add) else -1
            for k, v in r.items():
                out[k] = out.get(k, 0) + sg * v
                if out[k] == 0:
                    del out[k]
            return out
        if isinstance(n, ast.BinOp) and isinstance(n.op, ast.Mult):
            # integer constant * linear form
            for c_, o_ in ((n.left, n.right), (n.right, n.left)):
                if isinstance(c_, ast.Constant) and isinstance(c_.value, int) and not isinstance(c_.value, bool):
                    return {k: c_.value * v for k, v in rec(o_).items() if c_.value * v != 0}
        if isinstance(n, ast.UnaryOp) and isinstance(n.op, ast.USub):
            return {k: -v for k, v in rec(n.operand).items()}
        if isinstance(n, ast.Call):
            d = dotted(n.func) or (("?." + n.func.attr) if isinstance(n.func, ast.Attribute) else "")
            if d.split(".")[-1] in wrappers and n.args:
                return rec(n.args[0])
        raise AnalysisError("expression outside the linear class: %s" % key)
    return rec(e)
