"""State kept between calls that the confirmed tree does not have.

The properties quantify over histories ("for a reused object with any history of earlier calls", "whatever was computed before").
On the confirmed tree that part is decided by reading every store to the state that exists (attributes, caches, module-level
tables).  State that is NEW - a module-level container that functions write to, an attribute that a method other than __init__ /
a property setter assigns, a memoising decorator, a mutable default argument, a `global` statement - is outside what the rules
have read: a remembered answer, a reused buffer or a flag from an earlier call can be stale in ways no rule looks at.  Such
state is never a silent pass: the check answers "no verdict" (ANALYSIS-ERROR, exit 2) and names the construct.
"""
import ast
import json
import os

MUTATING = {"append", "extend", "insert", "update", "setdefault", "pop", "popitem", "clear", "add", "remove", "discard", "sort", "reverse",
            "fill", "resize", "put", "appendleft", "popleft", "__setitem__", "shuffle"}
MEMO = {"lru_cache", "cache", "cached_property", "memoize", "memoized"}
_SNAP = None


def _here(name):
    return os.path.join(os.path.dirname(os.path.abspath(__file__)), name)


def facts_of(tree):
    """{"globals": [...], "attrs": {class: [...]}, "memo": [qualnames], "mutable_defaults": [qualname:param], "global_stmts": [qualname:name]}"""
    out = {"globals": set(), "attrs": {}, "memo": set(), "mutable_defaults": set(), "global_stmts": set()}
    for st in tree.body:
        targets = []
        if isinstance(st, ast.Assign):
            targets = st.targets
        elif isinstance(st, (ast.AnnAssign, ast.AugAssign)):
            targets = [st.target]
        for t in targets:
            for n in ast.walk(t):
                if isinstance(n, ast.Name):
                    out["globals"].add(n.id)

    def funcs(node, prefix):
        for ch in ast.iter_child_nodes(node):
            if isinstance(ch, (ast.FunctionDef, ast.AsyncFunctionDef)):
                yield prefix + ch.name, ch, node if isinstance(node, ast.ClassDef) else None
                yield from funcs(ch, prefix + ch.name + ".")
            elif isinstance(ch, ast.ClassDef):
                yield from funcs(ch, prefix + ch.name + ".")
            else:
                yield from funcs(ch, prefix)
    for q, fn, cls in funcs(tree, ""):
        for d in fn.decorator_list:
            dn = d.func if isinstance(d, ast.Call) else d
            name = dn.attr if isinstance(dn, ast.Attribute) else (dn.id if isinstance(dn, ast.Name) else "")
            if name in MEMO:
                out["memo"].add(q)
        a = fn.args
        for p, dflt in list(zip([x.arg for x in (a.posonlyargs + a.args)][-len(a.defaults):] if a.defaults else [], a.defaults)) + \
                [(x.arg, d_) for x, d_ in zip(a.kwonlyargs, a.kw_defaults) if d_ is not None]:
            if isinstance(dflt, (ast.Dict, ast.List, ast.Set)) or (isinstance(dflt, ast.Call) and isinstance(dflt.func, ast.Name)
                                                                    and dflt.func.id in ("dict", "list", "set", "defaultdict", "deque", "OrderedDict")):
                out["mutable_defaults"].add("%s:%s" % (q, p))
        for n in ast.walk(fn):
            if isinstance(n, (ast.Global, ast.Nonlocal)) and isinstance(n, ast.Global):
                for nm in n.names:
                    out["global_stmts"].add("%s:%s" % (q, nm))
        if cls is not None and fn.args.args:
            me = fn.args.args[0].arg
            for n in ast.walk(fn):
                if isinstance(n, ast.Attribute) and isinstance(n.ctx, ast.Store) and isinstance(n.value, ast.Name) and n.value.id == me:
                    out["attrs"].setdefault(cls.name, set()).add(n.attr)
    for st in ast.walk(tree):
        if isinstance(st, ast.ClassDef):
            for b in st.body:
                if isinstance(b, ast.Assign):
                    for t in b.targets:
                        if isinstance(t, ast.Name):
                            out["attrs"].setdefault(st.name, set()).add(t.id)
    return {"globals": sorted(out["globals"]), "attrs": {k: sorted(v) for k, v in out["attrs"].items()}, "memo": sorted(out["memo"]),
            "mutable_defaults": sorted(out["mutable_defaults"]), "global_stmts": sorted(out["global_stmts"])}


def snapshot(root):
    snap = {}
    for dp, dn, fn in os.walk(os.path.join(root, "typhon")):
        for f in fn:
            if f.endswith(".py"):
                p = os.path.join(dp, f)
                try:
                    snap[os.path.relpath(p, root)] = facts_of(ast.parse(open(p).read()))
                except SyntaxError:
                    pass
    return snap


def known():
    global _SNAP
    if _SNAP is None:
        try:
            with open(_here("known_state.json")) as fh:
                _SNAP = json.load(fh)
        except FileNotFoundError:
            _SNAP = {}
    return _SNAP


def new_state(mod):
    """[(line, description)] of state in module `mod` (core.Module) that the snapshot does not have"""
    base = known().get(mod.rel)
    if base is None:
        return []
    tree = mod.tree
    now = facts_of(tree)
    out = []
    # (a) new module-level names that functions write to
    new_globals = set(now["globals"]) - set(base["globals"])
    if new_globals:
        for fn in [n for n in ast.walk(tree) if isinstance(n, (ast.FunctionDef, ast.AsyncFunctionDef))]:
            local = {n.id for n in ast.walk(fn) if isinstance(n, ast.Name) and isinstance(n.ctx, ast.Store)} | {a.arg for a in fn.args.args + fn.args.kwonlyargs}
            declared = {nm for n in ast.walk(fn) if isinstance(n, ast.Global) for nm in n.names}
            for n in ast.walk(fn):
                nm = None
                if isinstance(n, (ast.Subscript, ast.Attribute)) and isinstance(n.ctx, (ast.Store, ast.Del)):
                    b = n.value
                    while isinstance(b, (ast.Subscript, ast.Attribute)):
                        b = b.value
                    if isinstance(b, ast.Name):
                        nm = b.id
                elif isinstance(n, ast.Call) and isinstance(n.func, ast.Attribute) and n.func.attr in MUTATING:
                    b = n.func.value
                    while isinstance(b, (ast.Subscript, ast.Attribute)):
                        b = b.value
                    if isinstance(b, ast.Name):
                        nm = b.id
                elif isinstance(n, ast.Call) and any(isinstance(a, ast.Name) and a.id in new_globals for a in n.args) \
                        and (getattr(n.func, "attr", None) in ("shuffle", "fill_diagonal", "copyto", "put") or any(k.arg == "out" for k in n.keywords)):
                    nm = [a.id for a in n.args if isinstance(a, ast.Name) and a.id in new_globals][0]
                if nm in new_globals and (nm not in local or nm in declared):
                    out.append((n.lineno, "module-level %s is written in %s()" % (nm, fn.name)))
    for g in sorted(set(now["global_stmts"]) - set(base["global_stmts"])):
        out.append((0, "new `global %s` in %s()" % (g.split(":")[1], g.split(":")[0])))
    # (b) attributes assigned by methods other than __init__ / setters that no method assigned before
    for cls, attrs in now["attrs"].items():
        fresh = set(attrs) - set(base["attrs"].get(cls, []))
        if not fresh or cls not in base["attrs"]:
            continue
        for c in [n for n in ast.walk(tree) if isinstance(n, ast.ClassDef) and n.name == cls]:
            for fn in [b for b in c.body if isinstance(b, (ast.FunctionDef, ast.AsyncFunctionDef))]:
                if fn.name in ("__init__", "__new__", "__post_init__") or any(isinstance(d, ast.Attribute) and d.attr == "setter" for d in fn.decorator_list):
                    continue
                me = fn.args.args[0].arg if fn.args.args else None
                for n in ast.walk(fn):
                    if isinstance(n, ast.Attribute) and isinstance(n.ctx, ast.Store) and isinstance(n.value, ast.Name) and n.value.id == me and n.attr in fresh:
                        out.append((n.lineno, "new attribute %s.%s is assigned in %s()" % (cls, n.attr, fn.name)))
    # (c) memoising decorators, (d) mutable default arguments
    for q in sorted(set(now["memo"]) - set(base["memo"])):
        out.append((0, "%s() is memoised by a decorator" % q))
    for q in sorted(set(now["mutable_defaults"]) - set(base["mutable_defaults"])):
        out.append((0, "mutable default argument %s" % q))
    seen = set()
    uniq = []
    for ln, d in sorted(out):
        if d not in seen:
            seen.add(d)
            uniq.append((ln, d))
    return uniq



LOSSY = {"round", "around", "round_", "rint", "floor", "ceil", "trunc", "int", "id", "len", "hash", "type"}
LOSSY_ATTR = {"shape", "size", "ndim", "dtype", "seconds", "days", "year", "month", "day", "hour"}


def _names(e):
    return {n.id for n in ast.walk(e) if isinstance(n, ast.Name) and isinstance(n.ctx, ast.Load)}


def _dep_closure(fn, start):
    """names the expressions `start` depend on through the assignments of fn (flow-insensitive def-use closure)"""
    deps = {}
    for n in ast.walk(fn):
        tg, src = [], None
        if isinstance(n, ast.Assign):
            tg, src = n.targets, n.value
        elif isinstance(n, (ast.AugAssign, ast.AnnAssign)) and n.value is not None:
            tg, src = [n.target], n.value
        elif isinstance(n, (ast.For, ast.comprehension)):
            tg, src = [n.target], n.iter
        elif isinstance(n, ast.Call) and isinstance(n.func, ast.Attribute) and n.func.attr in MUTATING and isinstance(n.func.value, ast.Name):
            deps.setdefault(n.func.value.id, set()).update(_names(n))
            continue
        if src is None:
            continue
        for t in tg:
            base = t
            while isinstance(base, (ast.Subscript, ast.Attribute, ast.Starred)):
                base = base.value
            for nm in ([base] if isinstance(base, ast.Name) else [x for x in ast.walk(t) if isinstance(x, ast.Name)]):
                deps.setdefault(nm.id, set()).update(_names(src))
    seen, todo = set(), list(start)
    while todo:
        x = todo.pop()
        if x in seen:
            continue
        seen.add(x)
        todo += list(deps.get(x, ()))
    return seen


def _mapping_like(fn, name):
    for n in ast.walk(fn):
        if isinstance(n, ast.Attribute) and isinstance(n.value, ast.Name) and n.value.id == name and n.attr in ("items", "keys", "values", "get", "setdefault"):
            return True
        if isinstance(n, ast.Call) and isinstance(n.func, ast.Attribute) and n.func.attr == "update" and any(isinstance(a, ast.Name) and a.id == name for a in n.args):
            return True
        if isinstance(n, ast.keyword) and n.arg is None and isinstance(n.value, ast.Name) and n.value.id == name:
            return True
        if isinstance(n, ast.Dict) and any(k is None and isinstance(v, ast.Name) and v.id == name for k, v in zip(n.keys, n.values)):
            return True
    return False


def lossy_memo_keys(tree, names):
    """[(store node, text)]: `CACHE[key] = value` into one of the new stores `names` (module-level names / self attributes) where the key is built
    from an argument X through a function that forgets part of X (rounding, int(), id(), len(), .shape, iteration over a mapping = its keys only)
    while the value is computed from X itself: two different X share one entry, the second caller gets the first caller's value."""
    out = []
    for fn in [n for n in ast.walk(tree) if isinstance(n, (ast.FunctionDef, ast.AsyncFunctionDef))]:
        params = {a.arg for a in fn.args.args + fn.args.kwonlyargs + fn.args.posonlyargs}
        for st in ast.walk(fn):
            if not isinstance(st, ast.Assign):
                continue
            for t in st.targets:
                if not isinstance(t, ast.Subscript):
                    continue
                b = t.value
                store = b.id if isinstance(b, ast.Name) else (b.attr if isinstance(b, ast.Attribute) and isinstance(b.value, ast.Name) else None)
                if store not in names:
                    continue
                key = t.slice
                if isinstance(key, ast.Name):
                    defs = [a.value for a in ast.walk(fn) if isinstance(a, ast.Assign) and any(isinstance(x, ast.Name) and x.id == key.id for x in a.targets)]
                    if len(defs) != 1:
                        continue
                    key = defs[0]
                forgot = []
                for c in ast.walk(key):
                    arg = None
                    if isinstance(c, ast.Call):
                        last = c.func.attr if isinstance(c.func, ast.Attribute) else (c.func.id if isinstance(c.func, ast.Name) else None)
                        if last in LOSSY and c.args:
                            arg = c.args[0]
                            how = "%s()" % last
                        elif last in ("sorted", "tuple", "list", "set", "frozenset") and len(c.args) == 1 and isinstance(c.args[0], ast.Name) \
                                and _mapping_like(fn, c.args[0].id):
                            arg = c.args[0]
                            how = "%s() of a mapping (its keys only)" % last
                    elif isinstance(c, ast.Attribute) and c.attr in LOSSY_ATTR and isinstance(c.value, ast.Name):
                        arg = c.value
                        how = ".%s" % c.attr
                    if arg is None:
                        continue
                    for x in _names(arg) & params:
                        # X also enters the key whole (`(x.shape, x.tobytes())`, `(taus, round(taus))`): nothing is forgotten
                        whole = [n for n in ast.walk(key) if isinstance(n, ast.Name) and n.id == x
                                 and not any(n in set(ast.walk(c2)) for c2 in ast.walk(key) if c2 is c)]
                        if not whole:
                            forgot.append((x, how))
                if not forgot:
                    continue
                vdeps = _dep_closure(fn, _names(st.value))
                for x, how in forgot:
                    if x in vdeps:
                        out.append((st, "%s[...] is keyed by %s of the argument `%s` while the stored value is computed from `%s` itself (%s): "
                                        "two different `%s` share one entry" % (store, how, x, x, fn.name, x)))
    return out


def rule_state(ctx, rule):
    """run after the other rules of a property: every module they consulted"""
    from .core import AnalysisError
    ctx.rule(rule, "T2 (who may write)", "no state kept between calls beyond what the confirmed tree has (see tyverif/state.py)")
    found = []
    for c in ctx.repo.consulted():
        rel = c["path"]
        if not rel.startswith("typhon/"):
            continue
        for ln, d in new_state(ctx.repo.mod(rel)):
            found.append("%s:%s %s" % (rel, ln or "", d))
    # a new cache whose key forgets part of what the value is computed from is decided, not just refused
    import re as _re
    class _F:
        def __init__(self, rel):
            self.module = type("M", (), {"rel": rel})()
        def where(self):
            return self.module.rel
    decided = 0
    # the rule's expected count on the confirmed tree is zero: a built-in positive and a negative example keep it from passing vacuously
    _pos = ast.parse("_C = {}\ndef f(taus, m):\n    k = (tuple(np.round(taus, 3)), tuple(sorted(m)))\n    m.items()\n    w = 1 - taus\n    _C[k] = (w, dict(m))\n")
    _neg = ast.parse("_C = {}\ndef f(x):\n    k = (x.shape, x.tobytes())\n    _C[k] = x.sum()\n")
    if len(lossy_memo_keys(_pos, {"_C"})) != 2 or lossy_memo_keys(_neg, {"_C"}):
        raise AnalysisError("state.memo_key: the built-in examples are not decided as expected - the rule is broken, no verdict")
    for c in ctx.repo.consulted():
        rel = c["path"]
        if not rel.startswith("typhon/"):
            continue
        mod = ctx.repo.mod(rel)
        names = set()
        for ln, d in new_state(mod):
            m_ = _re.search(r"module-level (\w+) is written|new attribute \w+\.(\w+) is assigned", d)
            if m_:
                names.add(m_.group(1) or m_.group(2))
        base = known().get(rel)
        if base is not None:
            now = facts_of(mod.tree)
            for cls, attrs in now["attrs"].items():
                names |= set(attrs) - set(base["attrs"].get(cls, []))
        if not names:
            continue
        for st, text in lossy_memo_keys(mod.tree, names):
            decided += 1
            ctx.ob("state.memo_key", False, text, "the key of a cache determines the cached value (everything the value is computed from enters the key whole)",
                   node=st, func=_F(rel), witness={"first call": "X1", "second call": "X2 != X1 with the same key", "answer": "the value for X1"})
    ctx.count("modules_scanned_for_new_state", len(ctx.repo.consulted()))
    ctx.ob("state", True, "modules scanned: %d; new state: %s" % (len(ctx.repo.consulted()), found or "none"), "none, or no verdict", node=None, func=None) \
        if not found else None
    if found:
        raise AnalysisError("state kept between calls that the rules have not read: %s - whether it can go stale is not analysed, no verdict" % "; ".join(found[:4]))
