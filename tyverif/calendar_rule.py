"""A hand-written leap-year test is the complete Gregorian rule.

Shared by the properties whose anchors parse or build dates (file name fields such as {doy}).  Every boolean expression that contains
`<year> % 4` is evaluated - by constant folding over the literal years below, no typhon code is run - for the years that tell the rules
apart: 1900 and 2100 (divisible by 100, not by 400: common), 2000 and 2400 (divisible by 400: leap), 2004, 2001.  `year % 4 == 0` alone, or
`year % 4 == 0 and year % 100 != 0`, drops or adds a 29 February / day 366 in a century year."""
import ast
import calendar
from .core import norm, parent, walk_no_nested

YEARS = (1600, 1700, 1900, 2000, 2001, 2004, 2100, 2400)


def _fold(e, env):
    if isinstance(e, ast.Constant) and isinstance(e.value, (int, bool)):
        return e.value
    if isinstance(e, ast.Name) and e.id in env:
        return env[e.id]
    if isinstance(e, ast.Attribute) and norm(e) in env:
        return env[norm(e)]
    if isinstance(e, ast.BinOp) and isinstance(e.op, (ast.Mod, ast.FloorDiv, ast.Add, ast.Sub, ast.Mult)):
        a, b = _fold(e.left, env), _fold(e.right, env)
        return {ast.Mod: lambda: a % b, ast.FloorDiv: lambda: a // b, ast.Add: lambda: a + b, ast.Sub: lambda: a - b, ast.Mult: lambda: a * b}[type(e.op)]()
    if isinstance(e, ast.UnaryOp) and isinstance(e.op, ast.Not):
        return not _fold(e.operand, env)
    if isinstance(e, ast.BoolOp):
        vals = [_fold(v, env) for v in e.values]
        return all(vals) if isinstance(e.op, ast.And) else any(vals)
    if isinstance(e, ast.Compare) and len(e.ops) == 1:
        a, b = _fold(e.left, env), _fold(e.comparators[0], env)
        op = type(e.ops[0])
        return {ast.Eq: a == b, ast.NotEq: a != b, ast.Lt: a < b, ast.LtE: a <= b, ast.Gt: a > b, ast.GtE: a >= b}[op]
    if isinstance(e, ast.IfExp):
        return _fold(e.body if _fold(e.test, env) else e.orelse, env)
    raise ValueError(norm(e))


def leap_tests(fnode):
    """[(expression node, year name)] - maximal boolean / conditional expressions around a `% 4`"""
    out = []
    seen = set()
    for n in ast.walk(fnode):
        if isinstance(n, ast.BinOp) and isinstance(n.op, ast.Mod) and isinstance(n.right, ast.Constant) and n.right.value == 4:
            year = norm(n.left)
            top = n
            p = parent(top)
            while isinstance(p, (ast.BoolOp, ast.Compare, ast.UnaryOp)) or (isinstance(p, ast.IfExp) and p.test is top):
                top = p
                p = parent(top)
            if isinstance(p, ast.IfExp) and p.test is top:
                top = p
            if id(top) not in seen:
                seen.add(id(top))
                out.append((top, str(year)))
    return out


def rule_leap(ctx, rule, targets):
    from .core import AnalysisError
    ctx.rule(rule, "T4 (truth table over the years that separate the rules)", "a hand-written leap-year test is the complete Gregorian rule")
    n = 0
    pairs = []
    for t in targets:
        if isinstance(t, str):
            pairs.extend((t, q) for q in sorted(ctx.mod(t).funcs))     # every function of the module
        else:
            pairs.append(t)
    for rel, q in pairs:
        f = ctx.mod(rel).funcs.get(q)
        if f is None:
            continue
        tests = leap_tests(f.node)
        if tests:
            ctx.func(rel, q, raw=True)        # (recorded as analysed)
        for e, year in tests:
            n += 1
            wrong = None
            kind = None
            for y in YEARS:
                try:
                    v = _fold(e, {year: y})
                except (ValueError, KeyError, ZeroDivisionError, TypeError):
                    raise AnalysisError("%s: the expression around `%s %% 4` (%s) is outside the model" % (q, year, norm(e)[:70]))
                leap = calendar.isleap(y)
                if isinstance(v, bool):
                    kind = "flag"
                    # the expression may be the test for a leap OR for a common year: it has to be one of the two for all years
                    wrong = wrong or {}
                    wrong.setdefault("as leap test", []).extend([y] if v != leap else [])
                    wrong.setdefault("as common-year test", []).extend([y] if v != (not leap) else [])
                elif isinstance(v, int):
                    kind = "days"
                    wrong = wrong or {}
                    wrong.setdefault("as days of the year / of February", []).extend([y] if v not in ((366, 29)[0:1] if leap else (365,)) and v not in ((29,) if leap else (28,)) else [])
            ok = kind is not None and any(not ys for ys in wrong.values())
            ctx.ob("%s.leap_rule" % q, ok, "%s  -> wrong for %s" % (norm(e)[:80], {k: v for k, v in wrong.items()} if not ok else "no year"),
                   "the Gregorian rule: divisible by 4, except centuries not divisible by 400 (1900, 2100 common; 2000, 2400 leap)",
                   node=e, func=f, witness=None if ok else {"years tried": list(YEARS), "disagreements": wrong})
    if n == 0:
        ctx.ob("leap_rule", True, "no hand-written leap-year arithmetic (dates are built with datetime)", "-", node=None, func=None)
