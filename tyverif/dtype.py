"""T1 structural rule shared by the numerical properties: arrays a function allocates for its results are floating point whatever
the dtype of the arguments.  `np.empty_like(x)` / `np.zeros_like(x)` / `dtype=x.dtype` / `dtype=np.result_type(...)` make the buffer
inherit the dtype of an argument: integer input then truncates every value stored into it (and NaN cannot be stored at all)."""
import ast
from .core import norm, dotted, calls_in, enclosing_stmt
from .flow import Flow

ALLOC = ("empty", "zeros", "ones", "full", "empty_like", "zeros_like", "ones_like", "full_like")
FLOAT = ("float", "np.float64", "np.float_", "np.double", "'float'", "'float64'", "'f8'", "np.longdouble", "complex", "np.complex128")
CONVERTED = ("astype(float", "dtype=float", "dtype=np.float64", "np.float64(")


def inherited_buffers(f):
    """[(call, reason)] for the allocations of `f` that take their dtype from an argument"""
    flow = Flow(f)
    params = set(f.all_params) - {"self", "cls"}
    bad = []
    n = 0

    def from_argument(e, at):
        for x in ast.walk(e):
            if isinstance(x, ast.Name) and isinstance(x.ctx, ast.Load):
                if x.id in params and "param" in flow.defs(x.id, at):
                    return True
                for d in flow.defs(x.id, at):
                    if d != "param" and isinstance(d, ast.Assign) and any(isinstance(y, ast.Name) and y.id in params for y in ast.walk(d.value)) \
                            and not any(t in str(norm(d.value)).replace(" ", "") for t in CONVERTED):
                        return True
        return False
    for c in calls_in(f.node):
        last = (dotted(c.func) or "").split(".")[-1]
        if last not in ALLOC or not (dotted(c.func) or "").startswith(("np.", "numpy.")):
            continue
        n += 1
        st = enclosing_stmt(c)
        dt = [k.value for k in c.keywords if k.arg == "dtype"]
        if not dt and last in ("empty", "zeros", "ones") and len(c.args) > 1:
            dt = [c.args[1]]
        if dt:
            t = str(norm(dt[0]))
            if t in FLOAT or t in ("bool", "int", "np.int64", "np.intp", "object", "'int'", "np.bool_", "'bool'", "str"):
                continue            # an explicit type: what the author wants (index / mask / object arrays included)
            if from_argument(dt[0], st) or "result_type" in t or t.endswith(".dtype"):
                bad.append((c, "%s: dtype taken from the arguments" % norm(c)[:60]))
        elif last.endswith("_like") and c.args and from_argument(c.args[0], st):
            if isinstance(c.args[0], ast.Name) and any(
                    d != "param" and isinstance(d, ast.Assign) and any(t in str(norm(d.value)).replace(" ", "") for t in CONVERTED)
                    for d in flow.defs(c.args[0].id, st)):
                continue            # shaped like an array that was converted to floating point before
            bad.append((c, "%s: takes the dtype of its argument" % norm(c)[:60]))
    return n, bad


def rule_float_buffers(ctx, rule, targets, why="integer-typed input truncates the results"):
    ctx.rule(rule, "T1", "arrays allocated for results do not inherit the dtype of an argument")
    for rel, q in targets:
        f = ctx.func(rel, q)
        n, bad = inherited_buffers(f)
        ctx.ob("%s.buffers" % q, not bad, "%d allocation(s); dtype inherited from an argument: %s" % (n, [b[1] for b in bad] or "none"),
               "np.empty(shape) / np.zeros(shape) / an explicit dtype - %s" % why, node=bad[0][0] if bad else f.node, func=f)
