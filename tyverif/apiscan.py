"""T8 - API resolution: does a dotted library name written in the analysed source exist in the
library typhon is installed against?  The question is answered by a helper process under the
repository's own interpreter that imports the *library* (never typhon) and walks getattr.
"""
import ast
import json
import os
import subprocess
from .core import AnalysisError, dotted, walk_no_nested

VENV_PY = "/venv/bin/python"
LIBS = {"np": "numpy", "numpy": "numpy", "pd": "pandas", "pandas": "pandas", "xr": "xarray", "xarray": "xarray",
        "scipy": "scipy", "netCDF4": "netCDF4"}
_cache = {}

HELPER = r"""
import importlib, json, sys, inspect
names = json.load(sys.stdin)
out = {}
for full in names:
    parts = full.split(".")
    try:
        obj = importlib.import_module(parts[0])
    except Exception as e:
        out[full] = {"exists": None, "why": "cannot import %s: %s" % (parts[0], e)}
        continue
    ok = True
    for i, p in enumerate(parts[1:], 1):
        try:
            obj = getattr(obj, p)
        except AttributeError as e:
            try:
                obj = importlib.import_module(".".join(parts[:i + 1]))
            except Exception:
                ok = False
                out[full] = {"exists": False, "why": str(e)[:200]}
                break
        except Exception as e:
            ok = False
            out[full] = {"exists": False, "why": "%s: %s" % (type(e).__name__, str(e)[:200])}
            break
    if ok:
        info = {"exists": True}
        try:
            info["params"] = list(inspect.signature(obj).parameters)
        except Exception:
            pass
        out[full] = info
json.dump(out, sys.stdout)
"""


def library_names(func, module):
    """dotted names rooted in a library alias used (loaded) inside func -> {canonical: [nodes]}"""
    out = {}
    for n in walk_no_nested(func.node):
        if isinstance(n, ast.Attribute) and isinstance(n.ctx, ast.Load):
            d = dotted(n)
            if not d:
                continue
            head = d.split(".")[0]
            org = module.imports.get(head)
            lib = None
            if org and org.split(".")[0] in LIBS.values():
                lib = org
            elif head in LIBS and (org is None or org == LIBS[head]):
                lib = LIBS[head] if org is None and head in module.imports else (org or None)
            if lib is None:
                continue
            # only maximal chains
            p = getattr(n, "_parent", None)
            if isinstance(p, ast.Attribute) and p.value is n:
                continue
            canon = lib + d[len(head):]
            out.setdefault(canon, []).append(n)
    return out


def resolve(names):
    """names: iterable of canonical dotted names -> {name: info}"""
    todo = [n for n in names if n not in _cache]
    if todo:
        if not os.path.exists(VENV_PY):
            raise AnalysisError("API resolution needs %s (the repository's interpreter)" % VENV_PY)
        try:
            p = subprocess.run([VENV_PY, "-c", HELPER], input=json.dumps(sorted(todo)), capture_output=True, text=True, timeout=120)
        except Exception as e:
            raise AnalysisError("API helper failed: %s" % e)
        if p.returncode != 0:
            raise AnalysisError("API helper failed: %s" % p.stderr[-300:])
        _cache.update(json.loads(p.stdout))
    return {n: _cache[n] for n in names}
