import sympy as sp, time
t0=time.time()
x,Mw,Md,f,T,h,k,c = sp.symbols("x Mw Md f T h k c", positive=True)
vmr2q = lambda x: x/((1-x)*Md/Mw + x)
q2vmr = lambda q: q/((1-q)*Mw/Md+q)
print("inv:", sp.cancel(sp.together(q2vmr(vmr2q(x)) - x)))
planck = lambda f,T: 2*h*f**3/(c**2*(sp.exp(h*f/(k*T))-1))
planck_wl = lambda l,T: 2*h*c**2/(l**5*(sp.exp(h*c/(l*k*T))-1))
e = planck_wl(c/f,T) - planck(f,T)*f**2/c
print("wl:", sp.simplify(e), sp.cancel(sp.together(e)))
Tb = lambda f,r: h/k*f/sp.log((2*h/c**2)*f**3/r + 1)
print("Tb:", sp.simplify(Tb(f,planck(f,T)) - T))
# trig chord identity
p1,l1,p2,l2,R = sp.symbols("p1 l1 p2 l2 R", real=True)
a = sp.sin((p2-p1)/2)**2 + sp.cos(p1)*sp.cos(p2)*sp.sin((l2-l1)/2)**2
def cart(p,l): return sp.Matrix([R*sp.cos(p)*sp.cos(l), R*sp.cos(p)*sp.sin(l), R*sp.sin(p)])
d2 = sum((u-v)**2 for u,v in zip(cart(p1,l1), cart(p2,l2)))
t1=time.time()
print("chord:", sp.simplify(d2 - 4*R**2*a), round(time.time()-t1,2))
# matrices
n,m = 3,4
K = sp.MatrixSymbol("K", m, n); Sa = sp.MatrixSymbol("Sa", n, n); Sy = sp.MatrixSymbol("Sy", m, m)
S1 = (K.T*Sy.I*K + Sa.I).I
S2 = (Sa.I + K.T*Sy.I*K).I
print("mat eq:", S1 == S2, (S1*K.T*Sy.I) == (S2*K.T*Sy.I))
print(round(time.time()-t0,2),"s")
