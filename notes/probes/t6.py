import warnings; warnings.filterwarnings("ignore")
import numpy as np
from typhon.topography import SRTM30
d = SRTM30._dlat
for (a,b,c,e) in [(50,10,51,11),(50.001,10.001,50.999,10.999),(50.0, 10.0, 50.0+2.5*d, 10.0+2.5*d), (50.0+0.5*d, 10+0.5*d, 50.0+2.5*d, 10.0+2.5*d)]:
    la, lo = SRTM30.get_native_grids(a,b,c,e)
    print((a,b,c,e), "lat: n=%d top edge=%.6f bottom edge=%.6f | lon: n=%d left=%.6f right=%.6f" % (la.size, la.max()+d/2, la.min()-d/2, lo.size, lo.min()-d/2, lo.max()+d/2))
