import warnings, os, tempfile, traceback, time, threading
warnings.filterwarnings("ignore")
from datetime import datetime, timedelta
from typhon.files import FileSet, FileHandler
d = tempfile.mkdtemp(dir="/tmp/scratch")
def reader(f): return open(f.path).read()
def writer(data, f): open(f.path, "w").write(data)
h = FileHandler(reader=reader, writer=writer)
fs = FileSet(os.path.join(d, "a/{year}/{month}/{day}/{hour}{minute}{second}-{end_hour}{end_minute}{end_second}.txt.gz"), handler=h)
for day in (1,2):
    for hh in (0, 6, 12, 18):
        fs[datetime(2018,1,day,hh):datetime(2018,1,day,hh+5,59,59)] = f"{day}-{hh}"
print("n", len(fs), "gz magic:", open(fs.find_closest("2018-01-01").path,"rb").read(2))
print("collect:", fs.collect("2018-01-01", "2018-01-02"))
print("slice:", fs["2018-01-01":"2018-01-01 12:00"])
import random
def slow(content, info=None):
    time.sleep(random.random()*0.05); return content
print("map:", fs.map(slow, on_content=True, worker_type="thread", max_workers=4))
print("imap:", list(fs.imap(slow, on_content=True, worker_type="thread", max_workers=3)))
print("icollect:", list(fs.icollect()))
# read error -> warning
bad = fs.get_filename((datetime(2018,1,3,0), datetime(2018,1,3,5,59,59)))
os.makedirs(os.path.dirname(bad), exist_ok=True); open(bad,"wb").write(b"notgzip")
try: print("err2warn:", fs.map(slow, on_content=True, worker_type="thread", error_to_warning=True))
except Exception as e: print("EXC err2warn", type(e).__name__, e)
try: fs.map(slow, on_content=True, worker_type="thread"); print("no exception?!")
except Exception as e: print("propagated:", type(e).__name__)
os.remove(bad)
# closest
for t in ["2018-01-01 03:00", "2018-01-02 23:59:59", "2018-01-02 23:59:59.5", "2018-01-03 05:00", "2017-12-31 20:00"]:
    try: r = fs.find_closest(t); print("closest", t, "->", None if r is None else r.times[0])
    except Exception as e: print("closest", t, "EXC", type(e).__name__)
# delete dry run and real
fs.delete(dry_run=True, start="2018-01-02", worker_type="thread"); print("after dry", len(fs))
fs.delete(start="2018-01-02", worker_type="thread"); print("after delete", len(fs))
import glob; print("tmp left:", [p for p in glob.glob("/tmp/tmp*")][:3])
