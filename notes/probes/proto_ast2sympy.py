import ast, sympy as sp, time, sys
t0=time.time()
SRC={}
def load(mod, path):
    tree=ast.parse(open(path).read()); SRC[mod]={n.name:n for n in tree.body if isinstance(n, ast.FunctionDef)}
load("em","/repo/typhon/physics/em.py"); load("atm","/repo/typhon/physics/atmosphere.py"); load("scores", "/repo/typhon/retrieval/scores.py")
CONST={}
def const(name):
    alias={"c":"speed_of_light","h":"planck","k":"boltzmann","g":"earth_standard_gravity"}
    name=alias.get(name,name)
    return CONST.setdefault(name, sp.Symbol("K_"+name, positive=True))
NP1={"exp":sp.exp,"log":sp.log,"sqrt":sp.sqrt,"sin":sp.sin,"cos":sp.cos,"arcsin":sp.asin,"abs":sp.Abs,"tanh":sp.tanh,
     "deg2rad":lambda x:x*sp.pi/180,"rad2deg":lambda x:x*180/sp.pi}
class Unsupported(Exception): pass
def tr(node, env, mod):
    if isinstance(node, ast.Constant):
        if isinstance(node.value,(int,float)): return sp.Rational(str(node.value))
        raise Unsupported(ast.dump(node))
    if isinstance(node, ast.Name):
        if node.id in env: return env[node.id]
        raise Unsupported("name "+node.id)
    if isinstance(node, ast.Attribute) and isinstance(node.value, ast.Name) and node.value.id=="constants":
        return const(node.attr)
    if isinstance(node, ast.BinOp):
        l,r=tr(node.left,env,mod),tr(node.right,env,mod)
        return {ast.Add:lambda:l+r, ast.Sub:lambda:l-r, ast.Mult:lambda:l*r, ast.Div:lambda:l/r, ast.Pow:lambda:l**r}[type(node.op)]()
    if isinstance(node, ast.UnaryOp) and isinstance(node.op, ast.USub): return -tr(node.operand,env,mod)
    if isinstance(node, ast.Call):
        f=node.func
        args=[tr(a,env,mod) for a in node.args]
        if isinstance(f, ast.Attribute) and isinstance(f.value, ast.Name) and f.value.id=="np":
            if f.attr=="divide": return args[0]/args[1]
            if f.attr in NP1: return NP1[f.attr](*args)
            raise Unsupported("np."+f.attr)
        if isinstance(f, ast.Name) and f.id in SRC[mod]:
            return call(mod, f.id, *args)
        if isinstance(f, ast.Name) and f.id in env and callable(env[f.id]): return env[f.id](*args)
        raise Unsupported(ast.dump(f))
    raise Unsupported(type(node).__name__)
def call(mod, name, *args, **kw):
    fn=SRC[mod][name]
    params=[a.arg for a in fn.args.args]
    env=dict(zip(params,args)); env.update(kw)
    for st in fn.body:
        if isinstance(st, ast.Expr) and isinstance(st.value, ast.Constant): continue
        if isinstance(st, ast.Assign) and len(st.targets)==1 and isinstance(st.targets[0], ast.Name):
            env[st.targets[0].id]=tr(st.value,env,mod); continue
        if isinstance(st, ast.Return): return tr(st.value,env,mod)
        if isinstance(st, ast.If): continue   # prototype: skip guards
        raise Unsupported(type(st).__name__)
f,T,x,p,yp,yt = sp.symbols("f T x p yp yt", positive=True)
c=const("c")
Z=lambda e: sp.simplify(e)
print("wl  :", Z(call("em","planck_wavelength",c/f,T)-call("em","planck",f,T)*f**2/c))
print("wn  :", Z(call("em","planck_wavenumber",f/c,T)-c*call("em","planck",f,T)))
print("Tb  :", Z(call("em","radiance2planckTb",f,call("em","planck",f,T))-T))
print("rjTb:", Z(call("em","radiance2rayleighjeansTb",f,call("em","rayleighjeans",f,T))-T))
print("f2l2f:", Z(call("em","wavelength2frequency",call("em","frequency2wavelength",f))-f))
for a,b in [("vmr2mixing_ratio","mixing_ratio2vmr"),("vmr2specific_humidity","specific_humidity2vmr"),("mixing_ratio2specific_humidity","specific_humidity2mixing_ratio")]:
    print(a,b, sp.cancel(sp.together(call("atm",b,call("atm",a,x))-x)), sp.cancel(sp.together(call("atm",a,call("atm",b,x))-x)))
print("route:", sp.cancel(sp.together(call("atm","mixing_ratio2specific_humidity",call("atm","vmr2mixing_ratio",x))-call("atm","vmr2specific_humidity",x))))
d=sp.diff(call("atm","vmr2specific_humidity",x),x); print("deriv:", sp.factor(sp.cancel(sp.together(d))))
E=sp.Function("e_eq", positive=True)
print("rh:", Z(call("atm","vmr2relative_humidity",call("atm","relative_humidity2vmr",x,p,T,e_eq=E),p,T,e_eq=E)-x))
print(round(time.time()-t0,2),"s")
