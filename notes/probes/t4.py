import warnings; warnings.filterwarnings("ignore")
import numpy as np, xarray as xr, traceback
from typhon.collocations import Collocator, expand, collapse
lat = np.array([10., 50., 10.0]); lon = np.array([20., 60., 20.0])
p = xr.Dataset({"time": ("c", np.array(["2018-01-01T00:00:00","2018-01-01T00:05:00","2018-01-01T00:10:00"], dtype="M8[ns]")), "lat": ("c", lat), "lon": ("c", lon), "id": ("c", np.arange(3))})
s = xr.Dataset({"time": ("c", np.array(["2018-01-01T00:00:10", "2018-01-01T00:09:00"], dtype="M8[ns]")), "lat": ("c", lat[[1,0]]), "lon": ("c", lon[[1,0]]), "id": ("c", np.arange(2))})
try:
    r = Collocator().collocate(p, s, max_interval="1h", max_distance="1 km")
    print(r)
    print(expand(r))
    print(collapse(r))
except Exception as e:
    traceback.print_exc()
