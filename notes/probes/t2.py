import warnings, os, tempfile, traceback
warnings.filterwarnings("ignore")
from datetime import datetime
from typhon.files import FileSet, FileHandler
d = tempfile.mkdtemp(dir="/tmp/scratch")
fs = FileSet(os.path.join(d, "{year}/{month}/{day}/{hour}{minute}{second}-{end_hour}{end_minute}{end_second}.txt"), handler=FileHandler(reader=lambda f: open(f.path).read(), writer=lambda data, f: open(f.path, "w").write(data)))
for day in (1,2,3):
    for h in (0, 6, 12, 18):
        s = datetime(2018,1,day,h); e = datetime(2018,1,day,h+5,59,59)
        fs[s:e] = f"{day}-{h}"
print(len(fs))
for f in fs.find("2018-01-02", "2018-01-03"): print(f.path[len(d):], f.times)
print("closest:", fs.find_closest("2018-01-02 07:00"))
print(fs["2018-01-02 07:00"])
try:
    print(fs.map(lambda f: f.path[-10:], worker_type="thread"))
except Exception: traceback.print_exc()
try:
    new = fs.move(os.path.join(d, "new/{year}{doy}/{hour}{minute}{second}-{end_hour}{end_minute}{end_second}.txt"), copy=True, worker_type="thread")
    print(len(new))
except Exception: traceback.print_exc()
try:
    print(datetime(2018,1,2,7) in fs)
except Exception: traceback.print_exc()
try:
    print(list(fs.find("2018-01-02", "2018-01-03", bundle="12h")))
except Exception: traceback.print_exc()
try:
    print(fs.to_dataframe())
except Exception: traceback.print_exc()
