import warnings; warnings.filterwarnings("ignore")
import numpy as np
from typhon.trees import IntervalTree
# 1. unsorted intervals: np.sort(axis=0) loses association
iv = [[10, 20], [0, 5], [30, 40]]
t = IntervalTree(iv)
print("query [0,5] ->", t.query([[1, 4]]), "expected [[1]]")
print("query [12,13] ->", t.query([[12, 13]]), "expected [[0]]")
# 2. whole-span shortcut
t = IntervalTree([[1, 2], [3, 4]])
print("whole span ->", t.query([[0, 10]]), "expected [[0,1]]")
# 3. zero subtree
t = IntervalTree([[0, 0], [5, 6]])
print("zero ->", t.query([[0, 0]]), "expected [[0]]")
# 4. query_points recursion
try:
    t = IntervalTree([[1, 2], [3, 4], [5, 6]])
    print("points ->", t.query_points([1.5]))
except RecursionError as e:
    print("query_points RecursionError")
print(1.5 in t if False else None)
