import warnings; warnings.filterwarnings("ignore")
import numpy as np, traceback, os, lzma, tempfile
from datetime import datetime
from typhon.files import compress, decompress, is_compression_format
from typhon.files.handlers import FileInfo
print("xz known:", is_compression_format("xz"), is_compression_format(".xz"))
d = tempfile.mkdtemp(dir="/tmp/scratch")
fn = os.path.join(d, "a.txt.xz")
with compress(fn) as f:
    open(f, "wb").write(b"hello"*100)
print("raw bytes", open(fn,"rb").read()[:10])
try:
    fi = FileInfo("x", [datetime.min, datetime.max], {})
    j = fi.to_json_dict(); print(j)
    print(FileInfo.from_json_dict(j))
except Exception: traceback.print_exc()
from typhon.retrieval.scores import bias, mape
t = np.array([1., 2., 4.]); print("bias +10%:", bias(1.1*t, t), "mape:", mape(1.1*t, t))
from typhon.retrieval.bmci import BMCI
b = BMCI(np.random.rand(10,2), np.random.rand(10), np.eye(2)*1e-8)
try: print(b.predict(np.array([[100., 100.]])))
except Exception: traceback.print_exc()
from typhon.math import integrate_column
try: print(integrate_column(np.arange(5)))
except Exception as e: print("integrate_column:", repr(e))
