import warnings; warnings.filterwarnings("ignore")
import numpy as np
from typhon.geographical import GeoIndex, to_kilometers
print("1cm in km:", to_kilometers("1 cm"), "expected 1e-5")
np.random.seed(0)
lat = np.array([10., 50.]); lon = np.array([20., 60.])
gi = GeoIndex(lat, lon, shuffle=False)
print("only (0,0):", gi.query(np.array([10.]), np.array([20.]), r=1))
gi = GeoIndex(lat, lon, shuffle=False)
print("only (1,0):", gi.query(np.array([50.]), np.array([60.]), r=1))
gi = GeoIndex(lat, lon, metric="haversine", shuffle=False)
print("haversine:", gi.query(np.array([50.2]), np.array([60.]), r=100), "expected ~22 km")
from typhon.collocations import Collocator
import xarray as xr
p = xr.Dataset({"time": ("c", np.array(["2018-01-01T00:00:00","2018-01-01T05:00:00"], dtype="M8[ns]")), "lat": ("c", lat), "lon": ("c", lon)})
s = xr.Dataset({"time": ("c", np.array(["2018-01-01T00:00:10"], dtype="M8[ns]")), "lat": ("c", lat[:1]), "lon": ("c", lon[:1])})
try:
    r = Collocator().collocate(p, s, max_interval="1h", max_distance="1 km")
    print("collocate (0,0):", None if r is None else r["Collocations/pairs"].values)
except Exception as e:
    import traceback; traceback.print_exc()
p2 = xr.Dataset({"time": ("c", np.array(["2018-01-01T05:00:00","2018-01-01T00:00:00"], dtype="M8[ns]")), "lat": ("c", lat[::-1]), "lon": ("c", lon[::-1])})
try:
    r = Collocator().collocate(p2, s, max_interval="1h", max_distance="1 km")
    print("collocate (1,0):", None if r is None else r["Collocations/pairs"].values)
except Exception as e:
    import traceback; traceback.print_exc()
