import warnings; warnings.filterwarnings("ignore")
import random, traceback
from datetime import datetime, timedelta
from typhon.files import FileSet
random.seed(1)
templates = [
 "/d/{year}/{month}/{day}/{hour}{minute}{second}-{end_hour}{end_minute}{end_second}.nc",
 "/d/{year}{doy}/{hour}{minute}.{millisecond}-{end_year}{end_doy}{end_hour}{end_minute}.{end_millisecond}.x",
 "/d/{year2}{month}{day}_{hour}-{end_hour}.dat",
 "/d/{sat}/{year}-{month}-{day}T{hour}{minute}{second}_{end_year}{end_month}{end_day}{end_hour}{end_minute}{end_second}.h5",
 "/d/{year}/{doy}/f{hour}{minute}{second}.txt",
 "/d/{year2}{doy}.S{hour}{minute}.E{end_hour}{end_minute}.gz",
 "/d/x{year}{month}{day}{hour}{minute}{second}{millisecond}.bin",
 "/d/{year}/{month}/{year}{month}{day}.v1.0.nc",
]
fails = 0
for tpl in templates:
    fs = FileSet(tpl, time_coverage="1 hour" if "end_" not in tpl else None)
    res_ms = "{millisecond}" in tpl; res_s = "{second}" in tpl; res_min = "{minute}" in tpl
    for _ in range(400):
        y = random.randint(1965, 2064) if "year2" in tpl else random.randint(1000, 9990)
        s = datetime(y,1,1) + timedelta(days=random.randint(0,365), hours=random.randint(0,23))
        if res_min: s += timedelta(minutes=random.randint(0,59))
        if res_s: s += timedelta(seconds=random.randint(0,59))
        if res_ms: s += timedelta(milliseconds=random.randint(0,999))
        if s.year != y: continue
        if "end_" in tpl:
            full_end = "end_year" in tpl
            maxd = 3*86400 if full_end else (86399 if "end_minute" in tpl else 23*3600)
            e = s + timedelta(seconds=random.randint(0, maxd))
            if "end_minute" not in tpl: e = e.replace(minute=0, second=0, microsecond=0); 
            elif "end_second" not in tpl and "end_millisecond" not in tpl: e = e.replace(second=0, microsecond=0)
            if "end_millisecond" in tpl: e = e.replace(second=0, microsecond=random.randint(0,999)*1000)
            if e < s: continue
        else:
            e = s
        fill = {"sat": "NOAA18"} if "{sat}" in tpl else None
        try:
            name = fs.get_filename((s, e), fill=fill)
            info = fs.get_info(name)
            fs.reset_cache()
            exp_s = s
            ok = info.times[0] == exp_s
            if "end_" in tpl:
                # partial end semantic: compare modulo
                ok = ok and info.times[1] == e
            else:
                ok = ok and info.times[1] == (s + timedelta(hours=1))
            if fill: ok = ok and info.attr == fill
            if not ok:
                fails += 1
                if fails < 12: print("MISMATCH", tpl, s, e, name, info.times)
        except Exception as ex:
            fails += 1
            if fails < 12: print("EXC", tpl, s, e, type(ex).__name__, ex)
print("fails", fails)
