import warnings, os, tempfile, traceback
warnings.filterwarnings("ignore")
from datetime import datetime
from typhon.files import FileSet, FileHandler
d = tempfile.mkdtemp(dir="/tmp/scratch")
h = FileHandler(reader=lambda f: open(f.path).read(), writer=lambda data, f: open(f.path, "w").write(data))
pat = os.path.join(d, "{year}/{month}/{day}/{hour}{minute}{second}.txt")
fs = FileSet(pat, handler=h, time_coverage="6 hours")
for day in (1,2,3):
    for hh in (0, 6, 12, 18):
        fs[datetime(2018,1,day,hh)] = f"{day}-{hh}"
print("n =", len(fs))
ex_name = fs.get_filename(datetime(2018,1,2,6))
fs2 = FileSet(pat, handler=h, time_coverage="6 hours", exclude=[ex_name])
print("excluded by name, n =", len(fs2))
print("find_closest exact on excluded ->", fs2.find_closest(datetime(2018,1,2,6)))
try:
    fs3 = FileSet(pat, handler=h, time_coverage="6 hours", exclude=[(datetime(2018,1,2,0), datetime(2018,1,2,12))])
    print("excluded by time n =", len(fs3), [f.times[0].strftime("%d-%H") for f in fs3])
except Exception: traceback.print_exc()
try:
    fs4 = FileSet(pat, handler=h, time_coverage="6 hours", exclude=[(datetime(2018,1,2,7), datetime(2018,1,2,8))])
    print("excluded by inner time n =", len(fs4), [f.times[0].strftime("%d-%H") for f in fs4])
except Exception: traceback.print_exc()
