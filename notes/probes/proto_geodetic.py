import sympy as sp, time
t0=time.time()
a,e2,h = sp.symbols("a e2 h", positive=True)
phi,lam = sp.symbols("phi lam", real=True)
s,c = sp.sin(phi), sp.cos(phi)
N = a/sp.sqrt(1-e2*s**2)
def g2c(h):
    return sp.Matrix([(N+h)*c*sp.cos(lam), (N+h)*c*sp.sin(lam), (N*(1-e2)+h)*s])
P0 = g2c(0); P = g2c(h)
n = sp.Matrix([c*sp.cos(lam), c*sp.sin(lam), s])
print("h-offset:", sp.simplify(P-P0-h*n).T)
b2 = a**2*(1-e2)
print("on ellipsoid:", sp.simplify((P0[0]**2+P0[1]**2)/a**2 + P0[2]**2/b2 - 1))
grad = sp.Matrix([P0[0]/a**2, P0[1]/a**2, P0[2]/b2])
print("normal parallel:", sp.simplify(grad.cross(n)).T)
r_gd = a*sp.sqrt((1-e2)**2*s**2 + c**2)/sp.sqrt(1-e2*s**2)
print("radius:", sp.simplify(P0.dot(P0) - r_gd**2))
# fixed point of iteration
x,y,z = P
p = sp.sqrt(x**2+y**2)
B0 = phi
Nn = a/sp.sqrt(1-e2*sp.sin(B0)**2)
hh = p/sp.cos(B0) - Nn
Bn = sp.atan(z/p*((1-e2*Nn/(Nn+hh))**(-1)))
print("h fix:", sp.simplify(hh-h))
print("tan fix:", sp.simplify(sp.tan(Bn) - sp.tan(phi)))
print(round(time.time()-t0,2),"s")
