import warnings; warnings.filterwarnings("ignore")
import numpy as np, traceback
from typhon.retrieval.bmci import BMCI
rng = np.random.default_rng(0)
y = rng.normal(size=(50, 2)); x = rng.normal(size=50)
b = BMCI(y, x, np.eye(2))
far = np.array([[100., 100.]])
for name, f in [("predict_quantiles far x2=1", lambda: b.predict_quantiles(far, [0.1, 0.5], x2_max=1.0)),
                ("predict_quantiles far unrestricted", lambda: b.predict_quantiles(far*10, [0.1, 0.5])),
                ("cdf far x2=1", lambda: b.cdf(far[0], x2_max=1.0)),
                ("predict near x2=5", lambda: b.predict(np.array([[0., 0.]]), x2_max=5.0)),
                ("predict near full", lambda: b.predict(np.array([[0., 0.]]))),
                ("quant near", lambda: b.predict_quantiles(np.array([[0., 0.]]), [0.1, 0.5, 0.9], x2_max=5.0))]:
    try: print(name, "->", f())
    except Exception as e: print(name, "-> EXC", type(e).__name__, str(e)[:80])
