import warnings; warnings.filterwarnings("ignore")
import numpy as np, xarray as xr, traceback
from typhon.collocations import expand, collapse
from typhon.collocations.collocator import concat_collocations
from typhon.utils import add_xarray_groups
rng = np.random.default_rng(3)
def make(npri, nsec, npairs, chan=2, off=0):
    # ensure every point used at least once
    p = np.concatenate([np.arange(npri), rng.integers(0, npri, max(0, npairs-npri))])
    s = np.concatenate([rng.integers(0, nsec, len(p)-nsec) if len(p) > nsec else np.array([],int), np.arange(nsec)])[:len(p)]
    if len(s) < len(p): s = np.concatenate([s, rng.integers(0, nsec, len(p)-len(s))])
    perm = rng.permutation(len(p)); p, s = p[perm], s[perm]
    pri = xr.Dataset({"time": ("collocation", np.arange(npri).astype("M8[s]")+np.timedelta64(off,"s")), "lat": ("collocation", rng.normal(size=npri)), "lon": ("collocation", rng.normal(size=npri)), "v": ("collocation", rng.normal(size=npri)+off)})
    sd = rng.normal(size=(nsec, chan)); sd[rng.random((nsec,chan))<0.2] = np.nan
    sec = xr.Dataset({"time": ("collocation", np.arange(nsec).astype("M8[s]")), "lat": ("collocation", rng.normal(size=nsec)), "lon": ("collocation", rng.normal(size=nsec)), "bt": (("collocation","channel"), sd)})
    ds = add_xarray_groups(xr.Dataset(), A=pri, B=sec)
    meta = xr.Dataset({"pairs": (("group","collocation"), np.array([p,s])), "interval": ("collocation", np.zeros(len(p))), "distance": ("collocation", np.zeros(len(p))), "group": ("group", ["A","B"])})
    ds = add_xarray_groups(ds, Collocations=meta)
    return ds, p, s, pri, sec
bad = 0
for trial in range(30):
    npri, nsec = rng.integers(1,8), rng.integers(1,8)
    ds, p, s, pri, sec = make(npri, nsec, max(npri,nsec)+rng.integers(0,10))
    try:
        ex = expand(ds)
        ok = np.array_equal(ex["A/v"].values, pri["v"].values[p]) and np.array_equal(ex["B/bt"].values, sec["bt"].values[s], equal_nan=True)
        co = collapse(ds)
        for k in range(npri):
            vals = sec["bt"].values[s[p==k]]
            m = np.nanmean(vals, axis=0) if len(vals) else np.full(2,np.nan)
            ok = ok and np.allclose(co["B/bt_mean"].values[k], m, equal_nan=True)
            ok = ok and np.array_equal(co["B/bt_number"].values[k], np.count_nonzero(~np.isnan(vals),axis=0))
        co2 = collapse(ds, reference="B")
        for k in range(nsec):
            vals = pri["v"].values[p[s==k]]
            ok = ok and np.allclose(co2["A/v_mean"].values[k], np.nanmean(vals))
        if not ok: bad += 1; print("MISMATCH trial", trial, npri, nsec, p, s)
    except Exception as e:
        bad += 1; print("EXC", trial, type(e).__name__, str(e)[:100])
print("bad", bad)
# concat
try:
    a,pa,sa,pria,seca = make(3,4,6); b,pb,sb,prib,secb = make(2,3,5,off=100)
    c = concat_collocations([a,b])
    ex = expand(c)
    exp = np.concatenate([pria["v"].values[pa], prib["v"].values[pb]])
    print("concat ok:", np.array_equal(ex["A/v"].values, exp), "pairs after:", c["Collocations/pairs"].values.tolist())
    print("inputs mutated?", a["Collocations/pairs"].values.tolist() == np.array([pa,sa]).tolist(), b["Collocations/pairs"].values.tolist()==np.array([pb,sb]).tolist())
except Exception as e:
    traceback.print_exc()
