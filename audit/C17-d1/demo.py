"""C17 / d1: under-determined retrieval (more state elements than channels,
K of full row rank) with small measurement noise.

The gain matrix returned by typhon does not equal the measurement-space form
S_a K^T (K S_a K^T + S_y)^-1 (which is perfectly conditioned here), S is not
the inverse of (K^T S_y^-1 K + S_a^-1), and the averaging kernel gets
eigenvalues above 1.  The judge is exact rational arithmetic on the very same
float inputs.
"""
import sys, os; sys.path.insert(0, "/tmp/hunt/C17")
import warnings
from fractions import Fraction
import numpy as np
import typhon
assert typhon.__file__.startswith("/tmp/hunt/C17/"), typhon.__file__
from typhon.retrieval.oem import (error_covariance_matrix,
                                  retrieval_gain_matrix,
                                  averaging_kernel_matrix)

warnings.simplefilter("ignore")


# ---- exact oracle (independent of typhon, numpy.linalg and scipy) ----------
def frac(M):
    return [[Fraction(float(v)) for v in row] for row in np.asarray(M)]


def mul(A, B):
    Bt = list(zip(*B))
    return [[sum(a * b for a, b in zip(row, col)) for col in Bt] for row in A]


def tr(A):
    return [list(r) for r in zip(*A)]


def add(A, B):
    return [[a + b for a, b in zip(ra, rb)] for ra, rb in zip(A, B)]


def inverse(A):
    n = len(A)
    M = [list(r) + [Fraction(int(i == j)) for j in range(n)]
         for i, r in enumerate(A)]
    for c in range(n):
        p = next(r for r in range(c, n) if M[r][c] != 0)
        M[c], M[p] = M[p], M[c]
        piv = M[c][c]
        M[c] = [v / piv for v in M[c]]
        for r in range(n):
            if r != c and M[r][c] != 0:
                f = M[r][c]
                M[r] = [a - f * b for a, b in zip(M[r], M[c])]
    return [r[n:] for r in M]


def exact(K, S_a, S_y):
    """The defining identities of the property, evaluated exactly."""
    K, S_a, S_y = frac(K), frac(S_a), frac(S_y)
    Syi = inverse(S_y)
    S = inverse(add(mul(mul(tr(K), Syi), K), inverse(S_a)))
    G = mul(mul(S, tr(K)), Syi)
    A = mul(G, K)
    f = lambda M: np.array([[float(v) for v in r] for r in M])
    return f(S), f(G), f(A)


# ---- the input -------------------------------------------------------------
n, m = 10, 4                       # under-determined: 10 unknowns, 4 channels
rng = np.random.default_rng(17)
K = rng.normal(size=(m, n))        # full row rank, cond(K) ~ 3
S_a = np.eye(n)                    # prior variance 1, cond = 1
TOL = 1e-9                         # generous: all inputs have cond < 10

bad = []
print("cond(K) = %.2f, cond(S_a) = cond(S_y) = 1" % np.linalg.cond(K))
print("%8s | %10s %10s %10s | %10s | %12s %12s" % (
    "sigma_y", "err S", "relerr G", "err A", "G vs m-form",
    "max eig(A)-1", "min eig(Sa-S)"))
for sigma in [1e-4, 1e-5, 1e-6, 1e-7]:
    S_y = sigma**2 * np.eye(m)
    S = error_covariance_matrix(K, S_a, S_y)
    G = retrieval_gain_matrix(K, S_a, S_y)
    A = averaging_kernel_matrix(K, S_a, S_y)
    S_x, G_x, A_x = exact(K, S_a, S_y)

    # m-form of the gain, float arithmetic (well conditioned here)
    G_m = S_a @ K.T @ np.linalg.inv(K @ S_a @ K.T + S_y)
    assert np.abs(G_m - G_x).max() / np.abs(G_x).max() < 1e-11  # oracle check

    eS = np.abs(S - S_x).max()                 # prior variance is 1
    eG = np.abs(G - G_x).max() / np.abs(G_x).max()
    eA = np.abs(A - A_x).max()
    eGm = np.abs(G - G_m).max() / np.abs(G_m).max()
    eig_hi = np.linalg.eigvals(A).real.max() - 1
    eig_lo = np.linalg.eigvalsh(S_a - (S + S.T) / 2).min()
    print("%8.0e | %10.2e %10.2e %10.2e | %10.2e | %12.2e %12.2e" % (
        sigma, eS, eG, eA, eGm, eig_hi, eig_lo))
    if max(eS, eG, eA, eGm) > TOL:
        bad.append("sigma_y=%g: S/G/A differ from the exact defining "
                   "identities by %.1e (tolerance %.0e)"
                   % (sigma, max(eS, eG, eA, eGm), TOL))
    if eig_hi > TOL:
        bad.append("sigma_y=%g: averaging kernel has an eigenvalue "
                   "1 + %.1e (must be < 1)" % (sigma, eig_hi))
    if eig_lo < -TOL:
        bad.append("sigma_y=%g: S is larger than S_a (min eig of S_a - S "
                   "= %.1e)" % (sigma, eig_lo))

print()
print("expected: every error column <= %.0e, eig(A) in [0, 1), S <= S_a" % TOL)
if bad:
    print("observed: VIOLATIONS")
    for b in bad:
        print("  -", b)
    sys.exit(1)
print("observed: all identities hold")
sys.exit(0)
