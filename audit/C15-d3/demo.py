"""C15 / d3: a cache file given as pathlib.Path is accepted by the constructor
and by load_cache(), but save_cache() raises TypeError (Path + ".backup"), so
save -> load cannot restore anything and the save registered with atexit fails
at interpreter exit: the cache is never persisted across restarts."""
import sys, os; sys.path.insert(0, "/tmp/hunt/C15")
import warnings; warnings.simplefilter("ignore", SyntaxWarning)
import typhon; assert typhon.__file__.startswith("/tmp/hunt/C15/"), typhon.__file__
import atexit, shutil, subprocess, tempfile
from pathlib import Path
from typhon.files import FileSet

tmp = tempfile.mkdtemp(prefix="tmp_", dir=os.path.dirname(os.path.abspath(__file__)))
failures = []
try:
    data = os.path.join(tmp, "data"); os.makedirs(data)
    for name in ("A-2018010100.txt", "B-2018010112.txt"):
        open(os.path.join(data, name), "w").write("x")
    template = os.path.join(data, "{sat}-{year}{month}{day}{hour}.txt")
    cache = Path(tmp) / "cache.json"

    # 1. save_cache() followed by load_cache() in one interpreter
    fs = FileSet(template, info_cache=cache)     # accepted (load_cache works)
    ref = [(f.path, f.times, f.attr) for f in fs.find()]
    try:
        fs.save_cache(cache)
    except Exception as e:
        print(f"save_cache(Path) raised {e!r}")
        failures.append(f"save_cache(Path) raised {type(e).__name__}")
    fs2 = FileSet(template)
    fs2.load_cache(cache)                        # accepts a Path
    got = sorted((i.path, i.times, i.attr) for i in fs2.info_cache.values())
    print("cached after save -> load:", len(got), "of", len(ref))
    if got != sorted(ref):
        failures.append("save_cache(Path) + load_cache(Path) restored "
                        f"{len(got)} of {len(ref)} FileInfo objects")
    atexit._clear()
    if cache.exists():
        cache.unlink()

    # 2. across an interpreter restart (save registered with atexit)
    child = (
        "import sys; sys.path.insert(0, '/tmp/hunt/C15')\n"
        "import warnings; warnings.simplefilter('ignore')\n"
        "from pathlib import Path\n"
        "from typhon.files import FileSet\n"
        f"fs = FileSet({template!r}, info_cache=Path({str(cache)!r}))\n"
        "n = len(fs.info_cache); list(fs.find()); print(n)\n"
    )
    runs = [subprocess.run([sys.executable, "-W", "ignore", "-c", child],
                           capture_output=True, text=True) for _ in range(2)]
    for i, r in enumerate(runs):
        print(f"run {i+1}: cached entries at start = {r.stdout.strip()!r}; "
              f"stderr tail: {r.stderr.strip().splitlines()[-1:] }")
    if runs[1].stdout.strip() != "2":
        failures.append("second interpreter run started with "
                        f"{runs[1].stdout.strip()} cached entries instead of 2")
finally:
    atexit._clear()
    shutil.rmtree(tmp, ignore_errors=True)

print()
if failures:
    print("OBSERVED (defect):"); [print("  -", x) for x in failures]
    print("EXPECTED: save_cache accepts the same file argument as the "
          "constructor / load_cache and the cache survives the restart")
    sys.exit(1)
print("OK: a pathlib.Path cache file is saved and restored")
