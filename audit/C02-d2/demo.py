"""C02 / d2: a day-of-year that does not exist in the year is mis-parsed.

'2017366' (2017 has 365 days), '2017000' and '2017999' match the regex of
{year}{doy}; instead of being rejected with a ValueError (as month 13 or
February 30 are) they are silently mapped onto another day of 2017.
"""
import sys, os
sys.path.insert(0, "/tmp/hunt/C02")
import warnings
warnings.simplefilter("ignore")
import typhon
assert typhon.__file__.startswith("/tmp/hunt/C02/"), typhon.__file__
from datetime import datetime
from typhon.files import FileSet

bad = 0


def check(template, name, expected):
    """expected: a (start, end) tuple or ValueError"""
    global bad
    fileset = FileSet(template)
    try:
        observed = tuple(fileset.get_info(name).times)
    except ValueError as err:
        observed = ValueError
        detail = f"ValueError: {err}"
    except Exception as err:  # noqa
        observed = type(err)
        detail = f"{type(err).__name__}: {err}"
    else:
        detail = str(observed)
    ok = observed == expected
    bad += not ok
    print(f"{'ok  ' if ok else 'FAIL'} {name!r} with {template!r}\n"
          f"     expected {'ValueError' if expected is ValueError else expected}"
          f"\n     observed {detail}")


D = datetime
# valid names (must keep working)
check("/d/{year}{doy}.nc", "/d/2016366.nc", (D(2016, 12, 31), D(2016, 12, 31)))
check("/d/{year}{doy}.nc", "/d/2017365.nc", (D(2017, 12, 31), D(2017, 12, 31)))
check("/d/{year}{doy}.nc", "/d/2017001.nc", (D(2017, 1, 1), D(2017, 1, 1)))
# the analogous month/day errors are rejected:
check("/d/{year}{month}{day}.nc", "/d/20170230.nc", ValueError)
# names that are no dates:
check("/d/{year}{doy}.nc", "/d/2017366.nc", ValueError)   # observed 2017-01-01
check("/d/{year}{doy}.nc", "/d/2017000.nc", ValueError)   # observed 2017-12-31
check("/d/{year}{doy}.nc", "/d/2017999.nc", ValueError)   # observed 2017-09-26
check("/d/{year2}{doy}_{hour}.nc", "/d/99366_12.nc", ValueError)
check("/d/{year}{doy}-{end_year}{end_doy}.nc", "/d/2016366-2017366.nc",
      ValueError)                                          # observed end 2017-01-01

if bad:
    print(f"\n{bad} names with an impossible day of year were mis-parsed "
          f"instead of rejected")
    sys.exit(1)
print("\nall fine")
sys.exit(0)
