"""C07 / d4: tunnel_distance only works for equally long 1-d arrays: 2-d arrays silently give
wrong distances (all columns are summed into one number per row), and a scalar latitude combined
with an array of longitudes raises ValueError - so chord = 2 R sin(arc / 2) is violated."""
import sys, os; sys.path.insert(0, "/tmp/hunt/C07")
import warnings; warnings.simplefilter("ignore")
import numpy as np
import typhon
assert typhon.__file__.startswith("/tmp/hunt/C07/"), typhon.__file__
from typhon import geodesy as g
from typhon import constants

R = constants.earth_radius
LD = np.longdouble
PI = LD(3.141592653589793) + LD(1.2246467991473532e-16)


def oracle_chord(lat1, lon1, lat2, lon2):
    """3-d chord between two points of the sphere, extended precision, broadcasting."""
    def xyz(lat, lon):
        la, lo = np.asarray(lat, LD) * PI / 180, np.asarray(lon, LD) * PI / 180
        return np.cos(la) * np.cos(lo), np.cos(la) * np.sin(lo), np.sin(la)
    a, b = xyz(lat1, lon1), xyz(lat2, lon2)
    return np.asarray(LD(R) * np.sqrt(sum((u - v)**2 for u, v in zip(a, b))), float)


rng = np.random.default_rng(11)
A = lambda *s: rng.uniform(-88, 88, s)
O = lambda *s: rng.uniform(-180, 180, s)
cases = [
    ("1-d arrays, equal length (control)", (A(4), O(4), A(4), O(4))),
    ("all scalars (control)", (10.0, 20.0, -30.0, 170.0)),
    ("2-d arrays (2, 3)", (A(2, 3), O(2, 3), A(2, 3), O(2, 3))),
    ("scalar lat, 1-d lon (points on one parallel)", (45.0, O(4), -10.0, O(4))),
    ("1-d lat, scalar lon (points on one meridian)", (A(4), 180.0, A(4), -180.0)),
    ("one point against a 2-d field", (10.0, 20.0, A(3, 2), O(3, 2))),
    ("(3, 1) against (4,) - distance matrix", (A(3, 1), O(3, 1), A(4), O(4))),
]
bad = 0
for label, args in cases:
    expected = oracle_chord(*args)
    arc = np.deg2rad(g.great_circle_distance(*args))
    assert np.allclose(2 * R * np.sin(arc / 2), expected, atol=1e-3, rtol=0)   # oracle sanity
    try:
        got = np.asarray(g.tunnel_distance(*args))
    except Exception as exc:
        print("FAIL %-45s observed %s: %s ; expected distances of shape %s" % (
            label, type(exc).__name__, str(exc)[:70], expected.shape))
        bad += 1
        continue
    # a scalar result may come back as shape () or (1,); everything else must have the broadcast shape
    shape_ok = got.shape == expected.shape or (expected.shape == () and got.shape == (1,))
    val_ok = shape_ok and np.allclose(got.reshape(expected.shape), expected, atol=1e-3, rtol=0)
    sym = np.asarray(g.tunnel_distance(args[2], args[3], args[0], args[1]))
    sym_ok = sym.shape == got.shape and np.array_equal(sym, got)
    ok = shape_ok and val_ok and sym_ok
    print("%s %-45s shape %s (expected %s)%s" % (
        "ok  " if ok else "FAIL", label, got.shape, expected.shape,
        "" if ok else "; observed %s, expected %s" % (np.round(got.ravel()[:3], 1), np.round(expected.ravel()[:3], 1))))
    bad += not ok

print("violations:", bad)
sys.exit(1 if bad else 0)
