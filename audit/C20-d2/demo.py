"""C20 / d2: with numpy float32 scalars as rectangle corners (e.g. taken from a
float32 lat/lon variable) the native grid / elevation block sticks out of the
rectangle by one whole cell (an extra row north and an extra column west)."""
import sys, os; sys.path.insert(0, "/tmp/hunt/C20")
import warnings; warnings.simplefilter("ignore")
import typhon; assert typhon.__file__.startswith("/tmp/hunt/C20/")
import numpy as np
from typhon.topography import SRTM30

def synth(name):
    lat_min, lon_min, lat_max, lon_max = SRTM30.get_bounds(name)
    r0 = (90 - lat_max) * 120; c0 = (lon_min + 180) * 120
    rows = np.arange(r0, r0 + 6000, dtype=np.int64).reshape(-1, 1)
    cols = np.arange(c0, c0 + 4800, dtype=np.int64).reshape(1, -1)
    return rows * 43200 + cols + 1
SRTM30.get_tile = staticmethod(synth)          # no network, no cache

d = 1 / 120
fail = False
f = np.float32
for rect64 in [(10.0, 10.0, 11.0, 11.0), (39.5, 19.5, 40.5, 20.5), (-10.125, -140.25, -9.875, -139.75)]:
    rect32 = tuple(f(x) for x in rect64)
    assert all(float(a) == b for a, b in zip(rect32, rect64))      # the very same numbers
    la64, lo64, z64 = SRTM30.elevation(*rect64)
    la32, lo32, z32 = SRTM30.elevation(*rect32)
    north = la32.max() + d / 2 - rect64[2]; south = rect64[0] - (la32.min() - d / 2)
    west = rect64[1] - (lo32.min() - d / 2); east = lo32.max() + d / 2 - rect64[3]
    print("rectangle", rect64)
    print("   python floats : block %s, lat %.6f..%.6f, lon %.6f..%.6f" % (z64.shape, la64[0], la64[-1], lo64[0], lo64[-1]))
    print("   np.float32    : block %s, lat %.6f..%.6f, lon %.6f..%.6f" % (z32.shape, la32[0], la32[-1], lo32[0], lo32[-1]))
    print("   float32 block extends beyond the rectangle by N %.4f S %.4f W %.4f E %.4f cells (expected: each < 1)"
          % (north / d, south / d, west / d, east / d))
    ok = max(north, south, west, east) < d * (1 - 1e-6) and min(north, south, west, east) > -1e-9 \
        and z32.shape == z64.shape and np.array_equal(z32, z64)
    if not ok:
        fail = True
if fail:
    print("FAIL: the same rectangle given as float32 scalars yields a block that extends a whole cell beyond it")
    sys.exit(1)
print("OK")
