"""C01 / d1: FileSet.find(only_path=True) ignores the option and yields
FileInfo objects instead of the paths (single files and bundles)."""
import sys, os; sys.path.insert(0, "/tmp/hunt/C01")
import warnings; warnings.filterwarnings("ignore")
import typhon
assert typhon.__file__.startswith("/tmp/hunt/C01/"), typhon.__file__
import tempfile, shutil
from typhon.files import FileSet

root = tempfile.mkdtemp(prefix="tmp_", dir=os.path.dirname(os.path.abspath(__file__)))
fail = False
try:
    names = ["20180101_00.nc", "20180101_12.nc", "20180102_00.nc"]
    for n in names:
        open(os.path.join(root, n), "w").close()
    expected = [os.path.join(root, n).replace(os.sep, "/") for n in names]
    fs = FileSet(os.path.join(root, "{year}{month}{day}_{hour}.nc"))

    got = list(fs.find("2018-01-01", "2018-01-03", only_path=True))
    print("find(only_path=True) yielded types:", [type(g).__name__ for g in got])
    print("expected                          :", ["str"] * len(expected))
    if not all(isinstance(g, str) for g in got) or got != expected:
        print("VIOLATION: only_path=True does not yield the plain paths")
        fail = True

    got_b = list(fs.find("2018-01-01", "2018-01-03", only_path=True, bundle=2))
    print("find(only_path=True, bundle=2) ->",
          [[type(g).__name__ for g in b] for b in got_b])
    exp_b = [expected[:2], expected[2:]]
    if got_b != exp_b or not all(isinstance(g, str) for b in got_b for g in b):
        print("VIOLATION: bundles do not consist of plain paths; expected", exp_b)
        fail = True

    got_t = list(fs.find("2018-01-01", "2018-01-03", only_path=True, bundle="1D"))
    if got_t != exp_b or not all(isinstance(g, str) for b in got_t for g in b):
        print("VIOLATION: time bundles do not consist of plain paths")
        fail = True

    # the default must stay FileInfo objects in the same order
    got_d = [f.path for f in fs.find("2018-01-01", "2018-01-03")]
    if got_d != expected:
        print("VIOLATION: default find() changed:", got_d)
        fail = True
finally:
    shutil.rmtree(root, ignore_errors=True)
print("FAIL" if fail else "OK")
sys.exit(1 if fail else 0)
