"""C18 d1: x2_max = 0 drops database entries whose chi-square is exactly 0.

A non-negative x2_max may only leave out entries whose chi-square EXCEEDS
x2_max.  With x2_max = 0 an observation identical to a database entry has
chi-square 0 for that entry (and for its duplicates), so the entry must stay
and the estimate must be its x (weighted mean of the exact matches), not NaN.
"""
import sys, os; sys.path.insert(0, "/tmp/hunt/C18")
import warnings
import numpy as np
import typhon
assert typhon.__file__.startswith("/tmp/hunt/C18/"), typhon.__file__
from typhon.retrieval.bmci import BMCI

warnings.simplefilter("ignore")
failures = []


def check(name, got, expected):
    got = np.asarray(got, dtype=float).ravel()
    expected = np.asarray(expected, dtype=float).ravel()
    ok = got.shape == expected.shape and np.allclose(got, expected, rtol=0, atol=1e-12)
    print("%-58s observed %-22s expected %-18s %s"
          % (name, got, expected, "ok" if ok else "VIOLATION"))
    if not ok:
        failures.append(name)


# --- 1 channel: every projection is exact in floating point ---------------
y = np.array([[250.0], [251.5], [253.0], [251.5], [260.0]])
x = np.array([1.0, 2.0, 3.0, 4.0, 5.0])
s = np.array([[4.0]])
b = BMCI(y, x, s)

# observation == entry 2 (unique): chi2 = 0 <= x2_max = 0 -> must be kept
obs = np.array([[253.0]])
m, sd = b.predict(obs, x2_max=0.0)
check("1 ch, obs == entry #2, predict mean", m, [3.0])
check("1 ch, obs == entry #2, predict std", sd, [0.0])
q = b.predict_quantiles(obs, [0.0, 0.5, 1.0], x2_max=0.0)
check("1 ch, obs == entry #2, quantiles", q, [3.0, 3.0, 3.0])
xs, F = b.cdf(obs[0], x2_max=0.0)
check("1 ch, obs == entry #2, cdf xs", xs, [3.0])
check("1 ch, obs == entry #2, cdf F", F, [1.0])

# observation == the duplicated entries 1 and 3: both have chi2 = 0, weight 1
obs = np.array([[251.5]])
m, sd = b.predict(obs, x2_max=0.0)
check("1 ch, obs == duplicated entries #1,#3, predict mean", m, [3.0])
check("1 ch, obs == duplicated entries #1,#3, predict std", sd, [1.0])

# the unrestricted result for reference (the match dominates but is not alone)
m_all, _ = b.predict(np.array([[253.0]]))
print("   (unrestricted mean for obs 253.0: %r)" % m_all[0])

# --- 3 channels, diagonal covariance (principal axis = a coordinate axis,
#     so the projections are exact as well) ---------------------------------
rng = np.random.default_rng(5)
y3 = np.round(rng.normal(size=(50, 3)) * 4.0 + 250.0, 1)
x3 = rng.normal(size=50)
s3 = np.diag([9.0, 0.25, 4.0])
b3 = BMCI(y3, x3, s3)
for j in (0, 17, 49):
    # the window is only a necessary condition, other entries with the same
    # projection may be kept too; what is required is that the exact matches
    # (chi-square 0) are inside the window and the estimate is a number
    i_l, i_u, ws = b3.weights(y3[j], 0.0)
    n_match_all = int(np.all(b3.y == y3[j], axis=1).sum())
    n_match_win = int(np.all(b3.y[i_l:i_u] == y3[j], axis=1).sum())
    check("3 ch diag, obs == entry #%d, exact matches kept" % j,
          [n_match_win], [n_match_all])
    m, _ = b3.predict(y3[j:j + 1], x2_max=0.0)
    check("3 ch diag, obs == entry #%d, predict is finite" % j,
          [float(np.isfinite(m[0]))], [1.0])

if failures:
    print("\nDEFECT: with x2_max = 0 entries with chi-square 0 (<= x2_max) are "
          "left out of the window; %d checks violated" % len(failures))
    sys.exit(1)
print("\nall checks passed")
sys.exit(0)
