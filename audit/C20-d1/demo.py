"""C20 / d1: SRTM30.elevation fetches (downloads) a tile that does not intersect
the requested rectangle when the rectangle touches a tile border exactly."""
import sys, os; sys.path.insert(0, "/tmp/hunt/C20")
import warnings; warnings.simplefilter("ignore")
import tempfile, shutil
tmp = tempfile.mkdtemp(prefix="d1_", dir="/tmp/hunt/C20/out")
os.environ["TYPHON_DATA_PATH"] = tmp
import typhon; assert typhon.__file__.startswith("/tmp/hunt/C20/")
import numpy as np
import typhon.topography as tp
from typhon.topography import SRTM30

downloads = []
def synth(name):
    lat_min, lon_min, lat_max, lon_max = SRTM30.get_bounds(name)
    r0 = (90 - lat_max) * 120; c0 = (lon_min + 180) * 120
    rows = np.arange(r0, r0 + 6000).reshape(-1, 1); cols = np.arange(c0, c0 + 4800).reshape(1, -1)
    return ((rows * 7 + cols * 3) % 30000 + 1).astype(">i2")     # depends on the global pixel index
def fake_download(name):                      # stands in for the 57 MB network download
    downloads.append(name)
    synth(name).tofile(os.path.join(tp._get_data_path(), (name + ".dem").upper()))
SRTM30.download_tile = staticmethod(fake_download)

fail = False
try:
    # warm cache: the only tile that intersects the rectangles below
    fake_download("w020n40"); downloads.clear()
    cases = [((-10, 10, -9, 11), "touches the southern border (10 S) of w020n40 from inside"),
             ((39, 19, 40, 20), "touches the NE corner (40 N, 20 E) of w020n40 from inside"),
             ((-10, -20, -9.875, -19.875), "touches the SW corner (10 S, 20 W) of w020n40 from inside")]
    for rect, what in cases:
        assert SRTM30.get_tiles(*rect) == ["w020n40"], SRTM30.get_tiles(*rect)
        downloads.clear()
        for f in os.listdir(tp._get_data_path()):          # cache holds exactly the needed tile
            if f != "W020N40.DEM": os.remove(os.path.join(tp._get_data_path(), f))
        lats, lons, z = SRTM30.elevation(*rect)
        r = np.round((90 - lats) * 120 - 0.5).astype(int).reshape(-1, 1)
        c = np.round((lons + 180) * 120 - 0.5).astype(int).reshape(1, -1)
        values_ok = np.array_equal(z, (r * 7 + c * 3) % 30000 + 1)
        print("rectangle %s (%s)" % (rect, what))
        print("   get_tiles(rect)                = ['w020n40']  (already cached)")
        print("   tiles downloaded by elevation  = %s   expected: []" % downloads)
        print("   block edges lat [%.15g, %.15g] lon [%.15g, %.15g]; values correct: %s"
              % (lats.min() - 1/240, lats.max() + 1/240, lons.min() - 1/240, lons.max() + 1/240, values_ok))
        if downloads or not values_ok:
            fail = True
finally:
    shutil.rmtree(tmp, ignore_errors=True)
if fail:
    print("FAIL: elevation downloaded tiles whose area does not intersect the rectangle (cache was warm for all needed tiles)")
    sys.exit(1)
print("OK")
