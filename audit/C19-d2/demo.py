import sys, os; sys.path.insert(0, "/tmp/hunt/C19")
import numpy as np, typhon
assert typhon.__file__.startswith("/tmp/hunt/C19/")
from typhon.retrieval.scores import bias, mape

rng = np.random.default_rng(2)
n, p = 40, 5.0
truth = rng.uniform(0.5, 5.0, n) * rng.choice([-1.0, 1.0], n)   # non-zero truth
fails = 0

def check(name, pred, test, expected):
    global fails
    try:
        got = bias(pred, test)
        ok = np.ndim(got) == 0 and abs(got - expected) < 1e-9
        print("%-42s observed %-22r expected %r  %s" % (name, got, expected, "ok" if ok else "VIOLATION"))
    except Exception as e:
        ok = False
        print("%-42s observed %s: %s; expected %r  VIOLATION" % (name, type(e).__name__, e, expected))
    fails += not ok

col = truth.reshape(n, 1)
# same shapes: fine
check("perfect, (n,) vs (n,)", truth.copy(), truth, 0.0)
check("perfect, (n,1) vs (n,1)", col.copy(), col, 0.0)
# the combination that mape() in the same module explicitly supports (y_pred.ravel()):
check("perfect, y_pred (n,1) y_test (n,)", col.copy(), truth, 0.0)
check("+5%, y_pred (n,1) y_test (n,)", col * (1 + p / 100), truth, +p)
check("-5%, y_pred (n,1) y_test (n,)", col * (1 - p / 100), truth, -p)
check("perfect, y_pred (n,) y_test (n,1)", truth.copy(), col, 0.0)
check("+5%, y_pred (n,) y_test (n,1)", truth * (1 + p / 100), col, +p)
print("violations:", fails)
sys.exit(1 if fails else 0)
