r"""C02 / d4: a repeated user placeholder whose regex is a value list (or any
regex with a top-level '|') breaks the regex of the whole path.

Only the first occurrence of a repeated placeholder is a (named) group; the
other occurrences are replaced by the bare regex.  For a value list that is
'noaa18|metopa' WITHOUT parentheses, so the alternation splits the whole
path regex in two halves:

    ^/data/(?P<sat>noaa18|metopa)/(?P<year>...)..._noaa18|metopa\.nc$

=> generated names are rejected, and names with trailing garbage are accepted.
"""
import sys, os
sys.path.insert(0, "/tmp/hunt/C02")
import warnings
warnings.simplefilter("ignore")
import typhon
assert typhon.__file__.startswith("/tmp/hunt/C02/"), typhon.__file__
from datetime import datetime
from typhon.files import FileSet

bad = 0
template = "/data/{sat}/{year}{month}{day}_{sat}.nc"
start = datetime(2017, 1, 1)

for placeholder in [{"sat": ["noaa18", "metopa"]}, {"sat": "noaa18|metopa"},
                    {"sat": r"noaa\d\d|metop[abc]"}]:
    fileset = FileSet(template, placeholder=placeholder)
    print(f"placeholder {placeholder}\n  regex {fileset._filled_path}")
    for sat in ["noaa18", "metopa"]:
        name = fileset.get_filename(start, fill={"sat": sat})
        expected = (start, {"sat": sat})
        try:
            info = fileset.get_info(name)
            observed = (info.times[0], info.attr)
        except Exception as err:  # noqa
            observed = f"{type(err).__name__}: {err}"
        ok = observed == expected
        bad += not ok
        print(f"  {'ok  ' if ok else 'FAIL'} {name}: expected {expected}, "
              f"observed {observed}")

    # A name that does not match the template must be rejected:
    wrong = "/data/noaa18/20170101_noaa18.nc.part-THIS-IS-NOT-THE-TEMPLATE"
    try:
        info = fileset.get_info(wrong)
        observed = f"accepted, times {info.times[0]}, attr {info.attr}"
        ok = False
    except ValueError as err:
        observed = "ValueError"
        ok = True
    bad += not ok
    print(f"  {'ok  ' if ok else 'FAIL'} {wrong}: expected ValueError, "
          f"observed {observed}")

if bad:
    print(f"\n{bad} checks failed")
    sys.exit(1)
print("\nall fine")
sys.exit(0)
