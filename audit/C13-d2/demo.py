"""C13 / d2: a compact collocation dataset that went through the Collocations
file set (write + read, as Collocations.search / Collocations.read do) comes
back with a float Collocations/pairs; expand() and collapse() (the default
read_mode!) then raise instead of returning the expanded / collapsed data."""
import sys, os; sys.path.insert(0, "/tmp/hunt/C13")
import warnings; warnings.simplefilter("ignore")
import shutil, tempfile
import numpy as np, xarray as xr
import typhon
assert typhon.__file__.startswith("/tmp/hunt/C13/"), typhon.__file__
from typhon.collocations import Collocations, expand, collapse

rng = np.random.default_rng(0)
pairs = np.array([[0, 0, 1, 2, 2, 2], [0, 1, 1, 2, 3, 0]])
ds = xr.Dataset()
for g, n in (("primary", 3), ("secondary", 4)):
    ds[f"{g}/time"] = (f"{g}/collocation", np.datetime64("2020-01-01", "ns")
                       + np.arange(n).astype("timedelta64[s]"))
    ds[f"{g}/lat"] = (f"{g}/collocation", rng.uniform(-90, 90, n))
    ds[f"{g}/lon"] = (f"{g}/collocation", rng.uniform(-180, 180, n))
    ds[f"{g}/bt"] = ((f"{g}/collocation", f"{g}/channel"),
                     rng.normal(size=(n, 3)))
ds["Collocations/pairs"] = (
    ("Collocations/group", "Collocations/collocation"), pairs)
ds["Collocations/interval"] = ("Collocations/collocation", np.zeros(6))
ds["Collocations/distance"] = ("Collocations/collocation", np.zeros(6))
ds["Collocations/group"] = ("Collocations/group", ["primary", "secondary"])
ds.attrs = {"start_time": "2020-01-01 00:00:00",
            "end_time": "2020-01-01 00:00:02"}

ref_expand, ref_collapse = expand(ds), collapse(ds)

tmp = tempfile.mkdtemp(dir="/tmp/hunt/C13/out")
failed = []
try:
    path = os.path.join(tmp, "{year}{month}{day}_{hour}{minute}{second}.nc")
    fn = os.path.join(tmp, "20200101_000000.nc")
    Collocations(path=path).write(ds, fn)

    compact = Collocations(path=path, read_mode="compact").read(fn)
    dtype = compact["Collocations/pairs"].dtype
    print("Collocations/pairs after write+read:", dtype, "(written: int64)")
    if dtype.kind not in "iu":
        failed.append("pairs are no integer indices any more")

    for mode, ref, var in ((None, ref_collapse, "secondary/bt_mean"),
                           ("collapse", ref_collapse, "secondary/bt_mean"),
                           ("expand", ref_expand, "secondary/bt")):
        try:
            got = Collocations(path=path, read_mode=mode).read(fn)
        except Exception as exc:
            print(f"OBSERVED read_mode={mode!r}: {type(exc).__name__}: "
                  f"{str(exc)[:100]}")
            print(f"EXPECTED read_mode={mode!r}: the same data as "
                  f"{'expand' if mode == 'expand' else 'collapse'}() of the "
                  "dataset that was written")
            failed.append(mode)
            continue
        if not np.allclose(got[var].values, ref[var].values):
            print(f"read_mode={mode!r}: {var} differs from the in-memory "
                  "result")
            failed.append(mode)
        else:
            print(f"read_mode={mode!r}: ok")
finally:
    shutil.rmtree(tmp)

sys.exit(1 if failed else 0)
