"""C01 / d4: the end of the time coverage of files that cross a month or a
year end is wrong when the name gives the end without its month / year:
the end is moved by a fixed 31 (366) days instead of one calendar month (year),
so find() yields such files for periods after their true end."""
import sys, os; sys.path.insert(0, "/tmp/hunt/C01")
import warnings; warnings.filterwarnings("ignore")
import typhon
assert typhon.__file__.startswith("/tmp/hunt/C01/"), typhon.__file__
import tempfile, shutil
from datetime import datetime
from typhon.files import FileSet

root = tempfile.mkdtemp(prefix="tmp_", dir=os.path.dirname(os.path.abspath(__file__)))
fail = False

def check(template, population, queries):
    """population: {relative name: (t0, t1)} (the truth the names encode)"""
    global fail
    base = tempfile.mkdtemp(dir=root)
    for name in population:
        path = os.path.join(base, name)
        os.makedirs(os.path.dirname(path), exist_ok=True)
        open(path, "w").close()
    fs = FileSet(os.path.join(base, template))
    for f in fs.find():
        name = os.path.relpath(f.path, base)
        truth = population[name]
        ok = tuple(f.times) == truth
        print(f"  {name}: coverage observed {f.times[0]} - {f.times[1]}, "
              f"expected {truth[0]} - {truth[1]}{'' if ok else '   <-- VIOLATION'}")
        fail |= not ok
    for start, end in queries:
        s, e = datetime.fromisoformat(start), datetime.fromisoformat(end)
        expected = sorted(n for n, (t0, t1) in population.items()
                          if t0 < e and t1 >= s)
        got = sorted(os.path.relpath(f.path, base)
                     for f in fs.find(start, end, no_files_error=False))
        ok = got == expected
        print(f"  find({start}, {end}): observed {got}, expected {expected}"
              f"{'' if ok else '   <-- VIOLATION'}")
        fail |= not ok
        if ((s in fs) != any(t0 <= s <= t1 for t0, t1 in population.values())):
            print(f"  `{start} in fileset` disagrees   <-- VIOLATION")
            fail = True

try:
    print("end given by day and hour, files crossing a month end:")
    check(
        "{year}/{month}/{year}{month}{day}_{hour}-{end_day}_{end_hour}.nc",
        {
            "2018/01/20180130_00-02_00.nc": (datetime(2018, 1, 30), datetime(2018, 2, 2)),
            "2018/02/20180227_00-02_00.nc": (datetime(2018, 2, 27), datetime(2018, 3, 2)),
            "2018/04/20180429_00-02_00.nc": (datetime(2018, 4, 29), datetime(2018, 5, 2)),
            "2020/02/20200228_00-01_12.nc": (datetime(2020, 2, 28), datetime(2020, 3, 1, 12)),
        },
        [("2018-03-03", "2018-03-04"), ("2018-05-02 12:00", "2018-05-03"),
         ("2018-03-01", "2018-03-02"), ("2020-03-02", "2020-03-03")],
    )
    print("end given by month and day, files crossing a year end:")
    check(
        "{year}/{year}{month}{day}-{end_month}{end_day}.nc",
        {
            "2018/20181220-0110.nc": (datetime(2018, 12, 20), datetime(2019, 1, 10)),
            "2019/20191220-0110.nc": (datetime(2019, 12, 20), datetime(2020, 1, 10)),
            "2020/20201220-0110.nc": (datetime(2020, 12, 20), datetime(2021, 1, 10)),
        },
        [("2019-01-10 12:00", "2019-01-12"), ("2020-01-10 12:00", "2020-01-12"),
         ("2021-01-10", "2021-01-12")],
    )
finally:
    shutil.rmtree(root, ignore_errors=True)
print("FAIL" if fail else "OK")
sys.exit(1 if fail else 0)
