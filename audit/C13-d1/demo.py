"""C13 / d1: Collocator.collocate raises for gridded (multi-dimensional lat/lon)
input while compacting the found pairs, so no compact collocation result (and
hence no expand / collapse) can be obtained for swath-like data."""
import sys, os; sys.path.insert(0, "/tmp/hunt/C13")
import warnings; warnings.simplefilter("ignore")
import numpy as np, xarray as xr
import typhon
assert typhon.__file__.startswith("/tmp/hunt/C13/"), typhon.__file__
from typhon.collocations import Collocator, expand, collapse


def swath(nl, npos, seed):
    rng = np.random.default_rng(seed)
    t = np.datetime64("2020-01-01T00:00:00", "ns") \
        + (np.arange(nl) * 60).astype("timedelta64[s]")
    return xr.Dataset({
        "time": ("scnline", t),
        "lat": (("scnline", "scnpos"), rng.uniform(0, .5, (nl, npos))),
        "lon": (("scnline", "scnpos"), rng.uniform(0, .5, (nl, npos))),
        "bt": (("scnline", "scnpos", "channel"),
               rng.normal(size=(nl, npos, 3))),
    })


primary, secondary = swath(5, 4, 0), swath(6, 3, 1)
try:
    res = Collocator().collocate(primary, secondary, max_distance=10)
except Exception as exc:
    print("OBSERVED: collocate() of two gridded datasets raised "
          f"{type(exc).__name__}: {str(exc)[:150]}...")
    print("EXPECTED: a compact collocation dataset (docstring: 'lat and lon "
          "can be gridded, i.e. they can be multi-dimensional')")
    sys.exit(1)

# The result must be a consistent compact dataset
pairs = res["Collocations/pairs"].values
ok = True
for i, g in enumerate(("primary", "secondary")):
    n = res.sizes[g + "/collocation"]
    if pairs[i].min() < 0 or pairs[i].max() >= n \
            or np.unique(pairs[i]).size != n:
        print(f"pairs of group {g} are not valid / not covering"); ok = False
e = expand(res)
for i, g in enumerate(("primary", "secondary")):
    orig = (primary, secondary)[i]
    # each expanded row must carry the values of the original grid cell
    for k in range(pairs.shape[1]):
        line = int(e[g + "/scnline"].values[k])
        pos = int(e[g + "/scnpos"].values[k])
        if not np.array_equal(e[g + "/bt"].isel(collocation=k).values.ravel(),
                              orig["bt"].values[line, pos]):
            print(f"expand row {k} of {g} carries wrong values"); ok = False
            break
c = collapse(res)
sec_bt = res["secondary/bt"].transpose("secondary/collocation", ...).values
got_mean = c["secondary/bt_mean"].transpose("collocation", ...).values
for r in range(res.sizes["primary/collocation"]):
    partner = pairs[1][pairs[0] == r]
    exp = np.nanmean(sec_bt[partner], axis=0)
    if not np.allclose(got_mean[r], exp):
        print(f"collapse row {r} wrong"); ok = False
        break
print("OK: gridded input gives a consistent compact result" if ok
      else "FAILED")
sys.exit(0 if ok else 1)
