"""C06 d4 (borderline domain): metric='haversine' with a radius written as half the
Earth's circumference (20037.5 km = 40075 km / 2, or '12451 miles'). This is a
hair above pi * typhon.constants.earth_radius (20037.39 km), the radius angle
exceeds pi, and the tree's reduced distance sin(r/2)**2 decreases again: the
most distant (near-antipodal) pairs are silently dropped although every pair on
the sphere is within such a radius.  Larger radii drop ever larger shells
(r=25000 km loses everything beyond 15075 km)."""
import sys, os; sys.path.insert(0, "/tmp/hunt/C06")
import warnings; warnings.simplefilter("ignore")
import numpy as np, typhon
assert typhon.__file__.startswith("/tmp/hunt/C06/")
from typhon.geographical import GeoIndex, to_kilometers

R = 6.3781e6
rng = np.random.default_rng(11)
n = 60
lat = rng.uniform(-60, 60, n); lon = rng.uniform(-170, 170, n)
# query points: 0.02 .. 0.5 km away from the antipode of build point i
off = rng.uniform(0.02, 0.5, n) / 111.3
lq = -lat + off
loq = np.where(lon > 0, lon - 180, lon + 180)


def arc_km(lat, lon, lq, loq):
    def v(a, o):
        a = np.radians(a); o = np.radians(o)
        return np.stack([np.cos(a) * np.cos(o), np.cos(a) * np.sin(o), np.sin(a)], -1)
    A = v(lat, lon)[:, None, :]; B = v(lq, loq)[None, :, :]
    cr = np.linalg.norm(np.cross(A, B), axis=-1); dt = (A * B).sum(-1)
    return np.arctan2(cr, dt) * R / 1000


D = arc_km(lat, lon, lq, loq)
print(f"largest pair distance {D.max():.3f} km; pi*R = {np.pi*R/1000:.3f} km")
bad = 0
for r in [20037.5, "12451 miles", "20037.5 km"]:
    rk = to_kilometers(r)
    exp = set(zip(*map(lambda a: a.tolist(), np.nonzero(D <= rk))))  # all n*n pairs
    for tree, shuffle in [("Ball", True), ("Ball", False)]:
        np.random.seed(2)
        pairs, dist = GeoIndex(lat, lon, metric="haversine", tree_class=tree,
                               shuffle=shuffle).query(lq, loq, r)
        got = set(zip(pairs[0].tolist(), pairs[1].tolist()))
        miss = sorted(exp - got)
        print(f"r={r!r} ({rk:.2f} km) shuffle={shuffle}: returned {len(got)} of "
              f"{len(exp)} pairs within r; missing {len(miss)}")
        for b, q in miss[:3]:
            print(f"   missing ({b},{q}): distance {D[b, q]:.3f} km <= r")
        bad += bool(miss) or len(got) != len(pairs[0])
if bad:
    print("DEFECT: pairs within the radius are dropped when the radius angle exceeds pi")
    sys.exit(1)
print("ok")
