"""C17 / d2: over-determined retrieval with a rank-deficient Jacobian
(two state elements whose weighting functions are proportional, which the
instrument cannot tell apart) and small measurement noise.

error_covariance_matrix is not the inverse of (K^T S_y^-1 K + S_a^-1), it
exceeds S_a, G K is not the averaging kernel and the averaging kernel leaves
[0, 1).  (The gain itself reacts to rounding of a rank-deficient K with
eps / sigma_y^2, so it is judged through the product G K = A.)  Here
the measurement-space form is ill-conditioned too, so the judge is exact
rational arithmetic on the very same float inputs.
"""
import sys, os; sys.path.insert(0, "/tmp/hunt/C17")
import warnings
from fractions import Fraction
import numpy as np
import typhon
assert typhon.__file__.startswith("/tmp/hunt/C17/"), typhon.__file__
from typhon.retrieval.oem import (error_covariance_matrix,
                                  retrieval_gain_matrix,
                                  averaging_kernel_matrix)

warnings.simplefilter("ignore")


# ---- exact oracle (independent of typhon, numpy.linalg and scipy) ----------
def frac(M):
    return [[Fraction(float(v)) for v in row] for row in np.asarray(M)]


def mul(A, B):
    Bt = list(zip(*B))
    return [[sum(a * b for a, b in zip(row, col)) for col in Bt] for row in A]


def tr(A):
    return [list(r) for r in zip(*A)]


def add(A, B):
    return [[a + b for a, b in zip(ra, rb)] for ra, rb in zip(A, B)]


def inverse(A):
    n = len(A)
    M = [list(r) + [Fraction(int(i == j)) for j in range(n)]
         for i, r in enumerate(A)]
    for c in range(n):
        p = next(r for r in range(c, n) if M[r][c] != 0)
        M[c], M[p] = M[p], M[c]
        piv = M[c][c]
        M[c] = [v / piv for v in M[c]]
        for r in range(n):
            if r != c and M[r][c] != 0:
                f = M[r][c]
                M[r] = [a - f * b for a, b in zip(M[r], M[c])]
    return [r[n:] for r in M]


def exact(K, S_a, S_y):
    """The defining identities of the property, evaluated exactly."""
    K, S_a, S_y = frac(K), frac(S_a), frac(S_y)
    Syi = inverse(S_y)
    S = inverse(add(mul(mul(tr(K), Syi), K), inverse(S_a)))
    G = mul(mul(S, tr(K)), Syi)
    A = mul(G, K)
    f = lambda M: np.array([[float(v) for v in r] for r in M])
    return f(S), f(G), f(A)


# ---- the input -------------------------------------------------------------
n, m = 6, 12                       # over-determined: 6 unknowns, 12 channels
rng = np.random.default_rng(1717)
K = rng.normal(size=(m, n))
K[:, 5] = 2 * K[:, 4]              # rank 5: elements 4 and 5 indistinguishable
idx = np.arange(n)
S_a = np.exp(-np.abs(idx[:, None] - idx[None, :]) / 2.0)   # correlated prior
TOL = 1e-9                         # generous: cond(S_a) ~ 10, cond(S_y) = 1

bad = []
print("rank(K) = %d of %d, cond(S_a) = %.1f, cond(S_y) = 1"
      % (np.linalg.matrix_rank(K), n, np.linalg.cond(S_a)))
print("%8s | %10s %10s %10s | %10s | %12s %12s %12s" % (
    "sigma_y", "err S", "err G K", "err A", "asym S",
    "max eig(A)-1", "min eig(Sa-S)", "min eig(S)"))
for sigma in [1e-4, 1e-5, 1e-6, 1e-7]:
    S_y = sigma**2 * np.eye(m)
    S = error_covariance_matrix(K, S_a, S_y)
    G = retrieval_gain_matrix(K, S_a, S_y)
    A = averaging_kernel_matrix(K, S_a, S_y)
    S_x, G_x, A_x = exact(K, S_a, S_y)

    eS = np.abs(S - S_x).max()                 # prior variances are 1
    eG = np.abs(G @ K - A_x).max()
    eA = np.abs(A - A_x).max()
    asym = np.abs(S - S.T).max()
    ev = np.linalg.eigvals(A).real
    eig_hi = ev.max() - 1
    eig_lo = np.linalg.eigvalsh(S_a - (S + S.T) / 2).min()
    eig_S = np.linalg.eigvalsh((S + S.T) / 2).min()
    print("%8.0e | %10.2e %10.2e %10.2e | %10.2e | %12.2e %12.2e %12.2e" % (
        sigma, eS, eG, eA, asym, eig_hi, eig_lo, eig_S))
    if max(eS, eG, eA) > TOL:
        bad.append("sigma_y=%g: S/G/A differ from the exact defining "
                   "identities by %.1e (tolerance %.0e)"
                   % (sigma, max(eS, eG, eA), TOL))
    if asym > TOL:
        bad.append("sigma_y=%g: S is not symmetric (|S - S^T| = %.1e)"
                   % (sigma, asym))
    if eig_hi > TOL or ev.min() < -TOL:
        bad.append("sigma_y=%g: eigenvalues of A span [%.3g, 1 + %.1e] "
                   "(must lie in [0, 1))" % (sigma, ev.min(), eig_hi))
    if eig_lo < -TOL:
        bad.append("sigma_y=%g: S is larger than S_a (min eig of S_a - S "
                   "= %.1e)" % (sigma, eig_lo))
    if eig_S <= 0:
        bad.append("sigma_y=%g: S is not positive definite (min eig %.1e)"
                   % (sigma, eig_S))

print()
print("expected: every error column <= %.0e, S symmetric p.d. and <= S_a, "
      "eig(A) in [0, 1)" % TOL)
if bad:
    print("observed: VIOLATIONS")
    for b in bad:
        print("  -", b)
    sys.exit(1)
print("observed: all identities hold")
sys.exit(0)
