"""C05 / d4: collocate_filesets loses (and invents) collocations when the files
hold their points along a dimension without coordinate labels (e.g.
time/lat/lon on the dimension "scnline", the layout of the typhon satellite
handlers and of typhon's own test `"time": ("main", ...)`) and the common time
period of a file pair cuts through a file: instead of the points inside the
period, the first N points of the file are selected.

The same data is stored twice: with `time` as the dimension coordinate (works)
and on a dimension "scnline" without labels (fails).
"""
import sys, os
sys.path.insert(0, "/tmp/hunt/C05")
import logging, pickle, shutil, tempfile, warnings
from collections import Counter
from datetime import datetime, timedelta

import numpy as np
import xarray as xr

import typhon
assert typhon.__file__.startswith("/tmp/hunt/C05/"), typhon.__file__
from typhon.files import FileSet
from typhon.files.handlers.common import FileHandler, expects_file_info
from typhon.collocations import Collocator

logging.disable(logging.CRITICAL)
warnings.filterwarnings("ignore")


class PickleHandler(FileHandler):
    @expects_file_info()
    def read(self, file_info, **kwargs):
        with open(file_info.path, "rb") as file:
            return pickle.load(file)


T0 = datetime(2020, 1, 1)
NAME = "{year}{month}{day}_{hour}{minute}{second}-" \
       "{end_year}{end_month}{end_day}_{end_hour}{end_minute}{end_second}.pkl"


def write_fileset(root, name, layout, secs, lat, lon, bounds):
    directory = os.path.join(root, layout, name)
    os.makedirs(directory)
    pid = np.arange(secs.size)
    for start, end in bounds:
        sel = (secs >= start) & (secs < end)
        times = np.datetime64(T0, "ns") + secs[sel].astype("timedelta64[s]")
        if layout == "time-is-dimension":
            data = xr.Dataset(
                {"lat": ("time", lat[sel]), "lon": ("time", lon[sel]),
                 "pid": ("time", pid[sel])}, coords={"time": times})
        else:
            data = xr.Dataset(
                {"time": ("scnline", times), "lat": ("scnline", lat[sel]),
                 "lon": ("scnline", lon[sel]), "pid": ("scnline", pid[sel])})
        st, en = T0 + timedelta(seconds=start), T0 + timedelta(seconds=end)
        path = os.path.join(
            directory, f"{st:%Y%m%d_%H%M%S}-{en:%Y%m%d_%H%M%S}.pkl")
        with open(path, "wb") as file:
            pickle.dump(data, file)
    return FileSet(os.path.join(directory, NAME), name=name,
                   handler=PickleHandler())


def main():
    root = tempfile.mkdtemp(prefix="c05_d4_")
    try:
        # A: a point every 10 minutes for 4 hours, hourly files;
        # B: a point every 10 minutes (2 minutes later, same place), files of
        # 90 minutes
        a_secs = np.arange(0, 4 * 3600, 600)
        b_secs = a_secs + 120
        lat_a = lon_a = np.zeros(a_secs.size)
        lat_b = lon_b = np.full(b_secs.size, 0.01)
        bounds_a = [(h * 3600, (h + 1) * 3600) for h in range(4)]
        bounds_b = [(k * 5400, (k + 1) * 5400) for k in range(3)]
        max_interval, max_distance = 300, 10.

        # brute force: every A point collocates with the B point 120 s later
        dt = np.abs(a_secs[:, None] - b_secs[None, :])
        expected = Counter(zip(*[x.tolist()
                                 for x in np.nonzero(dt < max_interval)]))

        ok = True
        for layout in ("time-is-dimension", "scnline-without-labels"):
            fs_a = write_fileset(root, "A", layout, a_secs, lat_a, lon_a,
                                 bounds_a)
            fs_b = write_fileset(root, "B", layout, b_secs, lat_b, lon_b,
                                 bounds_b)
            for processes in (1, 2):
                found = Counter()
                for ds, _ in Collocator().collocate_filesets(
                        [fs_a, fs_b], processes=processes,
                        max_interval=max_interval,
                        max_distance=max_distance):
                    pairs = ds["Collocations/pairs"].values
                    found += Counter(zip(
                        ds["A/pid"].values[pairs[0]].tolist(),
                        ds["B/pid"].values[pairs[1]].tolist()))
                missing, extra = expected - found, found - expected
                print(f"{layout}, processes={processes}: "
                      f"{sum(found.values())} collocations, expected "
                      f"{sum(expected.values())}; missing "
                      f"{sorted(missing.elements())}, not existing/twice "
                      f"{sorted(extra.elements())}")
                ok &= found == expected
        print("OK" if ok else
              "DEFECT: the collocations depend on the dimension layout of "
              "the files and differ from brute force")
        return 0 if ok else 1
    finally:
        shutil.rmtree(root, ignore_errors=True)


if __name__ == "__main__":
    sys.exit(main())
