"""C03 d3: FileSet.match(max_interval=numpy.timedelta64) fails or widens by a wrong amount."""
import sys, os; sys.path.insert(0, "/tmp/hunt/C03")
import warnings; warnings.simplefilter("ignore")
import typhon; assert typhon.__file__.startswith("/tmp/hunt/C03/")
import tempfile, shutil
import numpy as np, pandas as pd
from datetime import datetime, timedelta
from typhon.files import FileSet

T = ("{year}{month}{day}{hour}{minute}{second}-"
     "{end_year}{end_month}{end_day}{end_hour}{end_minute}{end_second}.dat")
F = "%Y%m%d%H%M%S"
base = datetime(2020, 1, 1)


def make(root, name, ivs):
    p = os.path.join(root, name); os.makedirs(p)
    for a, b in ivs:
        open(os.path.join(p, f"{(base + timedelta(seconds=a)).strftime(F)}-{(base + timedelta(seconds=b)).strftime(F)}.dat"), "w").close()
    return FileSet(os.path.join(p, T), name=name)


def rel(fi):
    return tuple(int((t - base).total_seconds()) for t in fi.times)


def oracle(A, B, mi):
    out = []
    for a in sorted(A):
        pr = [b for b in sorted(B) if b[0] - mi <= a[1] and b[1] + mi >= a[0]]
        if pr:
            out.append((a, pr))
    return out


A = [(0, 10), (5000, 5010), (20000, 20010)]
B = [(13, 20), (3000, 3100), (9000, 9100), (30000, 30100)]
cases = [
    ("timedelta(hours=1) (control)", timedelta(hours=1), 3600),
    ("np.timedelta64(1, 'h')", np.timedelta64(1, "h"), 3600),
    ("np.timedelta64(3600, 's')", np.timedelta64(3600, "s"), 3600),
    ("np.timedelta64(5_000_000_000, 'ns')  (= 5 s)", np.timedelta64(5_000_000_000, "ns"), 5),
    ("pd.Timedelta('5s').to_timedelta64()", pd.Timedelta("5s").to_timedelta64(), 5),
    ("np.timedelta64(2, 'm')", np.timedelta64(2, "m"), 120),
]
ok = True
root = tempfile.mkdtemp(dir="/tmp/hunt/C03/out")
try:
    fa = make(root, "A", A); fb = make(root, "B", B)
    for label, mi, seconds in cases:
        exp = oracle(A, B, seconds)
        try:
            got = [(rel(f), [rel(m) for m in ms]) for f, ms in fa.match(fb, max_interval=mi)]
        except Exception as e:
            got = f"{type(e).__name__}: {e}"
        if got != exp:
            ok = False
        print(f"{'ok   ' if got == exp else 'WRONG'} max_interval={label}\n      observed {got}\n      expected {exp}")
finally:
    shutil.rmtree(root)
sys.exit(0 if ok else 1)
