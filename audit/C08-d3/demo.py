"""Integer-valued frequency / wavenumber arrays (e.g. np.arange(89, 191) * 10**9
or np.array([183_310_000_000])) overflow int64 in f**3 / f**2, so planck,
rayleighjeans, both brightness-temperature inversions and the per-wavelength
converters silently return garbage (negative radiances, inf temperatures),
although the same values as Python ints or floats work."""
import sys, os; sys.path.insert(0, "/tmp/hunt/C08")
import warnings; warnings.simplefilter("ignore")
import numpy as np
import typhon
assert typhon.__file__.startswith("/tmp/hunt/C08/"), typhon.__file__
from typhon.physics import em
from typhon import constants

h, k, c = constants.planck, constants.boltzmann, constants.speed_of_light
fail = 0


def check(label, got, ref, rtol=1e-12):
    global fail
    got = np.asarray(got, dtype=float); ref = np.asarray(ref, dtype=float)
    ok = got.shape == ref.shape and np.allclose(got, ref, rtol=rtol, atol=0)
    print("%-46s got %s\n%-46s exp %s -> %s" % (label, got, "", ref, "ok" if ok else "WRONG"))
    if not ok:
        fail += 1


fi = np.array([89_000_000_000, 183_310_000_000, 30_000_000_000_000])   # Hz, int64
ff = [float(v) for v in fi]
T = 250.0
# independent oracle with Python floats / math.expm1
import math
B = [2 * h * f * f * f / (c * c * math.expm1(h * f / (k * T))) for f in ff]
RJ = [2 * f * f * k * T / (c * c) for f in ff]

check("planck(int64 array, 250)", em.planck(fi, T), B)
check("planck is positive", em.planck(fi, T) > 0, [1, 1, 1])
check("rayleighjeans(int64 array, 250)", em.rayleighjeans(fi, T), RJ)
check("radiance2planckTb(int64 array, B)", em.radiance2planckTb(fi, np.array(B)), [T] * 3, rtol=1e-9)
check("radiance2rayleighjeansTb(int64 array, RJ)", em.radiance2rayleighjeansTb(fi, np.array(RJ)), [T] * 3)

# the same through the spectral-density converters (Jacobian f^2/c)
perm, lam = em.perfrequency2perwavelength(np.array(B), fi)
check("perfrequency2perwavelength(B, int64 grid)[0]", perm,
      [b * f * f / c for b, f in zip(B, ff)][::-1])
check("  ... equals planck_wavelength", perm, em.planck_wavelength(lam, T), rtol=1e-9)

# wavenumber form: 3e6 1/m (= 30000 cm^-1 ... 3.3 um is 3e5) as integers
ni = np.array([100_000, 300_000, 3_000_000])      # 1/m, int64
Bn = [2 * h * c * c * n ** 3 / math.expm1(h * c * n / (k * 5000.0)) for n in map(float, ni)]
check("planck_wavenumber(int64 array, 5000)", em.planck_wavenumber(ni, 5000.0), Bn, rtol=1e-9)

print("FAIL" if fail else "OK")
sys.exit(1 if fail else 0)
