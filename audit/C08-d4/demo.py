"""Cancellation in exp(x) - 1 and log(1 + y) for small x = h f / (k T):
planck() and radiance2planckTb() lose up to six of the sixteen digits inside
the stated domain (x down to 1e-6), planck(f, T) becomes a step function of T
(does not increase), and the round trip radiance2planckTb(f, planck(f, T))
is 1e-10 off instead of 1e-16."""
import sys, os; sys.path.insert(0, "/tmp/hunt/C08")
import warnings; warnings.simplefilter("ignore")
import numpy as np
from decimal import Decimal as D, getcontext
import typhon
assert typhon.__file__.startswith("/tmp/hunt/C08/"), typhon.__file__
from typhon.physics import em
from typhon import constants

getcontext().prec = 50
h, k, c = constants.planck, constants.boltzmann, constants.speed_of_light
fail = 0


def exact(f, T):
    """Planck radiance with 50 digits (no cancellation)."""
    x = D(h) * D(f) / (D(k) * D(T))
    return float(2 * D(h) * D(f) ** 3 / (D(c) ** 2 * (x.exp() - 1)))


rng = np.random.default_rng(0)
f = 10 ** rng.uniform(8, 15, 40000)
T = 10 ** rng.uniform(np.log10(2), 4, 40000)
x = h * f / (k * T)
m = (x >= 1e-6) & (x <= 600)
f, T, x = f[m], T[m], x[m]

# 1. round trip
err = np.abs(em.radiance2planckTb(f, em.planck(f, T)) / T - 1)
i = int(np.argmax(err))
print("round trip radiance2planckTb(f, planck(f, T)) / T - 1: max %.3g at f=%.6g Hz, T=%.6g K "
      "(h f / k T = %.3g); expected < 1e-13" % (err[i], f[i], T[i], x[i]))
if not err.max() < 1e-13:
    fail += 1

# 2. planck against the 50-digit value, for small x where the formula is well conditioned
s = np.where(x < 1e-3)[0][:3000]
ref = np.array([exact(a, b) for a, b in zip(f[s], T[s])])
perr = np.abs(em.planck(f[s], T[s]) / ref - 1)
print("planck(f, T) / exact - 1 for h f / k T in [1e-6, 1e-3]: max %.3g; expected < 1e-13" % perr.max())
if not perr.max() < 1e-13:
    fail += 1
terr = np.abs(em.radiance2planckTb(f[s], ref) / T[s] - 1)
print("radiance2planckTb(f, exact) / T - 1 for the same: max %.3g; expected < 1e-13" % terr.max())
if not terr.max() < 1e-13:
    fail += 1

# 3. planck increases with T: 100 MHz, 4000 K, steps of 8e-8 K (2e-11 relative,
#    1e5 ulp of T)
Tl = np.linspace(4000, 4000 * (1 + 1e-9), 51)
d = np.diff(em.planck(1e8, Tl))
print("planck(1e8, T) on 51 temperatures 4000 K ... 4000.000004 K: %d increases, %d ties, "
      "%d decreases; expected 50 increases" % ((d > 0).sum(), (d == 0).sum(), (d < 0).sum()))
if not np.all(d > 0):
    fail += 1

print("FAIL" if fail else "OK")
sys.exit(1 if fail else 0)
