"""C10 / d1: collect() crashes when no file yields a content.

collect() is map() with a pass-through function from which the None contents
(read errors turned into warnings by error_to_warning, functions returning
None) are dropped.  When *every* file is dropped - or the file list is empty -
`files, data = zip(*[])` raises "ValueError: not enough values to unpack"
instead of returning an empty list.
"""
import sys, os; sys.path.insert(0, "/tmp/hunt/C10")
import shutil
import tempfile
import warnings

import typhon
assert typhon.__file__.startswith("/tmp/hunt/C10/"), typhon.__file__
from typhon.files import FileSet, FileHandler

FAILS = set()


def reader(file_info, **kwargs):
    with open(file_info.path) as file:
        value = int(file.read())
    if value in FAILS:
        raise IOError(f"cannot read file no. {value}")
    return value


def main():
    tmp = tempfile.mkdtemp(prefix="c10d1_")
    bad = 0
    try:
        for i in range(3):
            with open(os.path.join(tmp, f"2018-01-{i+1:02d}.txt"), "w") as f:
                f.write(str(i))
        fileset = FileSet(
            os.path.join(tmp, "{year}-{month}-{day}.txt"),
            handler=FileHandler(reader=reader), name="d1",
        )
        files = list(fileset.find())

        cases = [
            # name, failing files, call, expected
            ("readers fail on {1}", {1},
             lambda: fileset.collect(error_to_warning=True), [0, 2]),
            ("readers fail on {0,1}", {0, 1},
             lambda: fileset.collect(error_to_warning=True), [2]),
            ("readers fail on {0,1,2} (all files)", {0, 1, 2},
             lambda: fileset.collect(error_to_warning=True), []),
            ("readers fail on all files, return_info=True", {0, 1, 2},
             lambda: fileset.collect(
                 error_to_warning=True, return_info=True), ([], [])),
            ("readers fail on all files of files=[f0, f1]", {0, 1},
             lambda: fileset.collect(
                 files=files[:2], error_to_warning=True), []),
            ("func returning None for every file", set(),
             lambda: fileset.collect(func=lambda content: None), []),
            ("files=[] (nothing to do)", set(),
             lambda: fileset.collect(files=[]), []),
        ]
        for name, fails, call, expected in cases:
            FAILS.clear()
            FAILS.update(fails)
            with warnings.catch_warnings(record=True) as caught:
                warnings.simplefilter("always")
                try:
                    observed = call()
                except Exception as err:
                    observed = f"{type(err).__name__}: {err}"
            n_warn = sum(
                1 for w in caught if issubclass(w.category, RuntimeWarning)
                and "Could not read" in str(w.message))
            ok = observed == expected and n_warn == len(fails)
            bad += not ok
            print(f"[{'ok ' if ok else 'BAD'}] collect, {name}:\n"
                  f"      observed {observed!r} ({n_warn} read warnings)\n"
                  f"      expected {expected!r} ({len(fails)} read warnings)")

        # the lazy twin handles the same situation:
        FAILS.clear()
        FAILS.update({0, 1, 2})
        with warnings.catch_warnings():
            warnings.simplefilter("ignore")
            lazy = list(fileset.icollect(error_to_warning=True))
        print("icollect with all readers failing:", lazy)
    finally:
        shutil.rmtree(tmp, ignore_errors=True)

    if bad:
        print(f"DEFECT: collect() raised in {bad} case(s) in which every "
              f"content is None / nothing is to be read")
        return 1
    print("OK")
    return 0


if __name__ == "__main__":
    sys.exit(main())
