"""C18 d3: predict_quantiles depends on the order of the database entries.

Database with a diagonal covariance, observations quantised in the channel
with the smallest variance (so several DIFFERENT entries share the projection
on the principal axis) and a quantised retrieval quantity (duplicate x).
Entries with equal x are kept as separate CDF nodes in whatever order the two
argsorts leave them, and np.interp then interpolates towards the FIRST node of
a group of equal x, whose cumulative weight depends on that order.  The same
database in another row order gives other quantiles (the mean / std agree).
"""
import sys, os; sys.path.insert(0, "/tmp/hunt/C18")
import itertools, warnings
import numpy as np
import typhon
assert typhon.__file__.startswith("/tmp/hunt/C18/"), typhon.__file__
from typhon.retrieval.bmci import BMCI

warnings.simplefilter("ignore")
failures = 0
taus = [0.1, 0.3, 0.5, 0.7, 0.9]

# --- tiny hand-made case, every permutation --------------------------------
y = np.array([[0.0, 0.0], [1.0, 1.0], [1.0, 2.0], [1.0, 3.0], [3.0, 0.0]])
x = np.array([1.0, 2.0, 2.0, 3.0, 3.0])
s = np.diag([1.0, 4.0])
obs = np.array([[1.2, 1.2]])
results = {}
means = set()
for p in itertools.permutations(range(5)):
    p = list(p)
    b = BMCI(y[p], x[p], s)
    q = tuple(np.round(b.predict_quantiles(obs, taus)[0], 10))
    results.setdefault(q, p)
    means.add(round(float(b.predict(obs)[0][0]), 10))
print("5 entries, all 120 permutations; predict() means seen: %s" % sorted(means))
print("distinct predict_quantiles(%s) results: %d (expected 1)" % (taus, len(results)))
for q, p in results.items():
    print("   order %s -> %s" % (p, np.array(q)))
if len(results) != 1:
    failures += 1

# --- random databases: x2_max mode and unrestricted mode --------------------
rng = np.random.default_rng(7)
n_diff = n_tot = 0
worst = 0.0
for it in range(40):
    n = 60
    m = int(rng.integers(2, 6))
    s = np.diag(10.0 ** rng.uniform(-1, 1, m))
    y = np.round(rng.normal(size=(n, m)) * 2.0)          # quantised channels
    x = np.round(rng.normal(size=n))                      # quantised x
    obs = y[:1] + 0.3
    b1 = BMCI(y, x, s)
    p = rng.permutation(n)
    b2 = BMCI(y[p], x[p], s)
    for x2 in (-1.0, 10.0):
        q1 = b1.predict_quantiles(obs, taus, x2_max=x2)
        q2 = b2.predict_quantiles(obs, taus, x2_max=x2)
        n_tot += 1
        d = np.nanmax(np.abs(q1 - q2)) if np.isfinite(q1).any() else 0.0
        if not np.allclose(q1, q2, rtol=1e-9, atol=1e-9, equal_nan=True):
            n_diff += 1
            worst = max(worst, d)
print("random quantised databases: %d of %d (database, permuted database) pairs "
      "give different quantiles (expected 0), largest difference %.3f"
      % (n_diff, n_tot, worst))
if n_diff:
    failures += 1

if failures:
    print("\nDEFECT: predict_quantiles is not independent of the order of the "
          "database entries")
    sys.exit(1)
print("\nall checks passed")
sys.exit(0)
