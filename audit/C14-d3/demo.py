"""C14 / d3: pressure2height on arrays of rank > 1.

The layer depth is taken with np.diff (LAST axis) while the layer-mean density
is taken with rho[:-1] / rho[1:] (FIRST axis) and the result is assembled with
np.hstack([0, z]).  No orientation of a 2-d (levels x columns) pressure field
is therefore converted: the call raises ValueError (or, for a 2 x 2 field,
broadcasts the mismatched pieces).
"""
import sys, os; sys.path.insert(0, "/tmp/hunt/C14")
import warnings; warnings.simplefilter("ignore")
import inspect
import numpy as np
import typhon
assert typhon.__file__.startswith("/tmp/hunt/C14/"), typhon.__file__
from typhon.physics import pressure2height
from typhon import constants as C

Rd, g = C.gas_constant_dry_air, C.g
has_axis = 'axis' in inspect.signature(pressure2height).parameters


def brute(p, T):
    z = [0.]
    for i in range(len(p) - 1):
        rho = 0.5 * (p[i] / (Rd * T[i]) + p[i + 1] / (Rd * T[i + 1]))
        z.append(z[-1] - (p[i + 1] - p[i]) / (rho * g))
    return np.array(z)


fail = False
for nlev, ncol in [(6, 3), (2, 2), (50, 50)]:
    ps = np.linspace(1000e2, 900e2, ncol)
    sig = np.linspace(1, 0.05, nlev)
    p = sig[:, None] * ps[None, :]                       # (nlev, ncol)
    T = np.full((nlev, ncol), 250.) + np.arange(ncol)[None, :]   # isothermal columns
    exp = np.stack([brute(p[:, k], T[:, k]) for k in range(ncol)], axis=1)
    one_d = np.stack([pressure2height(p[:, k], T[:, k]) for k in range(ncol)], axis=1)
    assert np.allclose(one_d, exp, rtol=1e-12)           # 1-d is fine
    for name, pp, TT, ee, ax in [("levels on axis 0", p, T, exp, 0),
                                 ("levels on axis 1", p.T.copy(), T.T.copy(), exp.T, 1)]:
        if ax != 0 and not has_axis:
            continue      # only the library's default layout (levels first) is required
        kw = {'axis': ax} if has_axis else {}
        try:
            got = pressure2height(pp, TT, **kw)
        except Exception as exc:
            print(f"p {pp.shape}, {name}: raised {type(exc).__name__}: {exc}")
            fail = True
            continue
        ok = np.shape(got) == ee.shape and np.allclose(got, ee, rtol=1e-12)
        if not ok:
            print(f"p {pp.shape}, {name}: observed shape {np.shape(got)} values\n{got}\n"
                  f"expected shape {ee.shape} values\n{ee}")
        else:
            start0 = np.all(np.take(got, 0, axis=ax) == 0)
            incr = np.all(np.diff(got, axis=ax) > 0)
            print(f"p {pp.shape}, {name}: ok (starts at 0: {start0}, increasing: {incr})")
            ok = start0 and incr
        fail |= not ok
    # T=None: standard atmosphere
    try:
        got = pressure2height(p)
        e2 = np.stack([pressure2height(p[:, k]) for k in range(ncol)], axis=1)
        ok = np.shape(got) == e2.shape and np.allclose(got, e2)
        print(f"p {p.shape}, T=None: {'ok' if ok else 'WRONG'}")
        fail |= not ok
    except Exception as exc:
        print(f"p {p.shape}, T=None: raised {type(exc).__name__}: {exc}")
        fail = True

print("DEFECT PRESENT" if fail else "all good")
sys.exit(1 if fail else 0)
