"""C06 d1: GeoIndex(metric='haversine', tree_class='KD') cannot be built, so the
result depends on the tree type for the haversine metric."""
import sys, os; sys.path.insert(0, "/tmp/hunt/C06")
import warnings; warnings.simplefilter("ignore")
import numpy as np, typhon
assert typhon.__file__.startswith("/tmp/hunt/C06/")
from typhon.geographical import GeoIndex

R = 6.3781e6
rng = np.random.default_rng(5)
n, m = 300, 40
lat = np.degrees(np.arcsin(rng.uniform(-1, 1, n))); lon = rng.uniform(-180, 180, n)
lat[:3] = [90, -90, 0]; lon[:3] = [0, 0, 180]
lq = np.degrees(np.arcsin(rng.uniform(-1, 1, m))); loq = rng.uniform(-180, 180, m)
lq[:3] = [89.9, -89.9, 0.1]; loq[:3] = [100, -70, -179.9]


def arc_km(lat, lon, lq, loq):
    def v(a, o):
        a = np.radians(a); o = np.radians(o)
        return np.stack([np.cos(a) * np.cos(o), np.cos(a) * np.sin(o), np.sin(a)], -1)
    A = v(lat, lon)[:, None, :]; B = v(lq, loq)[None, :, :]
    cr = np.linalg.norm(np.cross(A, B), axis=-1); dt = (A * B).sum(-1)
    return np.arctan2(cr, dt) * R / 1000


D = arc_km(lat, lon, lq, loq)
bad = 0
for r in ["500 km", 5000, "3000 miles", 19000]:
    from typhon.geographical import to_kilometers
    rk = to_kilometers(r)
    exp = set(zip(*map(lambda a: a.tolist(), np.nonzero(D <= rk * (1 - 1e-9)))))
    may = set(zip(*map(lambda a: a.tolist(), np.nonzero(D <= rk * (1 + 1e-9)))))
    res = {}
    for tree in ["Ball", "KD"]:
        for shuffle in [True, False]:
            np.random.seed(1)
            try:
                idx = GeoIndex(lat, lon, metric="haversine", tree_class=tree,
                               shuffle=shuffle, leaf_size=5)
                pairs, dist = idx.query(lq, loq, r)
                got = list(zip(pairs[0].tolist(), pairs[1].tolist()))
                ok = (len(got) == len(set(got)) and exp <= set(got) <= may
                      and all(abs(d - D[b, q]) < 1e-3 for (b, q), d in zip(got, dist)))
                print(f"r={r!r} tree={tree} shuffle={shuffle}: {len(got)} pairs, "
                      f"expected {len(exp)}, {'OK' if ok else 'WRONG'}")
                bad += not ok
            except Exception as e:
                print(f"r={r!r} tree={tree} shuffle={shuffle}: EXCEPTION "
                      f"{type(e).__name__}: {e}  (expected {len(exp)} pairs)")
                bad += 1
if bad:
    print("DEFECT: haversine queries do not give the same (correct) result for "
          "both tree classes")
    sys.exit(1)
print("ok")
