"""C01 / d2: bundling by time frequency breaks on an empty result and does
not sort: find(..., bundle="1h", no_files_error=False) raises TypeError for a
period without files (bundle=<int> yields nothing, as it should), and with
sort=False the bundles are not the (t0, t1)-ordered sequence although the
documentation promises that bundling always sorts."""
import sys, os; sys.path.insert(0, "/tmp/hunt/C01")
import warnings; warnings.filterwarnings("ignore")
import typhon
assert typhon.__file__.startswith("/tmp/hunt/C01/"), typhon.__file__
import tempfile, shutil
from typhon.files import FileSet

root = tempfile.mkdtemp(prefix="tmp_", dir=os.path.dirname(os.path.abspath(__file__)))
fail = False
try:
    names = ["A_2018010100-05.nc", "B_2018010100-03.nc", "A_2018010200-01.nc"]
    for n in names:
        open(os.path.join(root, n), "w").close()
    fs = FileSet(os.path.join(root, "{sat}_{year}{month}{day}{hour}-{end_hour}.nc"))

    # 1. a period after all data: the ordered sequence is empty, so there are
    #    no bundles - for every kind of bundle
    for bundle in (2, "1h", "1D"):
        try:
            got = list(fs.find("2019-01-01", "2019-01-02", bundle=bundle,
                               no_files_error=False))
            print(f"empty period, bundle={bundle!r}: observed {got}, expected []")
            if got != []:
                fail = True
        except Exception as err:
            print(f"empty period, bundle={bundle!r}: observed "
                  f"{type(err).__name__}: {err}; expected []")
            fail = True

    # 2. bundling only partitions the sequence ordered by (t0, t1), whatever
    #    `sort` says ("When using bundle, the returned files will always be
    #    sorted ignoring the state of the sort argument")
    ordered = [os.path.basename(f.path) for f in fs.find()]
    assert ordered == ["B_2018010100-03.nc", "A_2018010100-05.nc",
                       "A_2018010200-01.nc"], ordered
    for bundle in (2, "1D"):
        got = [[os.path.basename(f.path) for f in b]
               for b in fs.find(bundle=bundle, sort=False)]
        flat = [n for b in got for n in b]
        print(f"sort=False, bundle={bundle!r}: observed {got}; "
              f"expected a partition of {ordered}")
        if flat != ordered:
            fail = True
finally:
    shutil.rmtree(root, ignore_errors=True)
print("FAIL" if fail else "OK")
sys.exit(1 if fail else 0)
