"""C10 / d3: with process workers an exception of a task does not reach the
caller when it is typhon's own NoFilesError - the whole pool breaks instead.

NoFilesError.__init__(fileset, start, end) builds a message and stores only
that in `args`; un-pickling the exception in the parent calls
NoFilesError(<message>) -> TypeError inside the result reader of the pool ->
every pending future fails with BrokenProcessPool.  With thread workers the
same task raises NoFilesError at the caller as promised.
"""
import sys, os; sys.path.insert(0, "/tmp/hunt/C10")
from datetime import timedelta
import pickle
import shutil
import tempfile
import warnings

import typhon
assert typhon.__file__.startswith("/tmp/hunt/C10/"), typhon.__file__
from typhon.files import FileSet, FileHandler
from typhon.files.fileset import NoFilesError


def reader(file_info, **kwargs):
    with open(file_info.path) as file:
        return int(file.read())


def counterpart(file_info, other):
    """A typical per-file task: look up the files of another fileset that
    belong to this file (find() raises NoFilesError if there are none)."""
    start = file_info.times[0]
    return [os.path.basename(f.path)
            for f in other.find(start, start + timedelta(days=1))]


def main():
    warnings.simplefilter("ignore")
    tmp = tempfile.mkdtemp(prefix="c10d3_")
    bad = 0
    try:
        for sub, days in (("a", (1, 2, 3, 4)), ("b", (1, 2, 4))):
            os.makedirs(os.path.join(tmp, sub))
            for day in days:
                with open(os.path.join(
                        tmp, sub, f"2018-01-{day:02d}.txt"), "w") as f:
                    f.write(str(day))
        pattern = "{year}-{month}-{day}.txt"
        primary = FileSet(
            os.path.join(tmp, "a", pattern), name="a",
            handler=FileHandler(reader=reader))
        other = FileSet(
            os.path.join(tmp, "b", pattern), name="b",
            handler=FileHandler(reader=reader))

        # The third file of `primary` has no counterpart: its task raises
        # NoFilesError.
        for worker_type in ("thread", "process"):
            for api in ("map", "imap"):
                got = []
                try:
                    if api == "map":
                        got = primary.map(
                            counterpart, kwargs={"other": other},
                            worker_type=worker_type, max_workers=2)
                    else:
                        for result in primary.imap(
                                counterpart, kwargs={"other": other},
                                worker_type=worker_type, max_workers=2):
                            got.append(result)
                    observed = f"no exception, {got}"
                    ok = False
                except Exception as err:
                    observed = f"{type(err).__name__}: " \
                               f"{str(err).splitlines()[0][:90]}"
                    ok = isinstance(err, NoFilesError)
                    if api == "imap":
                        ok = ok and got == [['2018-01-01.txt'],
                                            ['2018-01-02.txt']]
                        observed += f" (after the results {got})"
                bad += not ok
                print(f"[{'ok ' if ok else 'BAD'}] {api}, {worker_type} "
                      f"workers, the task of file 3 raises NoFilesError:\n"
                      f"      observed {observed}\n"
                      f"      expected NoFilesError: Found no files for b "
                      f"between 2018-01-03 00:00:00 and ...")

        # The reason in isolation:
        try:
            list(other.find("2018-01-03", "2018-01-04"))
        except NoFilesError as err:
            try:
                copy = pickle.loads(pickle.dumps(err))
                print("pickle round trip of NoFilesError:",
                      type(copy).__name__, "- message kept:",
                      str(copy) == str(err))
                bad += str(copy) != str(err)
            except Exception as perr:
                bad += 1
                print("pickle round trip of NoFilesError fails:",
                      type(perr).__name__, perr)
    finally:
        shutil.rmtree(tmp, ignore_errors=True)

    if bad:
        print("DEFECT: the exception of a task in a process worker did not "
              "reach the caller; the pool broke (BrokenProcessPool) and the "
              "results of the other files were lost")
        return 1
    print("OK")
    return 0


if __name__ == "__main__":
    sys.exit(main())
