"""C04 d2: a dataset whose points (inside the searched period) all have a NaN
position makes collocate() raise instead of ignoring them and returning None."""
import sys, os; sys.path.insert(0, "/tmp/hunt/C04")
import warnings; warnings.filterwarnings("ignore")
import numpy as np, xarray as xr
import typhon
assert typhon.__file__.startswith("/tmp/hunt/C04/"), typhon.__file__
from typhon.collocations import Collocator

t0 = np.datetime64("2020-01-01T00:00:00", "ns")
def mk(secs, lat, lon):
    n = len(secs)
    return xr.Dataset(
        {"time": ("x", t0 + np.asarray(secs) * np.timedelta64(1, "s")),
         "lat": ("x", np.asarray(lat, float)), "lon": ("x", np.asarray(lon, float)),
         "id": ("x", np.arange(n))}, coords={"x": np.arange(n)})

cases = {
    "single-point primary with NaN latitude":
        (mk([0], [np.nan], [0.]), mk([0, 5], [0., 0.], [0., 0.01]), {}),
    "secondary: two points, both with NaN longitude":
        (mk([0, 5], [0., 0.], [0., 0.01]), mk([1, 2], [0., 0.], [np.nan, np.nan]), {}),
    "valid points lie outside [start, end], the NaN one inside":
        (mk([0, 5000], [np.nan, 0.], [0., 0.]), mk([1, 5001], [0., 0.], [0., 0.]),
         dict(end="2020-01-01 00:10:00")),
}
bad = 0
for label, (p, s, kw) in cases.items():
    try:
        res = Collocator().collocate(p, s, max_interval=60, max_distance=10, **kw)
        obs = "None" if res is None else f"{res['Collocations/pairs'].shape[1]} pairs"
        good = res is None
    except Exception as e:
        obs = f"raised {type(e).__name__}: {str(e)[:80]}"
        good = False
    print(f"{label}: observed {obs}; expected None (NaN points are ignored, no pair exists)")
    bad += not good
# control: a valid point next to the NaN one still collocates
res = Collocator().collocate(mk([0, 1], [np.nan, 0.], [0., 0.]), mk([0], [0.], [0.]),
                             max_interval=60, max_distance=10)
ctrl = res is not None and res["primary/id"].values.tolist() == [1]
print("control (NaN point + valid point):", "ok" if ctrl else "WRONG")
if bad or not ctrl:
    print("DEFECT: collocate() raises when every point of one dataset has a NaN position")
    sys.exit(1)
print("OK")
