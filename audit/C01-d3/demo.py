"""C01 / d3: a '!'-black-list filter rejects every file whose placeholder value
merely STARTS with a forbidden value (re.match), whereas the white-list of the
same value selects exact values only."""
import sys, os; sys.path.insert(0, "/tmp/hunt/C01")
import warnings; warnings.filterwarnings("ignore")
import typhon
assert typhon.__file__.startswith("/tmp/hunt/C01/"), typhon.__file__
import tempfile, shutil
from typhon.files import FileSet

root = tempfile.mkdtemp(prefix="tmp_", dir=os.path.dirname(os.path.abspath(__file__)))
fail = False
try:
    sats = ["NOAA1", "NOAA18", "NOAA19", "MetopA"]
    for sat in sats:
        os.makedirs(os.path.join(root, sat))
        open(os.path.join(root, sat, "20180101.nc"), "w").close()
    fs = FileSet(os.path.join(root, "{sat}/{year}{month}{day}.nc"))

    def found(filters):
        return sorted(f.attr["sat"] for f in fs.find(filters=filters, no_files_error=False))

    cases = [
        ({"sat": "NOAA1"}, ["NOAA1"]),
        ({"!sat": "NOAA1"}, ["MetopA", "NOAA18", "NOAA19"]),
        ({"!sat": ["NOAA1", "MetopA"]}, ["NOAA18", "NOAA19"]),
        ({"!sat": ["Metop", "NOAA19"]}, ["MetopA", "NOAA1", "NOAA18"]),
        # regular expressions keep working in the black list
        ({"!sat": r"NOAA\d+"}, ["MetopA"]),
        ({"!sat": r"NOAA1\d"}, ["MetopA", "NOAA1"]),
    ]
    for filters, expected in cases:
        got = found(filters)
        ok = got == expected
        print(f"filters={filters}: observed {got}, expected {expected}"
              f"{'' if ok else '   <-- VIOLATION'}")
        fail |= not ok
    # white list and black list of the same value must be complementary
    white = found({"sat": "NOAA1"}); black = found({"!sat": "NOAA1"})
    if sorted(white + black) != sorted(sats):
        print("VIOLATION: white list + black list of 'NOAA1' lose",
              sorted(set(sats) - set(white) - set(black)))
        fail = True
finally:
    shutil.rmtree(root, ignore_errors=True)
print("FAIL" if fail else "OK")
sys.exit(1 if fail else 0)
