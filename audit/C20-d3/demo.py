"""C20 / d3: without TYPHON_DATA_PATH / XDG_CACHE_HOME the tile cache is NOT ${HOME}/.cache/typhon/topography
but a directory literally called '~' below the current working directory, so the cache is lost
(tile downloaded again / FileNotFoundError) as soon as the process changes directory."""
import sys, os; sys.path.insert(0, "/tmp/hunt/C20")
import warnings; warnings.simplefilter("ignore")
import tempfile, shutil
tmp = tempfile.mkdtemp(prefix="d3_", dir="/tmp/hunt/C20/out")
home = os.path.join(tmp, "home"); work1 = os.path.join(tmp, "work1"); work2 = os.path.join(tmp, "work2")
for p in (home, work1, work2): os.makedirs(p)
os.environ["HOME"] = home
os.environ.pop("TYPHON_DATA_PATH", None); os.environ.pop("XDG_CACHE_HOME", None)
import typhon; assert typhon.__file__.startswith("/tmp/hunt/C20/")
import numpy as np
import typhon.topography as tp
from typhon.topography import SRTM30
from typhon.environment import environ
assert "TYPHON_DATA_PATH" not in environ and "XDG_CACHE_HOME" not in environ

downloads = []
def fake_download(name):                      # stands in for the network download
    downloads.append(name)
    np.zeros((6000, 4800), dtype=">i2").tofile(os.path.join(tp._get_data_path(), (name + ".dem").upper()))
SRTM30.download_tile = staticmethod(fake_download)

fail = False
try:
    tp._data_path = None
    os.chdir(work1)
    SRTM30.elevation(10, 10, 10.1, 10.1)                 # cold cache: one download
    path = tp._get_data_path()
    print("cache directory :", repr(path), "  expected:", repr(os.path.join(home, ".cache", "typhon", "topography")))
    print("debris in cwd   :", os.listdir(work1), "  expected: []")
    if not os.path.isabs(path) or os.listdir(work1):
        fail = True
    os.chdir(work2)
    try:
        SRTM30.elevation(10, 10, 10.1, 10.1)             # warm cache: no download expected
        err = None
    except Exception as e:
        err = e
    print("downloads after the same request from another working directory:", downloads, " error:", repr(err),
          "  expected: ['w020n40'], no error")
    if downloads != ["w020n40"] or err is not None:
        fail = True
finally:
    os.chdir("/tmp/hunt/C20")
    shutil.rmtree(tmp, ignore_errors=True)
if fail:
    print("FAIL: default cache directory is the literal relative path '~/.cache/typhon/topography'")
    sys.exit(1)
print("OK")
