"""C02 / d3: the roll-over of an incompletely written end time uses a fixed
timedelta of the 'next coarser' table entry, which is not the unit that the
missing field carries into:

  * only end_millisecond  -> +10 ms (centisecond) instead of +1 s
  * end_day (+ finer)     -> +31 days instead of the next month
  * end_month (+ finer)   -> +366 days instead of the next year
"""
import sys, os
sys.path.insert(0, "/tmp/hunt/C02")
import warnings
warnings.simplefilter("ignore")
import typhon
assert typhon.__file__.startswith("/tmp/hunt/C02/"), typhon.__file__
from datetime import datetime
from typhon.files import FileSet

D = datetime
cases = [
    # controls that work (hour / minute / second roll over):
    ("/d/{year}{month}{day}_{hour}{minute}-{end_hour}{end_minute}.nc",
     D(2017, 2, 28, 23, 30), D(2017, 3, 1, 0, 10)),
    ("/d/{year}{month}{day}_{hour}{minute}{second}-{end_second}.nc",
     D(2017, 12, 31, 23, 59, 58), D(2018, 1, 1, 0, 0, 3)),
    # end_day in a 31-day month works by accident:
    ("/d/{year}{month}{day}_{hour}-{end_day}{end_hour}.nc",
     D(2017, 1, 31, 22), D(2017, 2, 1, 2)),
    # millisecond: next second
    ("/d/{year}{month}{day}_{hour}{minute}{second}{millisecond}"
     "-{end_millisecond}.nc",
     D(2017, 5, 5, 12, 0, 0, 900000), D(2017, 5, 5, 12, 0, 1, 100000)),
    # end day: next month (February, April: not 31 days long)
    ("/d/{year}{month}{day}_{hour}-{end_day}{end_hour}.nc",
     D(2017, 2, 28, 22), D(2017, 3, 1, 2)),
    ("/d/{year}{month}{day}-{end_day}.nc",
     D(2017, 4, 29), D(2017, 5, 2)),
    # end month + day: next year (2015 is no leap year)
    ("/d/{year}{month}{day}_{hour}-{end_month}{end_day}{end_hour}.nc",
     D(2015, 12, 31, 22), D(2016, 1, 1, 2)),
    ("/d/{year2}{month}{day}-{end_month}{end_day}.nc",
     D(1999, 12, 27), D(2000, 1, 2)),
]
bad = 0
for template, start, end in cases:
    fileset = FileSet(template)
    name = fileset.get_filename((start, end))
    try:
        observed = tuple(fileset.get_info(name).times)
    except Exception as err:  # noqa
        observed = f"{type(err).__name__}: {err}"
    ok = observed == (start, end)
    bad += not ok
    print(f"{'ok  ' if ok else 'FAIL'} {template}\n"
          f"     name         {name}\n"
          f"     expected end {end}\n"
          f"     observed     "
          f"{observed[1] if isinstance(observed, tuple) else observed}"
          + ("" if ok or not isinstance(observed, tuple) or
             observed[1] >= start else "   (before the start!)"))

if bad:
    print(f"\n{bad} of {len(cases)} end times were rolled over to a wrong "
          f"time")
    sys.exit(1)
print("\nall round trips fine")
sys.exit(0)
