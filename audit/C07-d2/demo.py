"""C07 / d2: cart2geodetic returns a geodetic height that is off by more than 1 cm
for near-polar positions (|lat| <= 88 deg) on WGS84 when called with scalars / short arrays."""
import sys, os; sys.path.insert(0, "/tmp/hunt/C07")
import warnings; warnings.simplefilter("ignore")
import numpy as np
import typhon
assert typhon.__file__.startswith("/tmp/hunt/C07/"), typhon.__file__
from typhon import geodesy as g

LD = np.longdouble
PI = LD(3.141592653589793) + LD(1.2246467991473532e-16)
E = g.ellipsoidmodels()


def oracle_geodetic2cart(h, lat, lon, ell):
    """Textbook closed form in extended precision, rounded to double at the end."""
    a, e2 = LD(ell[0]), LD(ell[1])**2
    la, lo = LD(lat) * PI / 180, LD(lon) * PI / 180
    N = a / np.sqrt(1 - e2 * np.sin(la)**2)
    return (float((N + LD(h)) * np.cos(la) * np.cos(lo)),
            float((N + LD(h)) * np.cos(la) * np.sin(lo)),
            float((N * (1 - e2) + LD(h)) * np.sin(la)))


TOL_H, TOL_DEG = 0.01, 1e-7       # 1 cm / 1e-7 deg, as stated in the property
bad = 0
worst = (0.0, None)
cases = 0
for name in ("WGS84", "EllipsoidMars"):
    ell = E[name]
    for lat in (-88.0, -87.5, -86.0, -84.0, 84.0, 86.0, 87.5, 88.0):
        for lon in (-180.0, -42.8, 0.0, 30.0, 180.0):
            for h in (-10000.0, 0.0, 10000.0, 100000.0, 500000.0, 1000000.0):
                x, y, z = oracle_geodetic2cart(h, lat, lon, ell)
                h2, lat2, lon2 = g.cart2geodetic(x, y, z, ell)      # scalar call
                eh = abs(float(h2) - h)
                el = abs(float(lat2) - lat)
                eo = abs((float(lon2) - lon + 180) % 360 - 180)
                cases += 1
                if eh > worst[0]:
                    worst = (eh, (name, h, lat, lon, float(h2), float(lat2)))
                if eh > TOL_H or el > TOL_DEG or eo > TOL_DEG:
                    bad += 1
                    if bad <= 8:
                        print("FAIL %s h=%g lat=%g lon=%g -> observed h=%.6f (err %.4f m), lat err %.2e deg;"
                              " expected |dh| < 0.01 m" % (name, h, lat, lon, h2, eh, el))

# the headline case, also as a 1-element array and through geocentric2geodetic
ell = E["WGS84"]
x, y, z = oracle_geodetic2cart(-10000.0, -88.0, -42.8, ell)
h_arr = g.cart2geodetic(np.array([x]), np.array([y]), np.array([z]), ell)[0][0]
r, latc, lonc = g.cart2geocentric(x, y, z)
h_gc = float(g.geocentric2geodetic(r, latc, lonc, ell)[0])
print("headline WGS84 h=-10000 lat=-88: array call h=%.6f, geocentric2geodetic h=%.6f (expected -10000 +- 0.01)"
      % (h_arr, h_gc))
if abs(h_arr + 10000.0) > TOL_H:
    bad += 1
if abs(h_gc + 10000.0) > TOL_H:
    bad += 1

print("cases: %d, worst height error %.5f m at %r" % (cases, worst[0], worst[1]))
print("violations:", bad)
sys.exit(1 if bad else 0)
