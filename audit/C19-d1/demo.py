import sys, os; sys.path.insert(0, "/tmp/hunt/C19")
import numpy as np, typhon
assert typhon.__file__.startswith("/tmp/hunt/C19/")
from typhon.retrieval.scores import mape

rng = np.random.default_rng(1)
n, k, p = 50, 3, 7.0
truth = rng.uniform(0.5, 5.0, n * k) * rng.choice([-1.0, 1.0], n * k)   # non-zero truth
fails = 0

def check(name, pred, test, expected):
    global fails
    try:
        got = mape(pred, test)
        ok = np.ndim(got) == 0 and abs(got - expected) < 1e-9
        print("%-45s observed %-22r expected %r  %s" % (name, got, expected, "ok" if ok else "VIOLATION"))
    except Exception as e:
        ok = False
        print("%-45s observed %s: %s; expected %r  VIOLATION" % (name, type(e).__name__, e, expected))
    fails += not ok

for label, shape in [("(n,)", (n,)), ("(n,1)", (n, 1)), ("(n,k)", (n, k))]:
    t = truth[: int(np.prod(shape))].reshape(shape)
    check("perfect prediction, both %s" % label, t.copy(), t, 0.0)
    check("+7%% too high, both %s" % label, t * (1 + p / 100), t, p)
    check("-7%% too low, both %s" % label, t * (1 - p / 100), t, p)
# documented use: network output (n,1) against targets (n,)
check("perfect, y_pred (n,1) y_test (n,)", truth[:n].reshape(n, 1).copy(), truth[:n], 0.0)
check("perfect, y_pred (n,) y_test (n,1)", truth[:n].copy(), truth[:n].reshape(n, 1), 0.0)

print("violations:", fails)
sys.exit(1 if fails else 0)
