"""C04 d1: a reused Collocator keeps a stale spatial index when the new points
are merely np.allclose() to the cached ones (shift of ~55 m) -> pairs are lost."""
import sys, os; sys.path.insert(0, "/tmp/hunt/C04")
import warnings; warnings.filterwarnings("ignore")
import numpy as np, xarray as xr
import typhon
assert typhon.__file__.startswith("/tmp/hunt/C04/"), typhon.__file__
from typhon.collocations import Collocator

R = 6378100.0
def cart(lat, lon):
    la, lo = np.deg2rad(lat), np.deg2rad(lon)
    return np.stack([R*np.cos(la)*np.cos(lo), R*np.cos(la)*np.sin(lo), R*np.sin(la)], -1)

def brute(p, s, max_km, max_s):
    out = set()
    c1, c2 = cart(p.lat.values, p.lon.values), cart(s.lat.values, s.lon.values)
    for i in range(c1.shape[0]):
        d = np.sqrt(((c2 - c1[i])**2).sum(1)) / 1000.
        dt = np.abs((s.time.values - p.time.values[i]) / np.timedelta64(1, "s"))
        for j in np.nonzero((d <= max_km) & (dt < max_s))[0]:
            out.add((int(p.id.values[i]), int(s.id.values[j])))
    return out

def mk(t, lat, lon):
    n = len(t)
    return xr.Dataset(
        {"time": ("x", t), "lat": ("x", lat), "lon": ("x", lon), "id": ("x", np.arange(n))},
        coords={"x": np.arange(n)})

def pairs(res):
    if res is None:
        return set()
    p = res["Collocations/pairs"].values
    return set(zip(res["primary/id"].values[p[0]].tolist(), res["secondary/id"].values[p[1]].tolist()))

t = np.datetime64("2020-01-01T00:00:00", "ns") + np.arange(6) * np.timedelta64(1, "s")
lat1 = np.full(6, 80.0); lon1 = 170.0 + np.arange(6)
# five secondary points 0.0100 deg (1.113 km) north of the first five primaries
sec = mk(t[:5], lat1[:5] + 0.0100, lon1[:5])
prim_a = mk(t, lat1, lon1)                 # 1.113 km away  -> no pair within 1.08 km
prim_b = mk(t, lat1 + 0.0005, lon1)        # moved 55 m north: 1.058 km away -> 5 pairs

kw = dict(max_interval=100, max_distance=1.08)
expected = brute(prim_b, sec, 1.08, 100)
fresh = pairs(Collocator().collocate(prim_b, sec, **kw))

c = Collocator()
first = pairs(c.collocate(prim_a, sec, **kw))          # builds the index from prim_a
reused = pairs(c.collocate(prim_b, sec, **kw))         # must not depend on the history

print("brute force pairs for (prim_b, sec):", sorted(expected))
print("fresh Collocator               :", sorted(fresh))
print("Collocator after an earlier call:", sorted(reused))
ok = (first == brute(prim_a, sec, 1.08, 100)) and fresh == expected and reused == expected
if not ok:
    print("DEFECT: result of collocate() depends on the history of the Collocator "
          "(stale cached index was reused for points that moved by 55 m)")
    sys.exit(1)
print("OK")
