"""C13 / d4: expand() raises for a compact collocation dataset that carries
only the mandatory Collocations fields (pairs and group, exactly what
check_collocation_data demands) - i.e. without Collocations/interval and
Collocations/distance; collapse() and concat_collocations() accept it."""
import sys, os; sys.path.insert(0, "/tmp/hunt/C13")
import warnings; warnings.simplefilter("ignore")
import numpy as np, xarray as xr
import typhon
assert typhon.__file__.startswith("/tmp/hunt/C13/"), typhon.__file__
from typhon.collocations import expand, collapse
from typhon.collocations.collocator import (
    check_collocation_data, concat_collocations)

rng = np.random.default_rng(0)
pairs = np.array([[0, 0, 1, 2, 2, 2], [0, 1, 1, 2, 3, 0]])
ds = xr.Dataset()
for g, n in (("primary", 3), ("secondary", 4)):
    ds[f"{g}/time"] = (f"{g}/collocation", np.datetime64("2020-01-01", "ns")
                       + np.arange(n).astype("timedelta64[s]"))
    ds[f"{g}/lat"] = (f"{g}/collocation", rng.uniform(-90, 90, n))
    ds[f"{g}/lon"] = (f"{g}/collocation", rng.uniform(-180, 180, n))
    ds[f"{g}/bt"] = ((f"{g}/collocation", f"{g}/channel"),
                     rng.normal(size=(n, 3)))
ds["Collocations/pairs"] = (
    ("Collocations/group", "Collocations/collocation"), pairs)
ds["Collocations/group"] = ("Collocations/group", ["primary", "secondary"])

check_collocation_data(ds)   # the dataset passes typhon's own validity check
collapse(ds)                 # ... and can be collapsed
both = concat_collocations([ds, ds])   # ... and concatenated

ok = True
for label, data, exp_pairs in (
        ("dataset", ds, pairs),
        ("concat_collocations([dataset, dataset])", both,
         np.hstack([pairs, pairs + [[3], [4]]]))):
    try:
        e = expand(data)
    except Exception as exc:
        print(f"OBSERVED expand({label}): {type(exc).__name__}: {exc}")
        print("EXPECTED: one row per pair with the primary and secondary "
              "values of that pair")
        ok = False
        continue
    for i, g in enumerate(("primary", "secondary")):
        for v in ("lat", "bt"):
            want = data[f"{g}/{v}"].values[exp_pairs[i]]
            got = e[f"{g}/{v}"].transpose("collocation", ...).values
            if got.shape != want.shape or not np.array_equal(got, want):
                print(f"expand({label}): {g}/{v} is wrong"); ok = False
print("OK" if ok else "FAILED")
sys.exit(0 if ok else 1)
