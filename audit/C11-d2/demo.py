"""C11 / d2: a file stored with fileset[s:e] = data is found again under a
different period when the template gives the end time without its month
(or year) and the period crosses the end of a month (year).

FileSet._retrieve_time_coverage() repairs an end date that lies before the
start date by adding a *fixed* 31 days ("one month") or 366 days ("one year").
That is only right after a 31-day month / in a leap year.  The wrong end time
is also what move() uses to name the file under a new template.
"""
import sys, os; sys.path.insert(0, "/tmp/hunt/C11")
import shutil
import tempfile
import warnings
warnings.simplefilter("ignore")
from datetime import datetime

import typhon
assert typhon.__file__.startswith("/tmp/hunt/C11/"), typhon.__file__
from typhon.files import FileSet, FileHandler


def reader(file_info):
    with open(file_info.path) as file:
        return file.read()


def writer(data, file_info):
    with open(file_info.path, "w") as file:
        file.write(data)


def listing(directory):
    return sorted(
        os.path.relpath(os.path.join(root, name), directory)
        for root, _, names in os.walk(directory) for name in names
    )


# template (relative), start, end of the stored period
CASES = [
    ("{year}{month}{day}-{end_month}{end_day}.txt",
     datetime(2018, 12, 30), datetime(2019, 1, 2)),
    ("{year}{month}{day}-{end_day}.txt",
     datetime(2018, 2, 27), datetime(2018, 3, 2)),
    ("{year}/{month}/{day}{hour}-{end_day}{end_hour}.txt",
     datetime(2018, 4, 30, 22), datetime(2018, 5, 1, 2)),
    # controls (these work): 31-day month, leap year, change of day
    ("{year}{month}{day}-{end_day}.txt",
     datetime(2018, 1, 30), datetime(2018, 2, 2)),
    ("{year}{month}{day}-{end_month}{end_day}.txt",
     datetime(2020, 12, 30), datetime(2021, 1, 2)),
    ("{year}{month}{day}{hour}-{end_hour}.txt",
     datetime(2018, 12, 31, 23), datetime(2019, 1, 1, 1)),
]

tmp = tempfile.mkdtemp(prefix="c11_d2_")
failures = 0
try:
    for number, (template, start, end) in enumerate(CASES):
        base = os.path.join(tmp, f"case{number}")
        fileset = FileSet(
            os.path.join(base, "src", template),
            handler=FileHandler(reader=reader, writer=writer),
            worker_type="thread", max_threads=1,
        )
        fileset[start:end] = f"content {number}"
        found = list(fileset.find(no_files_error=False))
        times = [tuple(file.times) for file in found]

        # Moving to a template with complete start and end dates must name
        # the file after its own period:
        target = os.path.join(
            base, "dst",
            "{year}-{month}-{day}T{hour}_{end_year}-{end_month}-{end_day}"
            "T{end_hour}.txt"
        )
        fileset.move(target, copy=True)
        moved = listing(os.path.join(base, "dst"))
        want_name = (f"{start:%Y-%m-%dT%H}_{end:%Y-%m-%dT%H}.txt")

        ok = times == [(start, end)] and moved == [want_name]
        failures += not ok
        print(f"[{'ok' if ok else 'FAIL'}] {template}  stored {start} .. {end}")
        print(f"       found as  {[f'{s} .. {e}' for s, e in times]}")
        print(f"       moved to  {moved}  (expected ['{want_name}'])")
finally:
    shutil.rmtree(tmp, ignore_errors=True)

if failures:
    print(f"OBSERVED: {failures} stored periods are found again (and moved) "
          "with a different end time.")
    print("EXPECTED: every file is found under exactly the period it was "
          "stored with.")
    sys.exit(1)
print("OK: all periods are conserved.")
sys.exit(0)
