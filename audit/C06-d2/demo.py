"""C06 d2: when no pair lies within the radius, query() returns a 1-d array of
shape (0,) with float dtype instead of the documented 2xN (here 2x0) index array."""
import sys, os; sys.path.insert(0, "/tmp/hunt/C06")
import warnings; warnings.simplefilter("ignore")
import numpy as np, typhon
assert typhon.__file__.startswith("/tmp/hunt/C06/")
from typhon.geographical import GeoIndex

lat = np.array([10., 20., 30.]); lon = np.array([0., 5., 179.])
lq = np.array([-40., -50.]); loq = np.array([100., -100.])
bad = 0
for metric in [None, "haversine"]:
    for tree in ["Ball", "KD"]:
        if metric == "haversine" and tree == "KD":
            continue  # see d1
        for rd in [True, False]:
            np.random.seed(0)
            idx = GeoIndex(lat, lon, metric=metric, tree_class=tree)
            res = idx.query(lq, loq, "5 km", return_distance=rd)
            pairs = res[0] if rd else res
            msg = f"metric={metric} tree={tree} return_distance={rd}: pairs shape={pairs.shape} dtype={pairs.dtype}"
            try:
                # the usage pattern from the class docstring
                matched_build = lat[pairs[0]]; matched_query = lq[pairs[1]]
                ok = (pairs.shape == (2, 0) and matched_build.size == 0
                      and matched_query.size == 0)
                if rd:
                    ok = ok and len(res[1]) == 0
                print(msg, "OK" if ok else "WRONG (expected shape (2, 0))")
            except Exception as e:
                ok = False
                print(msg, f"-> lat[pairs[0]] raises {type(e).__name__}: {e}; "
                           "expected an empty 2x0 integer array")
            bad += not ok
# a non-empty result for comparison
pairs, d = GeoIndex(lat, lon).query(np.array([10.]), np.array([0.]), "5 km")
print("non-empty result:", pairs.shape, pairs.dtype)
if bad:
    print("DEFECT: empty result is not a (2, 0) pair array")
    sys.exit(1)
print("ok")
