"""C15 / d2: cache documents with the wrong JSON type for "attr" or "path"
are accepted without a warning; the FileInfo objects built from them carry
attributes that are not dictionaries (or paths that are not strings), and
find() returns them instead of the real file information."""
import sys, os; sys.path.insert(0, "/tmp/hunt/C15")
import warnings; warnings.simplefilter("ignore", SyntaxWarning)
import typhon; assert typhon.__file__.startswith("/tmp/hunt/C15/"), typhon.__file__
import atexit, json, shutil, tempfile
from typhon.files import FileSet

tmp = tempfile.mkdtemp(prefix="tmp_", dir=os.path.dirname(os.path.abspath(__file__)))
failures = []
try:
    data = os.path.join(tmp, "data"); os.makedirs(data)
    paths = []
    for name in ("A-2018010100.txt", "B-2018010112.txt"):
        p = os.path.join(data, name); open(p, "w").write("x"); paths.append(p)
    template = os.path.join(data, "{sat}-{year}{month}{day}{hour}.txt")
    cache = os.path.join(tmp, "cache.json")
    T = "2018-01-01T00:00:00.000000"

    ref = [(f.path, f.times, f.attr) for f in FileSet(template).find()]
    ref_filtered = [f.path for f in FileSet(template).find(filters={"!sat": "B"})]
    print("find() without cache:", ref)

    cases = [
        ("attr is a string", [{"path": paths[0], "times": [T, T], "attr": "s"}]),
        ("attr is a list",   [{"path": paths[0], "times": [T, T], "attr": [1, 2]}]),
        ("attr is a number", [{"path": paths[0], "times": [T, T], "attr": 7}]),
        ("path is a number", [{"path": 5, "times": [T, T], "attr": {}}]),
        ("path is null",     [{"path": None, "times": [T, T], "attr": {}}]),
    ]
    for label, doc in cases:
        with open(cache, "w") as f:
            json.dump(doc, f)
        with warnings.catch_warnings(record=True) as w:
            warnings.simplefilter("always")
            fs = FileSet(template, info_cache=cache)
        loaded = {k: (v.path, v.attr) for k, v in fs.info_cache.items()}
        print(f"\n[{label}] warnings={len(w)} info_cache={loaded}")
        if not w:
            failures.append(f"{label}: no warning")
        if fs.info_cache:
            failures.append(f"{label}: cache not empty: {loaded}")
        try:
            got = [(f.path, f.times, f.attr) for f in fs.find()]
            got_filtered = [f.path for f in fs.find(filters={"!sat": "B"})]
        except Exception as e:
            print(f"[{label}] find() raised {e!r}")
            failures.append(f"{label}: find() raised {type(e).__name__}")
        else:
            if got != ref or got_filtered != ref_filtered:
                print(f"[{label}] find() with cache: {got}")
                failures.append(f"{label}: find() differs from the answer without cache")

    # Informational only (not part of the exit status): wrong top-level type
    for doc in ("{}", '""'):
        open(cache, "w").write(doc)
        with warnings.catch_warnings(record=True) as w:
            warnings.simplefilter("always")
            fs = FileSet(template, info_cache=cache)
        print(f"\n[note] top-level document {doc}: warnings={len(w)} (cache empty: {not fs.info_cache})")
finally:
    atexit._clear()
    shutil.rmtree(tmp, ignore_errors=True)

print()
if failures:
    print("OBSERVED (defect):"); [print("  -", x) for x in failures]
    print("EXPECTED: a warning, an empty cache and find() == the answer without cache")
    sys.exit(1)
print("OK: wrong JSON types for path / attr give a warning and an empty cache")
