"""C02 / d1: an end time written as {end_doy} (without {end_year}) cannot be parsed.

The end is written with fewer fields than the start (no end year); the
property says the missing fields are taken from the start.  Instead get_info
raises KeyError('year').
"""
import sys, os
sys.path.insert(0, "/tmp/hunt/C02")
import warnings
warnings.simplefilter("ignore")
import typhon
assert typhon.__file__.startswith("/tmp/hunt/C02/"), typhon.__file__
from datetime import datetime
from typhon.files import FileSet

cases = [
    # template, start, end
    ("/data/{year}{doy}_{hour}{minute}-{end_doy}_{end_hour}{end_minute}.nc",
     datetime(2016, 12, 30, 23, 10), datetime(2016, 12, 31, 1, 5)),
    ("/data/{year}/{doy}/{hour}-{end_doy}{end_hour}.nc",
     datetime(2017, 3, 1, 22), datetime(2017, 3, 2, 3)),
    ("/data/{year2}{month}{day}{hour}-{end_doy}{end_hour}.nc",
     datetime(1999, 2, 28, 22), datetime(1999, 3, 1, 3)),
    # leap day of year 366
    ("/data/{year}{doy}-{end_doy}.nc",
     datetime(2016, 12, 30), datetime(2016, 12, 31)),
]

bad = 0
for template, start, end in cases:
    fileset = FileSet(template)
    name = fileset.get_filename((start, end))
    try:
        info = fileset.get_info(name)
        observed = tuple(info.times)
    except Exception as err:  # noqa
        observed = f"{type(err).__name__}: {err}"
    ok = observed == (start, end)
    bad += not ok
    print(f"{'ok  ' if ok else 'FAIL'} {template}\n"
          f"     name     {name}\n"
          f"     expected {(start, end)}\n"
          f"     observed {observed}")

if bad:
    print(f"\n{bad} of {len(cases)} templates with an end_doy but no end_year "
          f"could not be parsed back")
    sys.exit(1)
print("\nall round trips fine")
sys.exit(0)
