"""fresnel(): beyond the critical angle (n1 > n2, real) the documented result
is Rv = Rh = 1 ("Rv and Rh are here set to 1"); the code returns NaN."""
import sys, os; sys.path.insert(0, "/tmp/hunt/C08")
import warnings; warnings.simplefilter("ignore")
import numpy as np
import typhon
assert typhon.__file__.startswith("/tmp/hunt/C08/"), typhon.__file__
from typhon.physics import em

fail = 0

# scalar: glass -> air, critical angle 41.8 deg
Rv, Rh = em.fresnel(1.5, 1.0, 60.0)
print("fresnel(1.5, 1.0, 60): Rv=%r Rh=%r   expected |Rv| = |Rh| = 1" % (Rv, Rh))
if not (np.abs(Rv) <= 1 and np.abs(Rh) <= 1 and np.isclose(np.abs(Rv), 1)
        and np.isclose(np.abs(Rh), 1)):
    fail += 1

# array of incidence angles: the elements below the critical angle must be
# untouched, the ones above must have magnitude 1
theta = np.array([0.0, 30.0, 41.0, 42.0, 60.0, 90.0])
Rv, Rh = em.fresnel(1.5, 1.0, theta)
print("theta =", theta)
print("|Rv|  =", np.abs(Rv))
print("|Rh|  =", np.abs(Rh))
s = 1.5 * np.sin(np.deg2rad(theta)) / 1.0
beyond = s > 1
if np.shape(Rv) != theta.shape or np.shape(Rh) != theta.shape:
    fail += 1
else:
    if not (np.allclose(np.abs(Rv)[beyond], 1) and np.allclose(np.abs(Rh)[beyond], 1)):
        print("  -> beyond the critical angle |R| is not 1 (NaN)")
        fail += 1
    # brute-force Fresnel below the critical angle
    c1 = np.cos(np.deg2rad(theta[~beyond])); c2 = np.sqrt(1 - s[~beyond] ** 2)
    rv = (1.0 * c1 - 1.5 * c2) / (1.0 * c1 + 1.5 * c2)
    rh = (1.5 * c1 - 1.0 * c2) / (1.5 * c1 + 1.0 * c2)
    if not (np.allclose(Rv[~beyond], rv) and np.allclose(Rh[~beyond], rh)):
        print("  -> values below the critical angle changed")
        fail += 1

# |Rv|, |Rh| <= 1 for all real n1, n2 and all angles 0..90
rng = np.random.default_rng(0)
n1 = rng.uniform(0.5, 3, 2000); n2 = rng.uniform(0.5, 3, 2000)
th = rng.uniform(0, 90, 2000)
Rv, Rh = em.fresnel(n1, n2, th)
nbad = int(np.sum(~(np.abs(Rv) <= 1 + 1e-12) | ~(np.abs(Rh) <= 1 + 1e-12)))
print("random real n1, n2, theta: %d of 2000 have not |Rv|,|Rh| <= 1 (expected 0)" % nbad)
if nbad:
    fail += 1

# a NaN input must stay NaN (not be mistaken for total reflection)
Rv, Rh = em.fresnel(1.0, 1.5, np.nan)
if not (np.isnan(Rv) and np.isnan(Rh)):
    print("NaN incidence angle no longer gives NaN"); fail += 1

print("FAIL" if fail else "OK")
sys.exit(1 if fail else 0)
