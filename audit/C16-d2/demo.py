"""C16 / d2: a black-list filter ("!name") is matched as a prefix, so
find_closest drops files that pass the filter."""
import sys, os; sys.path.insert(0, "/tmp/hunt/C16")
import warnings; warnings.simplefilter("ignore")
import typhon
assert typhon.__file__.startswith("/tmp/hunt/C16/")
import tempfile, shutil
from typhon.files import FileSet
from typhon.files.fileset import NoFilesError


def touch(p):
    os.makedirs(os.path.dirname(p), exist_ok=True)
    open(p, "w").close()


def closest(fs, t, **kw):
    try:
        r = fs.find_closest(t, **kw)
    except NoFilesError:
        return "NoFilesError"
    return None if r is None else os.path.basename(r.path)


base = tempfile.mkdtemp(prefix="c16d2_")
bad = 0
try:
    names = ["noaa1_20160101.nc", "noaa18_20160102.nc", "noaa19_20160103.nc"]
    for n in names:
        touch(os.path.join(base, n))
    fs = FileSet(os.path.join(base, "{sat}_{year}{month}{day}.nc"))

    def oracle(t, passes):
        """nearest discrete file among those passing the filter"""
        from datetime import datetime
        t = datetime.strptime(t, "%Y-%m-%d")
        cand = [n for n in names if passes(n.split("_")[0])]
        if not cand:
            return "NoFilesError"
        key = lambda n: abs(datetime.strptime(n.split("_")[1][:8], "%Y%m%d") - t)
        return min(cand, key=key)

    cases = [
        # the white list shows what the value 'noaa1' means: exactly noaa1
        ("2016-01-03", {"sat": "noaa1"}, lambda s: s == "noaa1"),
        # so the black list must only remove noaa1 ...
        ("2016-01-03", {"!sat": "noaa1"}, lambda s: s != "noaa1"),
        ("2016-01-01", {"!sat": "noaa1"}, lambda s: s != "noaa1"),
        ("2016-01-01", {"!sat": ["noaa1", "metop"]},
         lambda s: s not in ("noaa1", "metop")),
        # control cases that already work
        ("2016-01-03", {"!sat": "noaa19"}, lambda s: s != "noaa19"),
        ("2016-01-02", {"!sat": "noaa1."}, lambda s: s == "noaa1"),
    ]
    for t, filters, passes in cases:
        exp = oracle(t, passes)
        got = closest(fs, t, filters=filters)
        ok = got == exp
        bad += not ok
        print(f"{'ok ' if ok else 'BAD'} t={t} filters={filters} "
              f"observed={got} expected={exp}")
finally:
    shutil.rmtree(base)

sys.exit(1 if bad else 0)
