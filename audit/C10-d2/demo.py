"""C10 / d2: map/imap/collect over `files=[<filename strings>]` with
on_content=True never return.

The documentation of `files` says "The list can contain filenames or lists
(bundles) of filenames" and FileSet.read() accepts a filename string.  But the
per-file wrapper takes everything that is not a FileInfo for a bundle and
calls fileset.collect(files=<the string>): the string is iterated character
by character, every character is again "a bundle" ... an endless recursion in
which every level starts a new thread pool and blocks one of its threads.

The call is made in a child process guarded by a watchdog (thread count and
time), because it does not come back by itself.
"""
import sys, os; sys.path.insert(0, "/tmp/hunt/C10")
import shutil
import subprocess
import tempfile
import threading
import time
import warnings

import typhon
assert typhon.__file__.startswith("/tmp/hunt/C10/"), typhon.__file__
from typhon.files import FileSet, FileHandler
from typhon.files.handlers import FileInfo

THREAD_LIMIT = 150
TIME_LIMIT = 20


def reader(file_info, **kwargs):
    with open(file_info.path) as file:
        return int(file.read())


def make_fileset(tmp):
    return FileSet(
        os.path.join(tmp, "{year}-{month}-{day}.txt"),
        handler=FileHandler(reader=reader), name="d2",
    )


def child(tmp, api):
    warnings.simplefilter("ignore")
    fileset = make_fileset(tmp)
    infos = list(fileset.find())
    paths = [info.path for info in infos]

    def watchdog():
        start = time.time()
        while True:
            time.sleep(0.05)
            count = threading.active_count()
            if count > THREAD_LIMIT or time.time() - start > TIME_LIMIT:
                print(f"RUNAWAY: {count} live threads after "
                      f"{time.time() - start:.1f} s, no result", flush=True)
                os._exit(3)

    threading.Thread(target=watchdog, daemon=True).start()
    if api == "map":
        result = fileset.map(
            abs, files=paths, on_content=True, worker_type="thread",
            return_info=True)
        ok = [r[1] for r in result] == [0, 1, 2] \
            and all(isinstance(r[0], FileInfo) for r in result) \
            and [r[0].path for r in result] == paths
        result = [(os.path.basename(str(r[0])), r[1]) for r in result]
    elif api == "imap":
        result = list(fileset.imap(
            abs, files=paths, on_content=True, worker_type="thread",
            max_workers=2))
        ok = result == [0, 1, 2]
    elif api == "collect":
        result = fileset.collect(files=paths)
        ok = result == [0, 1, 2]
    elif api == "bundle":
        result = fileset.collect(files=[paths[0], paths[1:]])
        ok = result == [0, [1, 2]]
    print("RESULT:", result, flush=True)
    os._exit(0 if ok else 4)


def main():
    tmp = tempfile.mkdtemp(prefix="c10d2_")
    bad = 0
    try:
        for i in range(3):
            with open(os.path.join(tmp, f"2018-01-{i+1:02d}.txt"), "w") as f:
                f.write(str(i))
        fileset = make_fileset(tmp)
        paths = [info.path for info in fileset.find()]
        print("read() takes the filename strings:",
              [fileset.read(path) for path in paths])
        print("map(files=<strings>) without on_content:",
              [os.path.basename(p) for p in fileset.map(
                  os.fspath, files=paths, worker_type="thread")])
        expected = {
            "map": "[('2018-01-01.txt', 0), ('2018-01-02.txt', 1), "
                   "('2018-01-03.txt', 2)]",
            "imap": "[0, 1, 2]", "collect": "[0, 1, 2]",
            "bundle": "[0, [1, 2]]",
        }
        for api in ("map", "imap", "collect", "bundle"):
            try:
                proc = subprocess.run(
                    [sys.executable, "-W", "ignore", os.path.abspath(__file__),
                     "--child", tmp, api],
                    capture_output=True, text=True, timeout=TIME_LIMIT + 20,
                )
                out = (proc.stdout.strip().splitlines() or ["<no output>"])[-1]
                code = proc.returncode
            except subprocess.TimeoutExpired:
                out, code = "TIMEOUT", -1
            ok = code == 0
            bad += not ok
            print(f"[{'ok ' if ok else 'BAD'}] {api}(files=<filename strings>"
                  f", on_content=True):\n      observed {out}\n"
                  f"      expected RESULT: {expected[api]}")
    finally:
        shutil.rmtree(tmp, ignore_errors=True)

    if bad:
        print(f"DEFECT: {bad} call(s) over a list of filenames recursed "
              f"without end (one new thread pool per level) instead of "
              f"returning one result per file")
        return 1
    print("OK")
    return 0


if __name__ == "__main__":
    if len(sys.argv) > 1 and sys.argv[1] == "--child":
        child(sys.argv[2], sys.argv[3])
    sys.exit(main())
