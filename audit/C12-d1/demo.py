"""C12 / d1: a failure while compress_as writes the archive leaves a partial
target file behind and destroys an already existing target."""
import sys, os; sys.path.insert(0, "/tmp/hunt/C12")
import warnings; warnings.simplefilter("ignore")
import typhon
assert typhon.__file__.startswith("/tmp/hunt/C12/"), typhon.__file__
import shutil
import tempfile
from unittest import mock
from typhon.files import compress


class Boom(Exception):
    pass


def snapshot(d):
    out = {}
    for f in sorted(os.listdir(d)):
        with open(os.path.join(d, f), "rb") as fh:
            out[f] = fh.read()
    return out


def failing_copy(fsrc, fdst, length=0):
    # an I/O error (disk full, quota, ...) after the first bytes were written
    fdst.write(fsrc.read(10))
    raise Boom("injected fault during the copy in compress_as")


problems = []
OLD = b"previous, valid content of the target"


def run(label, fmt, existing, body, patch_copy):
    root = tempfile.mkdtemp(prefix="c12d1_")
    try:
        tdir = os.path.join(root, "tmp"); os.mkdir(tdir)
        odir = os.path.join(root, "out"); os.mkdir(odir)
        name = os.path.join(odir, "data.v1." + fmt)
        if existing:
            with open(name, "wb") as fh:
                fh.write(OLD)
        before = snapshot(odir)
        raised = None
        try:
            if patch_copy:
                with mock.patch.object(shutil, "copyfileobj", failing_copy):
                    with compress(name, tmpdir=tdir) as tfile:
                        body(tfile)
            else:
                with compress(name, tmpdir=tdir) as tfile:
                    body(tfile)
        except Exception as exc:
            raised = exc
        after = snapshot(odir)
        if raised is None:
            problems.append("%s: no exception propagated" % label)
        if os.listdir(tdir):
            problems.append("%s: tmpdir not empty: %r" % (label, os.listdir(tdir)))
        if after != before:
            problems.append(
                "%s: target directory changed although the compress block "
                "failed with %r\n      before: %s\n      after : %s"
                % (label, raised,
                   {k: len(v) for k, v in before.items()},
                   {k: len(v) for k, v in after.items()}))
    finally:
        shutil.rmtree(root, ignore_errors=True)


def write_body(tfile):
    with open(tfile, "wb") as fh:
        fh.write(os.urandom(100000))


def no_file_body(tfile):
    # the writer produced nothing (no patching at all in this scenario)
    pass


for fmt in ("gz", "bz2", "zip", "xz"):
    for existing in (False, True):
        run("fmt=%s existing=%s copy-fault" % (fmt, existing),
            fmt, existing, write_body, True)
for existing in (False, True):
    run("fmt=zip existing=%s writer-created-no-file (unpatched)" % existing,
        "zip", existing, no_file_body, False)

print("expected: an exception while compressing creates no target file and "
      "leaves an existing one byte-for-byte as it was")
if problems:
    print("observed: %d violations" % len(problems))
    for p in problems:
        print("  -", p)
    sys.exit(1)
print("observed: target directory untouched in all scenarios")
sys.exit(0)
