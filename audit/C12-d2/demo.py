"""C12 / d2: a file written with compress(name, fmt=...) cannot be read back
with decompress: decompress has no way to be told the format and silently
passes the compressed bytes through."""
import sys, os; sys.path.insert(0, "/tmp/hunt/C12")
import warnings; warnings.simplefilter("ignore")
import typhon
assert typhon.__file__.startswith("/tmp/hunt/C12/"), typhon.__file__
import bz2, gzip, lzma, zipfile
import inspect
import shutil
import tempfile
from typhon.files import compress, decompress


def stdlib_read(path, fmt):
    if fmt == "gz":
        with gzip.open(path) as fh: return fh.read()
    if fmt == "bz2":
        with bz2.open(path) as fh: return fh.read()
    if fmt == "xz":
        with lzma.open(path) as fh: return fh.read()
    with zipfile.ZipFile(path) as z:
        (member,) = z.namelist()
        return z.read(member)


data = bytes(range(256)) * 40
has_fmt = "fmt" in inspect.signature(decompress).parameters
problems = []
for fmt in ("gz", "bz2", "zip", "xz"):
    for nm in ("data.bin", "data", "data.v1.2"):
        root = tempfile.mkdtemp(prefix="c12d2_")
        try:
            tdir = os.path.join(root, "tmp"); os.mkdir(tdir)
            name = os.path.join(root, nm)
            with compress(name, fmt=fmt, tmpdir=tdir) as tfile:
                with open(tfile, "wb") as fh:
                    fh.write(data)
            # the advertised fmt= argument did compress the file ...
            assert stdlib_read(name, fmt) == data
            # ... now read it back
            tries = []
            with decompress(name, tmpdir=tdir) as d:
                with open(d, "rb") as fh:
                    tries.append(("decompress(name)", fh.read()))
            if has_fmt:
                with decompress(name, tmpdir=tdir, fmt=fmt) as d:
                    with open(d, "rb") as fh:
                        tries.append(("decompress(name, fmt=%r)" % fmt, fh.read()))
            if not any(got == data for _, got in tries):
                problems.append(
                    "compress(%r, fmt=%r): %s returned %d bytes starting %r, "
                    "expected the %d bytes written"
                    % (nm, fmt, " / ".join(t for t, _ in tries),
                       len(tries[-1][1]), tries[-1][1][:6], len(data)))
            if os.listdir(tdir):
                problems.append("tmpdir not empty: %r" % os.listdir(tdir))
        except Exception as exc:
            problems.append("compress(%r, fmt=%r) round trip raised %r" % (nm, fmt, exc))
        finally:
            shutil.rmtree(root, ignore_errors=True)

print("expected: for all four formats 'via suffix or fmt=', what is written in "
      "compress(name, fmt=...) is read back identically through decompress")
if problems:
    print("observed: %d violations (decompress%s accepts fmt=)"
          % (len(problems), "" if has_fmt else " does not"))
    for p in problems:
        print("  -", p)
    sys.exit(1)
print("observed: identical bytes for every format/name")
sys.exit(0)
