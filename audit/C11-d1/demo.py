"""C11 / d1: integer variables do not survive a write/read cycle through a
FileSet with the (suffix-chosen) NetCDF4 handler.

NetCDF4.read() hands the *masked* arrays of netCDF4-python to xarray.  Every
integer that equals the netCDF default fill value of its type (255 for uint8,
65535 for uint16, -127 for int8, -32767 for int16, ...) is therefore masked
and comes back as NaN, and all integer variables (also coordinates) come back
as floats, so that int64 values beyond 2**53 are changed as well.
"""
import sys, os; sys.path.insert(0, "/tmp/hunt/C11")
import shutil
import subprocess
import tempfile
import warnings
warnings.simplefilter("ignore")

import typhon
assert typhon.__file__.startswith("/tmp/hunt/C11/"), typhon.__file__

CHILD = r'''
import sys, os; sys.path.insert(0, "/tmp/hunt/C11")
import warnings; warnings.simplefilter("ignore")
import numpy as np, xarray as xr
import typhon
assert typhon.__file__.startswith("/tmp/hunt/C11/")
from typhon.files import FileSet

base = sys.argv[1]
fileset = FileSet(os.path.join(base, "{year}", "{month}", "{day}.nc"),
                  max_threads=1)

data = xr.Dataset(
    {
        "image": ("x", np.array([0, 1, 254, 255], dtype="uint8")),
        "counts": ("x", np.array([0, 1, 65534, 65535], dtype="uint16")),
        "small": ("x", np.array([-128, -127, 0, 127], dtype="int8")),
        "big": ("x", np.array([1, 2, 3, 2**53 + 1], dtype="int64")),
    },
    coords={"x": np.array([10, 20, 30, 40], dtype="int32")},
)
fileset["2018-01-01":"2018-01-02"] = data
back = fileset["2018-01-01"]

bad = 0
for name in ["image", "counts", "small", "big", "x"]:
    want, got = data[name].values, back[name].values
    same = (
        got.dtype == want.dtype
        and got.shape == want.shape
        and [int(v) for v in want] == [
            (int(v) if np.isfinite(v) else None) for v in got]
    )
    print(f"{name:7s} written {want.dtype}{want.tolist()}  "
          f"read {got.dtype}{got.tolist()}  -> {'ok' if same else 'DIFFERENT'}")
    bad += not same
sys.exit(1 if bad else 0)
'''

tmp = tempfile.mkdtemp(prefix="c11_d1_")
try:
    # NetCDF work is done in a child process (the library is not thread safe)
    result = subprocess.run([sys.executable, "-c", CHILD, tmp])
finally:
    shutil.rmtree(tmp, ignore_errors=True)

if result.returncode != 0:
    print("OBSERVED: integer data written with fileset[s:e] = data does not "
          "read back equal (NaN for 255 / 65535 / -127, floats instead of "
          "integers, 2**53+1 changed).")
    print("EXPECTED: every variable reads back with the values and the "
          "integer type it was written with.")
    sys.exit(1)
print("OK: integer variables read back equal.")
sys.exit(0)
