"""C07 / d3: cartposlos2geocentric does not return the original azimuth angle for lines of
sight that point (almost) due north or due south - the azimuth is recovered with arccos,
which loses half of the significant digits near aa = 0 / 180."""
import sys, os; sys.path.insert(0, "/tmp/hunt/C07")
import warnings; warnings.simplefilter("ignore")
import numpy as np
import typhon
assert typhon.__file__.startswith("/tmp/hunt/C07/"), typhon.__file__
from typhon import geodesy as g

LD = np.longdouble
PI = LD(3.141592653589793) + LD(1.2246467991473532e-16)
TOL = 1e-7      # degrees, as stated in the property


def wrap(d):
    return (d + 180.0) % 360.0 - 180.0


def oracle_poslos2cart(r, lat, lon, za, aa):
    """East-north-up textbook form in extended precision, rounded to double."""
    la, lo, z, a = (np.asarray(v, LD) * PI / 180 for v in (lat, lon, za, aa))
    r = np.asarray(r, LD)
    up = np.array([np.cos(la) * np.cos(lo), np.cos(la) * np.sin(lo), np.sin(la)])
    north = np.array([-np.sin(la) * np.cos(lo), -np.sin(la) * np.sin(lo), np.cos(la)])
    east = np.array([-np.sin(lo), np.cos(lo), np.zeros_like(lo)])
    los = np.cos(z) * up + np.sin(z) * (np.cos(a) * north + np.sin(a) * east)
    pos = r * up
    return [np.asarray(v, float) for v in (*pos, *los)]


rng = np.random.default_rng(7)
n = 20000
r = rng.uniform(6.36e6, 7.4e6, n)
lat = rng.uniform(-88, 88, n)
lon = rng.uniform(-180, 180, n)
za = rng.uniform(30, 150, n)        # far away from zenith / nadir

bad = 0
for label, aa0 in [("due north   aa=0", 0.0), ("due south   aa=180", 180.0),
                   ("aa=1e-6", 1e-6), ("aa=-1e-5", -1e-5), ("aa=179.99999", 179.99999),
                   ("control aa=37.5", 37.5), ("control aa=-90", -90.0)]:
    aa = np.full(n, aa0)
    for route, cart in (("oracle   ", oracle_poslos2cart(r, lat, lon, za, aa)),
                        ("typhon fw", g.geocentricposlos2cart(r, lat, lon, za, aa))):
        r2, lat2, lon2, za2, aa2 = g.cartposlos2geocentric(*cart)
        e_aa = np.abs(wrap(aa2 - aa))
        e_za = np.abs(za2 - za)
        i = int(np.nanargmax(e_aa))
        ok = (not np.isnan(aa2).any()) and e_aa[i] <= TOL and e_za.max() <= TOL
        print("%s %-20s [%s] max |aa - aa0| = %.3e deg (share above 1e-7: %.1f %%), max |za - za0| = %.1e; "
              "worst at lat=%.3f lon=%.3f za=%.3f -> aa=%.10f" % (
                  "ok  " if ok else "FAIL", label, route, e_aa[i], 100 * np.mean(e_aa > TOL),
                  e_za.max(), lat[i], lon[i], za[i], aa2[i]))
        bad += not ok

# one concrete scalar example
out = g.cartposlos2geocentric(*g.geocentricposlos2cart(7108157.5, 0.7120874781339808,
                                                       -129.30117116222144, 148.70769899970497, 0.0))
print("scalar example: aa returned %.10e, expected 0 (+- 1e-7)" % out[4][0])
bad += abs(out[4][0]) > TOL

print("violations:", bad)
sys.exit(1 if bad else 0)
