"""C18 d2: a very large / infinite x2_max returns NaN instead of the
unrestricted estimate.

x2_max >= 0 may only leave out entries whose chi-square exceeds x2_max.  With
x2_max = inf (or any value whose double overflows, e.g. 1e308) no entry can be
left out, so predict / cdf / predict_quantiles must equal the unrestricted mode
(x2_max < 0).  BMCI gets its principal axis from numpy.linalg.eig, whose output
is complex here; in complex arithmetic 2*inf/(e+0j) is (inf+nanj), its sqrt is
NaN, and searchsorted puts both NaN bounds at the end of the database: the
window is empty and the result NaN.
"""
import sys, os; sys.path.insert(0, "/tmp/hunt/C18")
import warnings
import numpy as np
import typhon
assert typhon.__file__.startswith("/tmp/hunt/C18/"), typhon.__file__
from typhon.retrieval.bmci import BMCI

warnings.simplefilter("ignore")
failures = []


def check(name, got, expected):
    got = np.asarray(got, dtype=float).ravel()
    expected = np.asarray(expected, dtype=float).ravel()
    ok = got.shape == expected.shape and np.allclose(got, expected, rtol=1e-12, atol=1e-12)
    print("%-44s observed %-38s expected %-38s %s"
          % (name, np.array2string(got, precision=5), np.array2string(expected, precision=5),
             "ok" if ok else "VIOLATION"))
    if not ok:
        failures.append(name)


rng = np.random.default_rng(0)
taus = [0.1, 0.5, 0.9]
for label, s in [("1 ch", np.array([[2.0]])),
                 ("2 ch correlated", np.array([[2.0, 0.5], [0.5, 1.0]])),
                 ("4 ch diagonal", np.diag([4.0, 1.0, 0.25, 9.0]))]:
    m = s.shape[0]
    y = rng.normal(size=(40, m))
    x = rng.normal(size=40)
    b = BMCI(y, x, s)
    obs = y[3:4] + 0.1

    # brute-force oracle, whole database
    dy = y - obs
    w = np.exp(-0.5 * np.einsum("ij,jk,ik->i", dy, np.linalg.inv(s), dy))
    mean = (w * x).sum() / w.sum()
    std = np.sqrt((w * (x - mean) ** 2).sum() / w.sum())
    q_ref = b.predict_quantiles(obs, taus)           # unrestricted mode
    _, F_ref = b.cdf(obs[0])

    for x2 in (np.inf, 1e308):
        xm, xs = b.predict(obs, x2_max=x2)
        check("%s, x2_max=%g: mean" % (label, x2), xm, [mean])
        check("%s, x2_max=%g: std" % (label, x2), xs, [std])
        check("%s, x2_max=%g: quantiles" % (label, x2),
              b.predict_quantiles(obs, taus, x2_max=x2), q_ref)
        _, F = b.cdf(obs[0], x2_max=x2)
        check("%s, x2_max=%g: cdf size, last" % (label, x2),
              [np.size(F), np.ravel(F)[-1]], [40, 1.0])

if failures:
    print("\nDEFECT: x2_max = inf / 1e308 empties the candidate window (NaN "
          "bounds); %d checks violated" % len(failures))
    sys.exit(1)
print("\nall checks passed")
sys.exit(0)
