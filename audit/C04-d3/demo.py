"""C04 d3: points on a scan-line x scan-position grid: collocate() raises a
ValueError in _create_return as soon as there is at least one pair."""
import sys, os; sys.path.insert(0, "/tmp/hunt/C04")
import warnings; warnings.filterwarnings("ignore")
import numpy as np, xarray as xr
import typhon
assert typhon.__file__.startswith("/tmp/hunt/C04/"), typhon.__file__
from typhon.collocations import Collocator

R = 6378100.0
def cart(lat, lon):
    la, lo = np.deg2rad(lat), np.deg2rad(lon)
    return np.stack([R*np.cos(la)*np.cos(lo), R*np.cos(la)*np.sin(lo), R*np.sin(la)], -1)

t0 = np.datetime64("2020-01-01T00:00:00", "ns")
def grid(nl, npos, seed):
    r = np.random.default_rng(seed)
    t = t0 + r.integers(0, 3600, nl) * np.timedelta64(1, "s")       # unsorted scan-line times
    lat = r.uniform(-2, 2, (nl, npos)); lon = r.uniform(-2, 2, (nl, npos))
    lat[r.random((nl, npos)) < 0.1] = np.nan
    ds = xr.Dataset(
        {"time": ("scnline", t),
         "lat": (("scnline", "scnpos"), lat), "lon": (("scnline", "scnpos"), lon),
         "id": (("scnline", "scnpos"), np.arange(nl * npos).reshape(nl, npos))},
        coords={"scnline": np.arange(nl) * 2 + 5, "scnpos": np.arange(npos)})
    return ds, (np.repeat(t, npos), lat.ravel(), lon.ravel())

def flat(n, seed):
    r = np.random.default_rng(seed)
    t = t0 + r.integers(0, 3600, n) * np.timedelta64(1, "s")
    lat = r.uniform(-2, 2, n); lon = r.uniform(-2, 2, n)
    ds = xr.Dataset({"time": ("x", t), "lat": ("x", lat), "lon": ("x", lon), "id": ("x", np.arange(n))},
                    coords={"x": np.arange(n)})
    return ds, (t, lat, lon)

def brute(a, b, max_km, max_s):
    (t1, la1, lo1), (t2, la2, lo2) = a, b
    c1, c2 = cart(la1, lo1), cart(la2, lo2)
    out = {}
    for i in range(len(t1)):
        d = np.sqrt(((c2 - c1[i])**2).sum(1)) / 1000.         # NaN where a position is NaN
        dt = np.abs((t2 - t1[i]) / np.timedelta64(1, "s"))
        for j in np.nonzero((d <= max_km) & (dt < max_s))[0]:
            out[(i, int(j))] = (dt[j], d[j])
    return out

def got(res):
    if res is None:
        return {}
    p = res["Collocations/pairs"].values
    iv = res["Collocations/interval"].values / np.timedelta64(1, "s")
    return {(int(i), int(j)): (float(x), float(y)) for i, j, x, y in zip(
        res["primary/id"].values[p[0]], res["secondary/id"].values[p[1]],
        iv, res["Collocations/distance"].values)}

g1, a = grid(20, 4, 1); g2, b = grid(15, 3, 2); f3, c = flat(30, 3)
bad = 0
for label, p, s, pa, sa in [("grid x grid", g1, g2, a, b), ("grid x flat", g1, f3, a, c),
                            ("flat x grid", f3, g2, c, b)]:
    exp = brute(pa, sa, 80, 600)
    try:
        res = got(Collocator().collocate(p, s, max_interval=600, max_distance=80))
        good = set(res) == set(exp) and all(
            abs(res[k][0] - exp[k][0]) < 1 and abs(res[k][1] - exp[k][1]) < 1e-6 for k in exp)
        obs = f"{len(res)} pairs, {'equal to' if good else 'DIFFERENT from'} brute force"
    except Exception as e:
        good = False
        obs = f"raised {type(e).__name__}: {str(e).splitlines()[0][:90]}"
    print(f"{label}: expected {len(exp)} pairs; observed {obs}")
    bad += not good
if bad:
    print("DEFECT: gridded (scan-line x scan-position) input cannot be collocated")
    sys.exit(1)
print("OK")
