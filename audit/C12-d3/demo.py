"""C12 / d3: a file name that is legal on the file system but not valid UTF-8
(Python represents it with surrogate escapes, e.g. a latin-1 encoded name)
round-trips for gz, bz2 and xz but makes the zip branch raise, because the
archive member name is derived from the file name."""
import sys, os; sys.path.insert(0, "/tmp/hunt/C12")
import warnings; warnings.simplefilter("ignore")
import typhon
assert typhon.__file__.startswith("/tmp/hunt/C12/"), typhon.__file__
import bz2, gzip, lzma, zipfile
import shutil
import tempfile
from typhon.files import compress, decompress


def stdlib_read(path, fmt):
    if fmt == "gz":
        with gzip.open(path) as fh: return fh.read()
    if fmt == "bz2":
        with bz2.open(path) as fh: return fh.read()
    if fmt == "xz":
        with lzma.open(path) as fh: return fh.read()
    with zipfile.ZipFile(path) as z:
        (member,) = z.namelist()
        return z.read(member)


data = b"caf\xe9 " * 1000
# b'caf\xe9.v1' : "café" in latin-1, what os.listdir() returns for such a file
stem = os.fsdecode(b"caf\xe9.v1")
problems = []
for fmt in ("gz", "bz2", "xz", "zip"):
    root = tempfile.mkdtemp(prefix="c12d3_")
    try:
        tdir = os.path.join(root, "tmp"); os.mkdir(tdir)
        odir = os.path.join(root, "out"); os.mkdir(odir)
        name = os.path.join(odir, stem + "." + fmt)
        try:
            with compress(name, tmpdir=tdir) as tfile:
                with open(tfile, "wb") as fh:
                    fh.write(data)
            if stdlib_read(name, fmt) != data:
                problems.append("%s: stdlib reads different content" % fmt)
            with decompress(name, tmpdir=tdir) as d:
                with open(d, "rb") as fh:
                    got = fh.read()
            if got != data:
                problems.append("%s: round trip returned different bytes" % fmt)
            print("  %-3s name %a: ok" % (fmt, os.path.basename(name)))
        except Exception as exc:
            problems.append("%s: name %a: %s: %s"
                            % (fmt, os.path.basename(name), type(exc).__name__, exc))
        if os.listdir(tdir):
            problems.append("%s: tmpdir not empty: %a" % (fmt, os.listdir(tdir)))
    finally:
        shutil.rmtree(root, ignore_errors=True)

print("expected: for every format and any file name the bytes written in "
      "compress(name) come back from decompress(name)")
if problems:
    print("observed: %d violations" % len(problems))
    for p in problems:
        print("  -", p)
    sys.exit(1)
print("observed: identical bytes for all four formats")
sys.exit(0)
