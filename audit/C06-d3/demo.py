"""C06 d3: with float32 coordinate arrays (the usual storage type of satellite
lat/lon) the whole coordinate conversion is carried out in single precision, so
points are misplaced by up to ~1 m; pairs are wrongly included/excluded for
radii of metres and the returned distances are off by decimetres."""
import sys, os; sys.path.insert(0, "/tmp/hunt/C06")
import warnings; warnings.simplefilter("ignore")
import numpy as np, typhon
assert typhon.__file__.startswith("/tmp/hunt/C06/")
from typhon.geographical import GeoIndex

R = 6.3781e6
rng = np.random.default_rng(3)
n = 400
lat = (50 + rng.uniform(-1e-3, 1e-3, n)).astype(np.float32)
lon = (120 + rng.uniform(-1e-3, 1e-3, n)).astype(np.float32)
lq = (50 + rng.uniform(-1e-3, 1e-3, 60)).astype(np.float32)
loq = (120 + rng.uniform(-1e-3, 1e-3, 60)).astype(np.float32)


def chord_km(lat, lon, lq, loq):
    # the float32 values are exact binary numbers; evaluate in double precision
    def v(a, o):
        a = np.radians(a.astype(np.float64)); o = np.radians(o.astype(np.float64))
        return np.stack([np.cos(a) * np.cos(o), np.cos(a) * np.sin(o), np.sin(a)], -1)
    A = v(lat, lon)[:, None, :]; B = v(lq, loq)[None, :, :]
    return np.linalg.norm(A - B, axis=-1) * R / 1000


D = chord_km(lat, lon, lq, loq)
bad = 0
for metric in [None, "haversine"]:
    r = "5 m"; rk = 0.005; tol = 0.02   # 2 % = 10 cm slack around the radius
    exp = set(zip(*map(lambda a: a.tolist(), np.nonzero(D <= rk * (1 - tol)))))
    may = set(zip(*map(lambda a: a.tolist(), np.nonzero(D <= rk * (1 + tol)))))
    np.random.seed(0)
    pairs, dist = GeoIndex(lat, lon, metric=metric).query(lq, loq, r)
    got = set(zip(pairs[0].tolist(), pairs[1].tolist())) if pairs.size else set()
    missing = sorted(exp - got); extra = sorted(got - may)
    derr = max((abs(d - D[b, q]) for b, q, d in zip(pairs[0], pairs[1], dist)), default=0) * 1000
    print(f"metric={metric}: float32 input, r={r}: {len(got)} pairs returned; "
          f"{len(missing)} pairs clearly inside (<4.9 m) missing, {len(extra)} pairs "
          f"clearly outside (>5.1 m) returned; max distance error {derr:.3f} m")
    for b, q in missing[:3]:
        print(f"   missing ({b},{q}) true distance {D[b, q]*1000:.3f} m")
    for b, q in extra[:3]:
        print(f"   extra   ({b},{q}) true distance {D[b, q]*1000:.3f} m")
    # same values passed as float64 -> reference behaviour
    p64, d64 = GeoIndex(lat.astype(float), lon.astype(float), metric=metric).query(
        lq.astype(float), loq.astype(float), r)
    g64 = set(zip(p64[0].tolist(), p64[1].tolist()))
    print(f"   same values as float64 arrays: {len(g64)} pairs, "
          f"missing {len(exp - g64)}, extra {len(g64 - may)}")
    if missing or extra or derr > 0.01:
        bad += 1
if bad:
    print("DEFECT: result depends on the dtype of the coordinate arrays "
          "(single precision arithmetic inside GeoIndex)")
    sys.exit(1)
print("ok")
