"""C16 / d3: end fields that wrap into the next month / year give the file an
end time that is too late (fixed 31 / 366 days are added), so find_closest
returns it as 'covering' a timestamp it does not cover."""
import sys, os; sys.path.insert(0, "/tmp/hunt/C16")
import warnings; warnings.simplefilter("ignore")
import typhon
assert typhon.__file__.startswith("/tmp/hunt/C16/")
import tempfile, shutil
from datetime import datetime, timedelta
from typhon.files import FileSet
from typhon.files.fileset import NoFilesError


def touch(p):
    os.makedirs(os.path.dirname(p), exist_ok=True)
    open(p, "w").close()


def oracle(files, t):
    """the rule of the property over the harness's own list of files"""
    cover = [p for p, t0, t1 in files if t0 <= t <= t1]
    if cover:
        return set(cover)
    dist = {p: min(abs(t0 - t), abs(t1 - t)) for p, t0, t1 in files}
    m = min(dist.values())
    return {p for p, d in dist.items() if d == m}


base = tempfile.mkdtemp(prefix="c16d3_")
bad = 0
try:
    scenarios = [
        # template, periods of the files, timestamps to ask for
        ("a/{year}{month}{day}-{end_day}.nc",
         [(datetime(2018, 2, 26), datetime(2018, 3, 2)),
          (datetime(2018, 3, 4), datetime(2018, 3, 6))],
         [datetime(2018, 3, 4), datetime(2018, 3, 5), datetime(2018, 3, 1)]),
        ("b/{year}{month}{day}-{end_month}{end_day}.nc",
         [(datetime(2018, 12, 30), datetime(2019, 1, 2)),
          (datetime(2019, 1, 3), datetime(2019, 1, 5))],
         [datetime(2019, 1, 3), datetime(2019, 1, 1)]),
        # control: wrap over midnight (a fixed day is correct there)
        ("c/{year}{month}{day}{hour}-{end_hour}.nc",
         [(datetime(2018, 2, 28, 22), datetime(2018, 3, 1, 2)),
          (datetime(2018, 3, 1, 3), datetime(2018, 3, 1, 5))],
         [datetime(2018, 3, 1, 3), datetime(2018, 3, 1, 1)]),
    ]
    for tmpl, periods, stamps in scenarios:
        fs = FileSet(os.path.join(base, tmpl))
        files = []
        for t0, t1 in periods:
            p = fs.get_filename((t0, t1))
            touch(p)
            files.append((p, t0, t1))
        for p, t0, t1 in files:
            got = fs.get_info(p).times
            ok = list(got) == [t0, t1]
            bad += not ok
            print(f"{'ok ' if ok else 'BAD'} coverage of {os.path.basename(p)}: "
                  f"observed {got[0]:%Y-%m-%d %H} .. {got[1]:%Y-%m-%d %H}, "
                  f"expected {t0:%Y-%m-%d %H} .. {t1:%Y-%m-%d %H}")
        for t in stamps:
            exp = oracle(files, t)
            try:
                got = fs.find_closest(t).path
            except NoFilesError:
                got = "NoFilesError"
            ok = got in exp
            bad += not ok
            print(f"{'ok ' if ok else 'BAD'} find_closest({t:%Y-%m-%d %H}) "
                  f"observed={os.path.basename(got)} "
                  f"expected={sorted(map(os.path.basename, exp))}")
finally:
    shutil.rmtree(base)

sys.exit(1 if bad else 0)
