"""C03 d4: an IntervalTree over the empty set of intervals cannot be built."""
import sys, os; sys.path.insert(0, "/tmp/hunt/C03")
import warnings; warnings.simplefilter("ignore")
import typhon; assert typhon.__file__.startswith("/tmp/hunt/C03/")
import numpy as np
from typhon.trees import IntervalTree

ok = True
for label, data in [("np.empty((0, 2))", np.empty((0, 2))),
                    ("np.empty((0, 2), dtype=int)", np.empty((0, 2), dtype=int)),
                    ("[]", [])]:
    checks = [
        ("query([[0, 1], [-5, 5]])", lambda t: t.query([[0, 1], [-5, 5]]), [[], []]),
        ("query([])", lambda t: t.query([]), []),
        ("query_points([0, 2.5])", lambda t: t.query_points([0, 2.5]), [[], []]),
        ("0 in tree", lambda t: 0 in t, False),
        ("[0, 1] in tree", lambda t: [0, 1] in t, False),
    ]
    try:
        tree = IntervalTree(data)
    except Exception as e:
        ok = False
        print(f"IntervalTree({label}): observed {type(e).__name__}: {e}\n"
              f"   expected: a tree without intervals (query -> [[] ...], `x in tree` -> False)")
        continue
    for what, f, exp in checks:
        try:
            got = f(tree)
        except Exception as e:
            got = f"{type(e).__name__}: {e}"
        if got != exp:
            ok = False
        print(f"{'ok   ' if got == exp else 'WRONG'} IntervalTree({label}).{what}: observed {got!r}, expected {exp!r}")

# control: non-empty trees are unaffected
t = IntervalTree([[3, 4], [1, 2], [1, 10]])
if [sorted(r) for r in t.query([[2, 3], [11, 12]])] != [[0, 1, 2], []] or (0 in t) or not (1 in t):
    ok = False; print("control WRONG")
sys.exit(0 if ok else 1)
