"""C13 / d3: collapse() raises 'not enough values to unpack' for a compact
collocation dataset whose extra dimension (channel) carries a coordinate
variable outside the groups (no '/' in its name); expand() and
concat_collocations() handle the very same dataset."""
import sys, os; sys.path.insert(0, "/tmp/hunt/C13")
import warnings; warnings.simplefilter("ignore")
import numpy as np, xarray as xr
import typhon
assert typhon.__file__.startswith("/tmp/hunt/C13/"), typhon.__file__
from typhon.collocations import expand, collapse
from typhon.collocations.collocator import concat_collocations

rng = np.random.default_rng(0)
pairs = np.array([[0, 0, 1, 2, 2, 2], [0, 1, 1, 2, 3, 0]])
ds = xr.Dataset(coords={"channel": ("channel", [89., 150., 183.])})
for g, n in (("primary", 3), ("secondary", 4)):
    ds[f"{g}/time"] = (f"{g}/collocation", np.datetime64("2020-01-01", "ns")
                       + np.arange(n).astype("timedelta64[s]"))
    ds[f"{g}/lat"] = (f"{g}/collocation", rng.uniform(-90, 90, n))
    ds[f"{g}/lon"] = (f"{g}/collocation", rng.uniform(-180, 180, n))
    bt = rng.normal(size=(n, 3)); bt[0, 1] = np.nan
    ds[f"{g}/bt"] = ((f"{g}/collocation", "channel"), bt)
ds["Collocations/pairs"] = (
    ("Collocations/group", "Collocations/collocation"), pairs)
ds["Collocations/interval"] = ("Collocations/collocation", np.zeros(6))
ds["Collocations/distance"] = ("Collocations/collocation", np.zeros(6))
ds["Collocations/group"] = ("Collocations/group", ["primary", "secondary"])

e = expand(ds)
assert e["secondary/bt"].shape == (6, 3)
cc = concat_collocations([ds, ds])
assert expand(cc).sizes["collocation"] == 12
print("expand() and concat_collocations() accept the dataset")

ok = True
for reference, (ri, oi, other) in (("primary", (0, 1, "secondary")),
                                   ("secondary", (1, 0, "primary"))):
    try:
        c = collapse(ds, reference=reference)
    except Exception as exc:
        print(f"OBSERVED collapse(reference={reference!r}): "
              f"{type(exc).__name__}: {exc}")
        print("EXPECTED: one row per reference point with "
              f"{other}/bt_mean/_std/_number over its partner points")
        ok = False
        continue
    n = ds.sizes[reference + "/collocation"]
    for r in range(n):
        partner = pairs[oi][pairs[ri] == r]
        vals = ds[other + "/bt"].values[partner]
        if not (np.allclose(c[other + "/bt_mean"].values[r],
                            np.nanmean(vals, axis=0), equal_nan=True)
                and np.allclose(c[other + "/bt_std"].values[r],
                                np.nanstd(vals, axis=0), equal_nan=True)
                and np.array_equal(c[other + "/bt_number"].values[r],
                                   np.sum(~np.isnan(vals), axis=0))):
            print(f"collapse(reference={reference!r}) row {r} is wrong")
            ok = False
    if "channel" not in c.variables \
            or not np.array_equal(c["channel"].values, [89., 150., 183.]):
        print("the channel coordinate got lost"); ok = False
print("OK" if ok else "FAILED")
sys.exit(0 if ok else 1)
