"""C17 / d3: vanishing measurement noise with an under-determined or
rank-deficient Jacobian makes all three OEM functions raise LinAlgError
("singular matrix") although S_a and S_y are perfectly conditioned SPD
matrices and every requested quantity is finite and well defined.

Smallest case: two state elements, one channel that sees their sum,
prior variance 1, noise variance 1e-16.  Exact answer:
    G = [1/2, 1/2]^T / (1 + 5e-17),  A = [[.5, .5], [.5, .5]] / (1 + 5e-17),
    S = I - A.
"""
import sys, os; sys.path.insert(0, "/tmp/hunt/C17")
import warnings
from fractions import Fraction
import numpy as np
import typhon
assert typhon.__file__.startswith("/tmp/hunt/C17/"), typhon.__file__
from typhon.retrieval.oem import (error_covariance_matrix,
                                  retrieval_gain_matrix,
                                  averaging_kernel_matrix)

warnings.simplefilter("ignore")


# ---- exact oracle (independent of typhon, numpy.linalg and scipy) ----------
def frac(M):
    return [[Fraction(float(v)) for v in row] for row in np.asarray(M)]


def mul(A, B):
    Bt = list(zip(*B))
    return [[sum(a * b for a, b in zip(row, col)) for col in Bt] for row in A]


def tr(A):
    return [list(r) for r in zip(*A)]


def add(A, B):
    return [[a + b for a, b in zip(ra, rb)] for ra, rb in zip(A, B)]


def inverse(A):
    n = len(A)
    M = [list(r) + [Fraction(int(i == j)) for j in range(n)]
         for i, r in enumerate(A)]
    for c in range(n):
        p = next(r for r in range(c, n) if M[r][c] != 0)
        M[c], M[p] = M[p], M[c]
        piv = M[c][c]
        M[c] = [v / piv for v in M[c]]
        for r in range(n):
            if r != c and M[r][c] != 0:
                f = M[r][c]
                M[r] = [a - f * b for a, b in zip(M[r], M[c])]
    return [r[n:] for r in M]


def exact(K, S_a, S_y):
    """The defining identities of the property, evaluated exactly."""
    K, S_a, S_y = frac(K), frac(S_a), frac(S_y)
    Syi = inverse(S_y)
    S = inverse(add(mul(mul(tr(K), Syi), K), inverse(S_a)))
    G = mul(mul(S, tr(K)), Syi)
    A = mul(G, K)
    f = lambda M: np.array([[float(v) for v in r] for r in M])
    return f(S), f(G), f(A)


# ---- the inputs ------------------------------------------------------------
cases = [
    ("n=2, m=1: one channel sees the sum of two elements",
     np.array([[1.0, 1.0]]), np.eye(2), 1e-16 * np.eye(1)),
    ("n=3, m=2: under-determined, full row rank",
     np.array([[1.0, 1.0, 0.0], [0.0, 0.0, 1.0]]), np.eye(3),
     1e-16 * np.eye(2)),
    ("n=2, m=2: square, rank 1",
     np.array([[1.0, 1.0], [1.0, 1.0]]), np.eye(2), 1e-16 * np.eye(2)),
]
TOL = 1e-9
bad = []
for name, K, S_a, S_y in cases:
    S_x, G_x, A_x = exact(K, S_a, S_y)
    deficient = np.linalg.matrix_rank(K) < min(K.shape)
    print("case", name, " S_y = %g * I" % S_y[0, 0])
    # For a rank-deficient K the gain itself reacts to rounding of K with
    # eps / sigma_y^2, so there it is judged through the product G K = A.
    for fname, func, ref, post in [
            ("error_covariance_matrix", error_covariance_matrix, S_x, None),
            ("retrieval_gain_matrix", retrieval_gain_matrix,
             A_x if deficient else G_x, K if deficient else None),
            ("averaging_kernel_matrix", averaging_kernel_matrix, A_x, None)]:
        try:
            out = func(K, S_a, S_y)
        except Exception as exc:
            print("   %-24s raised %s: %s" % (fname, type(exc).__name__, exc))
            bad.append("%s / %s raised %s" % (name, fname,
                                              type(exc).__name__))
            continue
        if post is not None:
            out = out @ post
        err = np.abs(out - ref).max() / max(np.abs(ref).max(), 1.0)
        print("   %-24s max rel. deviation from the exact result %.2e"
              % (fname, err))
        if not np.all(np.isfinite(out)) or err > TOL:
            bad.append("%s / %s is off by %.1e" % (name, fname, err))
    print("   exact A =", np.array2string(A_x, precision=4).replace("\n", ""))

print()
print("expected: finite matrices within %.0e of the exact defining identities"
      % TOL)
if bad:
    print("observed: VIOLATIONS")
    for b in bad:
        print("  -", b)
    sys.exit(1)
print("observed: all results returned and correct")
sys.exit(0)
