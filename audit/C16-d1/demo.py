"""C16 / d1: a sub directory without temporal placeholders limits find_closest
to +-366 days, although there is no sub-directory period at all."""
import sys, os; sys.path.insert(0, "/tmp/hunt/C16")
import warnings; warnings.simplefilter("ignore")
import typhon
assert typhon.__file__.startswith("/tmp/hunt/C16/")
import tempfile, shutil
from datetime import datetime
from typhon.files import FileSet
from typhon.files.fileset import NoFilesError


def touch(p):
    os.makedirs(os.path.dirname(p), exist_ok=True)
    open(p, "w").close()


def closest(fs, t, **kw):
    try:
        r = fs.find_closest(t, **kw)
    except NoFilesError:
        return "NoFilesError"
    return None if r is None else os.path.basename(r.path)


base = tempfile.mkdtemp(prefix="c16d1_")
bad = 0
try:
    # Same two files, once flat, once below a directory named after the
    # satellite (a user placeholder, no temporal information at all).
    for rel in ("flat/20160101.nc", "flat/20160105.nc",
                "sat/noaa18/20160101.nc", "sat/noaa19/20160105.nc",
                "wild/x/20160101.nc", "wild/y/20160105.nc"):
        touch(os.path.join(base, rel))

    flat = FileSet(os.path.join(base, "flat/{year}{month}{day}.nc"))
    sat = FileSet(os.path.join(base, "sat/{sat}/{year}{month}{day}.nc"))
    wild = FileSet(os.path.join(base, "wild/*/{year}{month}{day}.nc"))

    for t, expected in (("2016-01-02", "20160101.nc"),
                        ("2018-01-03", "20160105.nc"),   # after the last file
                        ("2014-06-01", "20160101.nc")):  # before the first
        for name, fs in (("flat", flat), ("{sat}/ dir", sat), ("*/ dir", wild)):
            got = closest(fs, t)
            ok = got == expected
            bad += not ok
            print(f"{'ok ' if ok else 'BAD'} t={t} {name:11s} "
                  f"observed={got} expected={expected}")
    # with a filter, too
    got = closest(sat, "2018-01-03", filters={"sat": "noaa18"})
    ok = got == "20160101.nc"
    bad += not ok
    print(f"{'ok ' if ok else 'BAD'} t=2018-01-03 filter sat=noaa18 "
          f"observed={got} expected=20160101.nc")
    print("sub-directory resolution of the {sat}/ template:",
          sat._sub_dir_time_resolution, "(expected None: there is no period)")
finally:
    shutil.rmtree(base)

sys.exit(1 if bad else 0)
