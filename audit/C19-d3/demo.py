import sys, os; sys.path.insert(0, "/tmp/hunt/C19")
import numpy as np, typhon
assert typhon.__file__.startswith("/tmp/hunt/C19/")
from typhon.retrieval.scores import quantile_score, mean_quantile_score

rng = np.random.default_rng(3)
n, k = 7, 3
taus = np.array([0.1, 0.5, 0.9])
y_tau = rng.standard_normal((n, k))
y_test = rng.standard_normal(n)
fails = 0

# sanity: the consistent call works
ref = quantile_score(y_tau, y_test, taus)
assert ref.shape == (n, k)

def must_reject(name, *args):
    global fails
    try:
        r = quantile_score(*args)
        print("%-60s observed: accepted, result shape %s; expected ValueError  VIOLATION" % (name, r.shape))
        fails += 1
    except ValueError as e:
        print("%-60s ValueError (%s)  ok" % (name, e))

# y_tau has n columns but there are only k taus: rows/columns exchanged
must_reject("y_tau transposed, shape (k,n)=(3,7), 3 taus, 7 obs", y_tau.T.copy(), y_test, taus)
# 2 columns of estimates but 3 taus
must_reject("y_tau (6,2), 3 taus, 4 observations", rng.standard_normal((6, 2)), rng.standard_normal(4), taus)
# 3 columns of estimates, a single tau, 21 observations
must_reject("y_tau (7,3), scalar tau, 21 observations", y_tau, rng.standard_normal(n * k), 0.5)
# cases that are already rejected must stay rejected
must_reject("y_test with n+1 values", y_tau, rng.standard_normal(n + 1), taus)
must_reject("k+1 taus", y_tau, y_test, np.array([.1, .2, .3, .4]))

# consistent shapes must still be accepted
for name, a, b, c in [("(n,k),(n,),(k,)", y_tau, y_test, taus),
                      ("(n,k),(n,1),(k,)", y_tau, y_test.reshape(n, 1), taus),
                      ("(n,),(n,),scalar", y_tau[:, 0], y_test, 0.5),
                      ("(n,1),(n,),scalar", y_tau[:, :1], y_test, 0.5),
                      ("(k,),0-d,(k,)  [one case]", y_tau[0], np.array(y_test[0]), taus)]:
    try:
        quantile_score(a, b, c)
    except Exception as e:
        print("consistent shapes %s rejected: %r  VIOLATION" % (name, e)); fails += 1

# consequence of the silent acceptance: numbers that belong to no (case, tau) pair
try:
    got = quantile_score(y_tau.T.copy(), y_test, taus)
    print("transposed input silently scored; equals the properly oriented scores?", np.allclose(got, ref))
except ValueError:
    pass
print("violations:", fails)
sys.exit(1 if fails else 0)
