"""C05 / d2: the collocations found by collocate_filesets depend on the number
of worker processes, because a worker reuses the spatial index (ball tree) of
the previous primary file for the next primary file when both have the same
number of points at *nearly* (np.allclose, rtol=1e-5 -> ~100 m at lat 60 /
lon 170) the same positions.

Primary A: a slowly drifting platform, one file per day with 24 points; on
day 2 it is 95 m away from its position on day 1. Secondary B: one file per
day with a point 0.96 km west and a point 1.04 km east of the day-1 position.
max_distance = 1 km: on day 1 only the western points are collocations, on
day 2 only the eastern points (0.957 km; the western ones are 1.043 km away).
"""
import sys, os
sys.path.insert(0, "/tmp/hunt/C05")
import logging, pickle, shutil, tempfile, warnings
from collections import Counter
from datetime import datetime, timedelta

import numpy as np
import xarray as xr

import typhon
assert typhon.__file__.startswith("/tmp/hunt/C05/"), typhon.__file__
from typhon.files import FileSet
from typhon.files.handlers.common import FileHandler, expects_file_info
from typhon.collocations import Collocator

logging.disable(logging.CRITICAL)
warnings.filterwarnings("ignore")


class PickleHandler(FileHandler):
    @expects_file_info()
    def read(self, file_info, **kwargs):
        with open(file_info.path, "rb") as file:
            return pickle.load(file)


T0 = datetime(2020, 1, 1)
DAY = 86400
NAME = "{year}{month}{day}_{hour}{minute}{second}-" \
       "{end_year}{end_month}{end_day}_{end_hour}{end_minute}{end_second}.pkl"


def write_file(directory, start, end, secs, lat, lon, pid):
    os.makedirs(directory, exist_ok=True)
    st, en = T0 + timedelta(seconds=start), T0 + timedelta(seconds=end)
    data = xr.Dataset(
        {"lat": ("time", np.asarray(lat, float)),
         "lon": ("time", np.asarray(lon, float)),
         "pid": ("time", np.asarray(pid))},
        coords={"time": np.datetime64(T0, "ns")
                + np.asarray(secs).astype("timedelta64[s]")}
    )
    path = os.path.join(
        directory, f"{st:%Y%m%d_%H%M%S}-{en:%Y%m%d_%H%M%S}.pkl")
    with open(path, "wb") as file:
        pickle.dump(data, file)


def haversine(lat1, lon1, lat2, lon2, r=6371.):
    p1, p2 = np.deg2rad(lat1), np.deg2rad(lat2)
    dl = np.deg2rad(lon2 - lon1)
    a = np.sin((p2 - p1) / 2) ** 2 \
        + np.cos(p1) * np.cos(p2) * np.sin(dl / 2) ** 2
    return 2 * r * np.arcsin(np.sqrt(a))


def main():
    root = tempfile.mkdtemp(prefix="c05_d2_")
    try:
        # All the data (time in seconds, lat, lon), ids = positions
        a_time = np.concatenate(
            [d * DAY + np.arange(24) * 3600 + 1800 for d in range(2)])
        a_lat = np.repeat([60.0, 60.0004], 24)
        a_lon = np.repeat([170.0, 170.0015], 24)
        b_time = np.array([40000, 50000, DAY + 40000, DAY + 50000])
        b_lat = np.array([60.0, 60.0, 60.0, 60.0])
        b_lon = np.array([169.98273, 170.01871, 169.98273, 170.01871])

        for d in range(2):
            sel = slice(24 * d, 24 * (d + 1))
            write_file(os.path.join(root, "A"), d * DAY, (d + 1) * DAY - 1,
                       a_time[sel], a_lat[sel], a_lon[sel],
                       np.arange(48)[sel])
            sel = slice(2 * d, 2 * (d + 1))
            write_file(os.path.join(root, "B"), d * DAY, (d + 1) * DAY - 1,
                       b_time[sel], b_lat[sel], b_lon[sel],
                       np.arange(4)[sel])

        fs_a = FileSet(os.path.join(root, "A", NAME), name="A",
                       handler=PickleHandler())
        fs_b = FileSet(os.path.join(root, "B", NAME), name="B",
                       handler=PickleHandler())
        max_interval, max_distance = 2 * DAY, 1.0

        # Brute force over the complete data
        dist = haversine(a_lat[:, None], a_lon[:, None],
                         b_lat[None, :], b_lon[None, :])
        assert np.all(np.abs(dist - max_distance) > 0.03)  # nothing ambiguous
        dt = np.abs(a_time[:, None] - b_time[None, :])
        expected = Counter(zip(*[
            x.tolist()
            for x in np.nonzero((dist <= max_distance) & (dt < max_interval))
        ]))

        results = {}
        for processes in (1, 2):
            found = Counter()
            for ds, _ in Collocator().collocate_filesets(
                    [fs_a, fs_b], processes=processes,
                    max_interval=max_interval, max_distance=max_distance):
                pairs = ds["Collocations/pairs"].values
                found += Counter(zip(
                    ds["A/pid"].values[pairs[0]].tolist(),
                    ds["B/pid"].values[pairs[1]].tolist()))
            results[processes] = found
            missing, extra = expected - found, found - expected
            print(f"processes={processes}: {sum(found.values())} "
                  f"collocations, expected {sum(expected.values())}; "
                  f"missing {sum(missing.values())}, "
                  f"not existing {sum(extra.values())}")
            if extra:
                i, j = next(iter(extra))
                print(f"   e.g. reported pair A#{i} / B#{j} is "
                      f"{dist[i, j]:.3f} km apart (max_distance 1 km)")
            if missing:
                i, j = next(iter(missing))
                print(f"   e.g. missing pair A#{i} / B#{j} is "
                      f"{dist[i, j]:.3f} km apart (max_distance 1 km)")

        ok = all(found == expected for found in results.values())
        if results[1] != results[2]:
            print("DEFECT: the multiset of collocations differs between "
                  "processes=1 and processes=2")
        elif not ok:
            print("DEFECT: collocations differ from brute force")
        else:
            print("OK")
        return 0 if ok else 1
    finally:
        shutil.rmtree(root, ignore_errors=True)


if __name__ == "__main__":
    sys.exit(main())
