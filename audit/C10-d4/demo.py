"""C10 / d4: align(other, matches=fileset.match(other)) fails.

The docstring of align() says about `matches`: "Normally, this is just the
return value of :meth:`match`".  match() is a generator function.  align()
consumes the matches once with zip(*matches) and afterwards indexes them
(`matches[match_id][1]`), which a generator does not support
("TypeError: 'generator' object is not subscriptable") - no pair is handed
out at all.
"""
import sys, os; sys.path.insert(0, "/tmp/hunt/C10")
import shutil
import tempfile
import warnings
from collections import Counter

import typhon
assert typhon.__file__.startswith("/tmp/hunt/C10/"), typhon.__file__
from typhon.files import FileSet, FileHandler

READS = Counter()


def reader(file_info, **kwargs):
    name = os.path.basename(file_info.path)[11:20]
    READS[name] += 1
    return name


def make_fileset(tmp, name, intervals):
    os.makedirs(os.path.join(tmp, name))
    for start, end in intervals:
        open(os.path.join(
            tmp, name, f"2018-01-01_{start}-{end}.txt"), "w").close()
    return FileSet(
        os.path.join(
            tmp, name,
            "{year}-{month}-{day}_{hour}{minute}-{end_hour}{end_minute}.txt"),
        handler=FileHandler(reader=reader), name=name)


def main():
    warnings.simplefilter("ignore")
    tmp = tempfile.mkdtemp(prefix="c10d4_")
    bad = 0
    try:
        a = make_fileset(tmp, "a", [
            ("0000", "0059"), ("0100", "0159"), ("0200", "0259")])
        b = make_fileset(tmp, "b", [
            ("0000", "0029"), ("0030", "0129"), ("0130", "0229"),
            ("0230", "0250"), ("0400", "0410")])
        # brute-force oracle: every primary with every overlapping secondary
        expected = [
            (p, s)
            for p in ("0000-0059", "0100-0159", "0200-0259")
            for s in ("0000-0029", "0030-0129", "0130-0229", "0230-0250",
                      "0400-0410")
            if p[:4] <= s[5:] and s[:4] <= p[5:]
        ]
        cases = [
            ("matches=None (align calls match itself)",
             lambda: a.align(b, return_info=False)),
            ("matches=list(a.match(b))",
             lambda: a.align(b, matches=list(a.match(b)), return_info=False)),
            ("matches=a.match(b)  [the return value of match()]",
             lambda: a.align(b, matches=a.match(b), return_info=False)),
        ]
        for name, call in cases:
            READS.clear()
            try:
                observed = list(call())
            except Exception as err:
                observed = f"{type(err).__name__}: {err}"
            ok = observed == expected and set(READS.values()) == {1}
            bad += not ok
            print(f"[{'ok ' if ok else 'BAD'}] align, {name}:\n"
                  f"      observed {observed}\n"
                  f"      expected {expected}\n"
                  f"      reads per file: {dict(READS)}")
    finally:
        shutil.rmtree(tmp, ignore_errors=True)

    if bad:
        print("DEFECT: align() does not work with the return value of "
              "match() as `matches`")
        return 1
    print("OK")
    return 0


if __name__ == "__main__":
    sys.exit(main())
