"""C05 / d1: Collocations.search(bundle=None) loses collocations because two
results with the same time span get the same output file name and the second
one overwrites the first one.

One primary file holds a single point at 01:00:00. It collocates (max_interval
10 min) with two points of the secondary file 00:00-00:59 and with two points
of the secondary file 01:00-01:59. In memory (output=None) two datasets with 2
collocations each are yielded (4 in total = brute force). Written to a
Collocations fileset, both results are named by the same time span
(01:00:00 - 01:00:00) and only 2 collocations survive.
"""
import sys, os
sys.path.insert(0, "/tmp/hunt/C05")
import logging, pickle, shutil, tempfile, warnings
from collections import Counter
from datetime import datetime, timedelta

import numpy as np
import xarray as xr

import typhon
assert typhon.__file__.startswith("/tmp/hunt/C05/"), typhon.__file__
from typhon.files import FileSet
from typhon.files.handlers.common import FileHandler, expects_file_info
from typhon.collocations import Collocations, Collocator

logging.disable(logging.CRITICAL)
warnings.filterwarnings("ignore")


class PickleHandler(FileHandler):
    @expects_file_info()
    def read(self, file_info, **kwargs):
        with open(file_info.path, "rb") as file:
            return pickle.load(file)

    @expects_file_info(pos=2)
    def write(self, data, file_info, **kwargs):
        with open(file_info.path, "wb") as file:
            pickle.dump(data.load(), file)


T0 = datetime(2020, 1, 1)
NAME = "{year}{month}{day}_{hour}{minute}{second}-" \
       "{end_year}{end_month}{end_day}_{end_hour}{end_minute}{end_second}.pkl"


def write_file(directory, start, end, points):
    """points: list of (seconds after T0, lat, lon, id)"""
    os.makedirs(directory, exist_ok=True)
    st, en = T0 + timedelta(seconds=start), T0 + timedelta(seconds=end)
    secs, lat, lon, pid = map(np.array, zip(*points))
    data = xr.Dataset(
        {"lat": ("time", lat.astype(float)),
         "lon": ("time", lon.astype(float)),
         "pid": ("time", pid)},
        coords={"time": np.datetime64(T0, "ns")
                + secs.astype("timedelta64[s]")}
    )
    path = os.path.join(
        directory, f"{st:%Y%m%d_%H%M%S}-{en:%Y%m%d_%H%M%S}.pkl")
    with open(path, "wb") as file:
        pickle.dump(data, file)


def found_pairs(ds):
    pairs = ds["Collocations/pairs"].values
    return Counter(zip(ds["A/pid"].values[pairs[0]].tolist(),
                       ds["B/pid"].values[pairs[1]].tolist()))


def main():
    root = tempfile.mkdtemp(prefix="c05_d1_")
    try:
        # primary: one file, one point at 01:00:00
        write_file(os.path.join(root, "A"), 3000, 4199, [(3600, 0., 0., 0)])
        # secondary: two hourly files
        write_file(os.path.join(root, "B"), 0, 3599,
                   [(3300, 0.01, 0., 0), (3480, 0., 0.01, 1),
                    (600, 0., 0., 2)])
        write_file(os.path.join(root, "B"), 3600, 7199,
                   [(3720, 0.01, 0.01, 3), (3900, -0.01, 0., 4),
                    (7000, 0., 0., 5)])
        fs_a = FileSet(os.path.join(root, "A", NAME), name="A",
                       handler=PickleHandler())
        fs_b = FileSet(os.path.join(root, "B", NAME), name="B",
                       handler=PickleHandler())
        kwargs = dict(max_interval=600, max_distance=50.)

        # brute force: |dt| < 600 s, all points are within 2 km
        expected = Counter({(0, 0): 1, (0, 1): 1, (0, 3): 1, (0, 4): 1})

        memory = Counter()
        n_datasets = 0
        for ds, _ in Collocator().collocate_filesets([fs_a, fs_b], **kwargs):
            memory += found_pairs(ds)
            n_datasets += 1

        out = Collocations(os.path.join(root, "out", NAME), name="out",
                           handler=PickleHandler(), read_mode="compact")
        out.search([fs_a, fs_b], **kwargs)
        files = list(out.find(no_files_error=False))
        written = Counter()
        for file in files:
            written += found_pairs(out.read(file))

        print("expected (brute force):", sorted(expected.elements()))
        print(f"output=None           : {sorted(memory.elements())} "
              f"in {n_datasets} datasets")
        print(f"output=Collocations   : {sorted(written.elements())} "
              f"in {len(files)} file(s): "
              f"{[os.path.basename(f.path) for f in files]}")

        ok = memory == expected and written == expected
        if not ok:
            print("DEFECT: the collocations written to the Collocations "
                  "fileset differ from the collocations that exist "
                  f"(lost: {sorted((expected - written).elements())})")
        else:
            print("OK")
        return 0 if ok else 1
    finally:
        shutil.rmtree(root, ignore_errors=True)


if __name__ == "__main__":
    sys.exit(main())
