"""C07 / d1: cart2geodetic (and geocentric2geodetic) crash for a position whose
*geocentric* latitude is 1 rad (57.29577951308232 deg) on the eccentric ellipsoids."""
import sys, os; sys.path.insert(0, "/tmp/hunt/C07")
import warnings; warnings.simplefilter("ignore")
import numpy as np
import typhon
assert typhon.__file__.startswith("/tmp/hunt/C07/"), typhon.__file__
from typhon import geodesy as g

E = g.ellipsoidmodels()
bad = 0
LAT_C = float(np.rad2deg(1.0))          # 57.29577951308232 deg, well inside |lat| <= 88


def check(label, ell, r, latc, lonc):
    """geocentric -> geodetic must succeed and be inverted by geodetic2geocentric."""
    global bad
    try:
        h, lat, lon = g.geocentric2geodetic(r, latc, lonc, ell)
    except Exception as exc:
        print("FAIL %-40s observed %s: %s ; expected (h, lat, lon)" % (
            label, type(exc).__name__, exc))
        bad += 1
        return
    r2, latc2, lonc2 = g.geodetic2geocentric(h, lat, lon, ell)
    err_r = np.max(np.abs(r2 - r))
    err_lat = np.max(np.abs(latc2 - latc))
    err_lon = np.max(np.abs((lonc2 - lonc + 180) % 360 - 180))
    # the geodetic latitude must differ from the geocentric one on an
    # eccentric ellipsoid (about 0.17 deg on WGS84 here)
    differs = ell[1] == 0 or np.all(np.abs(lat - latc) > 1e-3)
    ok = err_r < 0.01 and err_lat < 1e-7 and err_lon < 1e-7 and differs
    print("%s %-40s lat_gd=%s round-trip err r=%.3g m lat=%.3g deg lon=%.3g deg" % (
        "ok  " if ok else "FAIL", label, np.ravel(lat)[:1], err_r, err_lat, err_lon))
    if not ok:
        bad += 1


for m in E.models:
    ell = E[m]
    check(m + " scalar, surface+1km", ell, ell[0] + 1000.0, LAT_C, 10.0)
    check(m + " array of lon", ell, ell[0] + 5e5, LAT_C, np.array([-180., 0., 33., 180.]))

# the same through the cartesian route (default ellipsoid = WGS84)
r = 6371000.0
x, y, z = r * np.cos(1.0) * np.cos(0.3), r * np.cos(1.0) * np.sin(0.3), r * np.sin(1.0)
try:
    h, lat, lon = g.cart2geodetic(x, y, z)
    xx, yy, zz = g.geodetic2cart(h, lat, lon)
    d = np.sqrt((xx - x)**2 + (yy - y)**2 + (zz - z)**2)
    print("%s cart2geodetic(x, y, z) with arctan2(z, hypot(x, y)) == 1.0: (h, lat, lon) = %r, "
          "inverse misses by %.3g m" % ("ok  " if d < 0.01 else "FAIL", (h, lat, lon), d))
    bad += d >= 0.01
except Exception as exc:
    print("FAIL cart2geodetic(x, y, z) with arctan2(z, hypot(x, y)) == 1.0: observed %s: %s ; "
          "expected (h, lat, lon)" % (type(exc).__name__, exc))
    bad += 1

# a neighbouring latitude works - shows that only the magic value 1 rad is affected
check("WGS84 latc = 57.2957 (control)", E["WGS84"], 6371000.0, 57.2957, 10.0)

print("violations:", bad)
sys.exit(1 if bad else 0)
