"""snell()/fresnel(): n2 of complex type whose imaginary part is zero (a
lossless medium in a complex-valued refractive-index array)."""
import sys, os; sys.path.insert(0, "/tmp/hunt/C08")
import warnings; warnings.simplefilter("ignore")
import numpy as np
import typhon
assert typhon.__file__.startswith("/tmp/hunt/C08/"), typhon.__file__
from typhon.physics import em

fail = 0


def run(label, fn, expected, check):
    global fail
    try:
        got = fn()
    except Exception as e:
        print("%s: raised %s: %s\n    expected %s" % (label, type(e).__name__, e, expected))
        fail += 1
        return
    ok = check(got)
    print("%s: got %r, expected %s -> %s" % (label, got, expected, "ok" if ok else "WRONG"))
    if not ok:
        fail += 1


ref = np.rad2deg(np.arcsin(np.sin(np.deg2rad(30.0)) / 1.5))   # 19.47 deg

# 1. scalar complex n2 with zero imaginary part: TypeError from np.rad2deg
run("snell(1, 1.5+0j, 30)", lambda: em.snell(1, 1.5 + 0j, 30.0),
    "%.6f" % ref, lambda g: np.isclose(g, ref))
run("snell(1, array([1.5+0j, 2+0j]), 30)",
    lambda: em.snell(1, np.array([1.5 + 0j, 2 + 0j]), 30.0),
    "[19.47, 14.48]",
    lambda g: np.shape(g) == (2,) and np.allclose(g, [ref, np.rad2deg(np.arcsin(0.25))]))
run("fresnel(1, 1.5+0j, 0)", lambda: em.fresnel(1, 1.5 + 0j, 0.0),
    "(0.2, -0.2)", lambda g: np.allclose(g, (0.2, -0.2)))

# 2. total reflection for one element only: the whole array collapses to a scalar NaN
run("snell(1.5, array([1+0j, 2+0j]), 60)",
    lambda: em.snell(1.5, np.array([1.0 + 0j, 2.0 + 0j]), 60.0),
    "[nan, 40.5]",
    lambda g: np.shape(g) == (2,) and np.isnan(g[0])
    and np.isclose(g[1], np.rad2deg(np.arcsin(1.5 * np.sin(np.deg2rad(60)) / 2))))

# 3. lossless element in an otherwise lossy array: beyond total reflection
#    snell() says NaN for real n2 = 1.0 but 90 deg for n2 = 1.0+0j
a = em.snell(1.33, 1.0, 60.0)
run("snell(1.33, array([1+0j, 1.5+0.3j]), 60)[0] (real n2=1.0 gives %r)" % a,
    lambda: em.snell(1.33, np.array([1.0 + 0j, 1.5 + 0.3j]), 60.0)[0],
    "nan", lambda g: np.isnan(g))
# the lossy element must be unchanged (Liou's expression)
mr2 = (1.5 / 1.33) ** 2; mi2 = (0.3 / 1.33) ** 2; s2 = np.sin(np.deg2rad(60)) ** 2
Nr = np.sqrt((mr2 - mi2 + s2 + np.sqrt((mr2 - mi2 - s2) ** 2 + 4 * mr2 * mi2)) / 2)
lossy = np.rad2deg(np.arcsin(np.sin(np.deg2rad(60)) / Nr))
run("snell(1.33, array([1+0j, 1.5+0.3j]), 60)[1]",
    lambda: em.snell(1.33, np.array([1.0 + 0j, 1.5 + 0.3j]), 60.0)[1],
    "%.6f" % lossy, lambda g: np.isclose(g, lossy))
# and below the critical angle the lossless element follows plain Snell
run("snell(1.33, array([1+0j, 1.5+0.3j]), 30)[0]",
    lambda: em.snell(1.33, np.array([1.0 + 0j, 1.5 + 0.3j]), 30.0)[0],
    "%.6f" % np.rad2deg(np.arcsin(1.33 * 0.5)),
    lambda g: np.isclose(g, np.rad2deg(np.arcsin(1.33 * np.sin(np.deg2rad(30.0))))))

print("FAIL" if fail else "OK")
sys.exit(1 if fail else 0)
