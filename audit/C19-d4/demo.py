import sys, os; sys.path.insert(0, "/tmp/hunt/C19")
import numpy as np, typhon
assert typhon.__file__.startswith("/tmp/hunt/C19/")
from typhon.retrieval.scores import quantile_score, mean_quantile_score

rng = np.random.default_rng(4)
fails = 0

def oracle(y_tau, y_test, taus):
    taus = np.ravel(taus)
    out = np.empty(y_tau.shape)
    for i in range(y_tau.shape[0]):
        for j in range(y_tau.shape[1]):
            d = y_tau[i, j] - y_test[i]
            out[i, j] = taus[j] * abs(d) if d < 0 else (1 - taus[j]) * abs(d)
    return out

taus = np.array([0.1, 0.5, 0.9])
for n in (3, 1, 7):
    y_tau = rng.standard_normal((n, 3)); y_test = rng.standard_normal(n)
    ref = oracle(y_tau, y_test, taus)
    assert np.allclose(quantile_score(y_tau, y_test, taus), ref)            # (k,)  works
    assert np.allclose(quantile_score(y_tau, y_test, taus[None, :]), ref)   # (1,k) works
    try:
        got = quantile_score(y_tau, y_test, taus[:, None])                  # (k,1) column vector
        ok = got.shape == ref.shape and np.allclose(got, ref)
        if got.shape != ref.shape:
            print("n=%d, taus as (k,1) column vector: observed result of shape %s, expected shape %s  VIOLATION"
                  % (n, got.shape, ref.shape))
        else:
            print("n=%d, taus as (k,1) column vector: observed max |error| %.3g vs. pinball oracle  %s"
                  % (n, np.abs(got - ref).max(), "ok" if ok else "VIOLATION (silently wrong)"))
    except Exception as e:
        ok = False
        print("n=%d, taus as (k,1) column vector: observed %s: %s; expected the (n,k) pinball scores  VIOLATION"
              % (n, type(e).__name__, e))
    fails += not ok

# consequence for properness when n == k: minimiser of the mean score is no tau-quantile
s = np.array([0.0, 1.0, 10.0])
cands = np.unique(s)
sc = np.array([mean_quantile_score(np.full((3, 3), c), s, taus[:, None]) for c in cands])
for j, t in enumerate(taus):
    best = cands[np.argmin(sc[:, j])]
    isq = np.mean(s <= best) >= t and np.mean(s >= best) >= 1 - t
    print("sample %s tau %.1f: minimiser %g is a tau-quantile: %s" % (s, t, best, isq))
    fails += not isq
print("violations:", fails)
sys.exit(1 if fails else 0)
