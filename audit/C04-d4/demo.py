"""C04 d4: |dt| is truncated to whole seconds BEFORE it is compared with
max_interval, so pairs with |dt| >= max_interval are reported when max_interval
has a sub-second part (e.g. "10.5 s", "10500 ms", "2500 ms")."""
import sys, os; sys.path.insert(0, "/tmp/hunt/C04")
import warnings; warnings.filterwarnings("ignore")
import numpy as np, xarray as xr, pandas as pd
import typhon
assert typhon.__file__.startswith("/tmp/hunt/C04/"), typhon.__file__
from typhon.collocations import Collocator

t0 = np.datetime64("2020-01-01T00:00:00", "ns")
def mk(secs, lat, lon):
    n = len(secs)
    t = t0 + np.round(np.asarray(secs, float) * 1000).astype("int64") * np.timedelta64(1, "ms")
    return xr.Dataset({"time": ("x", t), "lat": ("x", np.asarray(lat, float)),
                       "lon": ("x", np.asarray(lon, float)), "id": ("x", np.arange(n))},
                      coords={"x": np.arange(n)})

def brute_dt(p, s, max_s):
    # all points used here are spatially within max_distance of their partner or >5000 km away
    out = set()
    for i in range(p.sizes["x"]):
        for j in range(s.sizes["x"]):
            close = abs(p.lat.values[i] - s.lat.values[j]) < 1 and abs(p.lon.values[i] - s.lon.values[j]) < 1
            dt = abs((p.time.values[i] - s.time.values[j]) / np.timedelta64(1, "ns")) / 1e9
            if close and dt < max_s:
                out.add((i, j))
    return out

def pairs(res):
    if res is None:
        return set()
    p = res["Collocations/pairs"].values
    return set(zip(res["primary/id"].values[p[0]].tolist(), res["secondary/id"].values[p[1]].tolist()))

# primary 0 and secondary 0 are 1.1 km and 10.7 s apart; the other points are far
# away and only widen the common time period
prim = mk([0.0, 100.0], [0., 50.], [0., 50.])
sec = mk([10.7, -50.0], [0., -50.], [0.01, -50.])
bad = 0
for mi in ["10.5 s", "10500 ms", pd.Timedelta(seconds=10.5), "10.8 s", 11, 10]:
    max_s = pd.Timedelta(f"{mi} s" if isinstance(mi, int) else mi).total_seconds()
    exp = brute_dt(prim, sec, max_s)
    obs = pairs(Collocator().collocate(prim, sec, max_interval=mi, max_distance=100))
    print(f"|dt| = 10.7 s, max_interval = {mi!r:40}: expected {sorted(exp)}, observed {sorted(obs)}")
    bad += obs != exp

# randomised: ms-resolved times, max_interval 2.5 s
rng = np.random.default_rng(0)
n = 200
p = mk(rng.integers(0, 60000, n) / 1000., rng.uniform(0, .2, n), rng.uniform(0, .2, n))
s = mk(rng.integers(0, 60000, n) / 1000., rng.uniform(0, .2, n), rng.uniform(0, .2, n))
exp = brute_dt(p, s, 2.5)
obs = pairs(Collocator().collocate(p, s, max_interval="2500 ms", max_distance=100))
print(f"random 200 x 200, max_interval='2500 ms': expected {len(exp)} pairs, observed {len(obs)}, "
      f"wrongly reported {len(obs - exp)}, missing {len(exp - obs)}")
bad += obs != exp
if bad:
    print("DEFECT: pairs whose time difference is NOT smaller than max_interval are reported")
    sys.exit(1)
print("OK")
