"""C15 / d1: a cache file whose time entries are JSON null is loaded without a
warning as a FileInfo with the invented times [[None], [None]]; find() then
raises TypeError instead of giving the same answer as without the cache."""
import sys, os; sys.path.insert(0, "/tmp/hunt/C15")
import warnings; warnings.simplefilter("ignore", SyntaxWarning)
import typhon; assert typhon.__file__.startswith("/tmp/hunt/C15/"), typhon.__file__
import atexit, json, shutil, tempfile
from typhon.files import FileSet

tmp = tempfile.mkdtemp(prefix="tmp_", dir=os.path.dirname(os.path.abspath(__file__)))
failures = []
try:
    data = os.path.join(tmp, "data"); os.makedirs(data)
    paths = []
    for name in ("A-2018010100.txt", "B-2018010112.txt"):
        p = os.path.join(data, name); open(p, "w").write("x"); paths.append(p)
    template = os.path.join(data, "{sat}-{year}{month}{day}{hour}.txt")
    cache = os.path.join(tmp, "cache.json")

    ref = [(f.path, f.times, f.attr) for f in FileSet(template).find()]
    print("find() without cache:", ref)

    for label, times in [("both times null", [None, None]),
                         ("end time null", ["2018-01-01T00:00:00.000000", None])]:
        # a malformed cache document: wrong JSON type (null) for the times
        with open(cache, "w") as f:
            json.dump([{"path": paths[0], "times": times, "attr": {"sat": "A"}}], f)
        with warnings.catch_warnings(record=True) as w:
            warnings.simplefilter("always")
            fs = FileSet(template, info_cache=cache)
        got_cache = {k: v.times for k, v in fs.info_cache.items()}
        print(f"\n[{label}] warnings: {[str(x.message)[:60] for x in w]}")
        print(f"[{label}] info_cache after load: {got_cache}")
        if not w:
            failures.append(f"{label}: no warning for the malformed cache file")
        if fs.info_cache:
            failures.append(f"{label}: cache not empty, invented times {got_cache}")
        try:
            got = [(f.path, f.times, f.attr) for f in fs.find()]
        except Exception as e:
            print(f"[{label}] find() raised {e!r}")
            failures.append(f"{label}: find() raised {type(e).__name__}")
        else:
            print(f"[{label}] find() with cache: {got}")
            if got != ref:
                failures.append(f"{label}: find() differs from the answer without cache")
finally:
    atexit._clear()          # do not let the FileSets rewrite the cache at exit
    shutil.rmtree(tmp, ignore_errors=True)

print()
if failures:
    print("OBSERVED (defect):"); [print("  -", x) for x in failures]
    print("EXPECTED: a warning, an empty cache and find() == the answer without cache")
    sys.exit(1)
print("OK: malformed (null) times give a warning and an empty cache")
