"""C16 / d4: with end fields in a sub-directory level (period directories such
as '{year}{month}{day}-{end_year}{end_month}{end_day}/data.nc') find_closest
finds no file at all unless the whole directory period fits into the search
window of +- one sub-directory resolution."""
import sys, os; sys.path.insert(0, "/tmp/hunt/C16")
import warnings; warnings.simplefilter("ignore")
import typhon
assert typhon.__file__.startswith("/tmp/hunt/C16/")
import tempfile, shutil
from datetime import datetime, timedelta
from typhon.files import FileSet
from typhon.files.fileset import NoFilesError


def touch(p):
    os.makedirs(os.path.dirname(p), exist_ok=True)
    open(p, "w").close()


base = tempfile.mkdtemp(prefix="c16d4_")
bad = 0
try:
    fs = FileSet(os.path.join(
        base, "{year}{month}{day}-{end_year}{end_month}{end_day}", "data.nc"))
    res = fs._sub_dir_time_resolution
    assert res == timedelta(days=1), res
    # one product file per period directory; weeks 1, 2 and 4 of January 2018
    periods = [(datetime(2018, 1, 1), datetime(2018, 1, 7)),
               (datetime(2018, 1, 8), datetime(2018, 1, 14)),
               (datetime(2018, 1, 22), datetime(2018, 1, 28))]
    files = []
    for t0, t1 in periods:
        p = fs.get_filename((t0, t1))      # typhon's own name for the period
        touch(p)
        files.append((p, t0, t1))
    # typhon parses the names back to these periods and find() sees them all
    for p, t0, t1 in files:
        assert list(fs.get_info(p).times) == [t0, t1], fs.get_info(p).times
    assert len(list(fs.find())) == len(files)

    def oracle(t):
        us = timedelta(microseconds=1)
        cand = [f for f in files if f[1] <= t + res - us and f[2] >= t - res]
        if not cand:
            return None
        cover = [f[0] for f in cand if f[1] <= t <= f[2]]
        if cover:
            return set(cover)
        d = {f[0]: min(abs(f[1] - t), abs(f[2] - t)) for f in cand}
        return {p for p, v in d.items() if v == min(d.values())}

    stamps = [datetime(2018, 1, 1),    # on the start of a file
              datetime(2018, 1, 3),    # inside a file
              datetime(2018, 1, 7),    # on the end of a file
              datetime(2018, 1, 10),   # inside the second file
              datetime(2018, 1, 15),   # in the gap, one day after week 2
              datetime(2018, 1, 25),   # inside the last file
              datetime(2018, 1, 29),   # one day after the last file
              datetime(2018, 1, 18),   # gap, nothing within one day
              datetime(2018, 2, 10)]   # far after the last file
    for t in stamps:
        exp = oracle(t)
        try:
            got = fs.find_closest(t)
            got = None if got is None else got.path
        except NoFilesError:
            got = None
        ok = (got is None and exp is None) or (exp is not None and got in exp)
        bad += not ok
        rel = lambda p: os.path.relpath(p, base)
        print(f"{'ok ' if ok else 'BAD'} find_closest({t:%Y-%m-%d}) "
              f"observed={rel(got) if got else 'NoFilesError/None'} "
              f"expected={sorted(map(rel, exp)) if exp else 'NoFilesError/None'}")
finally:
    shutil.rmtree(base)

sys.exit(1 if bad else 0)
