"""C03 d2: FileSet.match truncates the coverages (and max_interval) to whole seconds."""
import sys, os; sys.path.insert(0, "/tmp/hunt/C03")
import warnings; warnings.simplefilter("ignore")
import typhon; assert typhon.__file__.startswith("/tmp/hunt/C03/")
import tempfile, shutil
from datetime import datetime, timedelta
from typhon.files import FileSet

T = ("{year}{month}{day}{hour}{minute}{second}{millisecond}-"
     "{end_year}{end_month}{end_day}{end_hour}{end_minute}{end_second}{end_millisecond}.dat")
base = datetime(2020, 1, 1)
fmt = lambda t: t.strftime("%Y%m%d%H%M%S") + f"{t.microsecond // 1000:03d}"


def make(root, name, ivs):
    p = os.path.join(root, name); os.makedirs(p)
    for a, b in ivs:
        open(os.path.join(p, f"{fmt(base + timedelta(seconds=a))}-{fmt(base + timedelta(seconds=b))}.dat"), "w").close()
    return FileSet(os.path.join(p, T), name=name)


def rel(fi):
    return tuple(round((t - base).total_seconds(), 3) for t in fi.times)


def oracle(A, B, mi):
    out = []
    for a in sorted(A):
        pr = [b for b in sorted(B) if b[0] - mi <= a[1] and b[1] + mi >= a[0]]
        if pr:
            out.append((a, pr))
    return out


cases = [
    # (label, primaries, secondaries, max_interval)
    ("no max_interval, 0.2 s gap inside one second", [(0.0, 0.4)], [(0.6, 1.0)], None),
    ("max_interval 0.5 s, gap 0.3 s across a second boundary", [(0.0, 59.9)], [(60.2, 90.0)], timedelta(seconds=0.5)),
    ("max_interval 0.5 s, gap 0.9 s inside one second", [(0.0, 10.05)], [(10.95, 20.0)], timedelta(seconds=0.5)),
    ("touching end points (control)", [(0.0, 0.5)], [(0.5, 1.0)], None),
    ("whole seconds (control)", [(0, 10), (30, 40)], [(11, 12), (50, 60)], 1),
]
ok = True
root = tempfile.mkdtemp(dir="/tmp/hunt/C03/out")
try:
    for n, (label, A, B, mi) in enumerate(cases):
        fa = make(root, f"A{n}", A); fb = make(root, f"B{n}", B)
        mis = 0 if mi is None else (mi.total_seconds() if isinstance(mi, timedelta) else mi)
        exp = oracle(A, B, mis)
        try:
            got = [(rel(f), [rel(m) for m in ms]) for f, ms in fa.match(fb, max_interval=mi)]
        except Exception as e:
            got = f"{type(e).__name__}: {e}"
        flag = "ok   " if got == exp else "WRONG"
        if got != exp:
            ok = False
        print(f"{flag} {label}\n      primaries {A} secondaries {B} max_interval {mi}\n      observed {got}\n      expected {exp}")
finally:
    shutil.rmtree(root)
sys.exit(0 if ok else 1)
