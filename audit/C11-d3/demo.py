"""C11 / d3: zip-compressed files that were moved (or copied) with
FileSet.move() to a template that gives them another base name cannot be read
any longer through the FileSet - their content is lost for the fileset.

compress() stores the data in the archive under the member name
"<base name of the archive without .zip>", and decompress() looks for exactly
that member.  move() renames the archive but not its member.
(.gz / .bz2 / .xz are fine, they have no member names.)
"""
import sys, os; sys.path.insert(0, "/tmp/hunt/C11")
import shutil
import tempfile
import warnings
warnings.simplefilter("ignore")
from datetime import datetime

import typhon
assert typhon.__file__.startswith("/tmp/hunt/C11/"), typhon.__file__
from typhon.files import FileSet, FileHandler


def reader(file_info):
    with open(file_info.path) as file:
        return file.read()


def writer(data, file_info):
    with open(file_info.path, "w") as file:
        file.write(data)


def listing(directory):
    return sorted(
        os.path.relpath(os.path.join(root, name), directory)
        for root, _, names in os.walk(directory) for name in names
    )


tmp = tempfile.mkdtemp(prefix="c11_d3_")
problems = []
try:
    for suffix in ["zip", "gz"]:
        base = os.path.join(tmp, suffix)
        source = FileSet(
            os.path.join(base, "src", "{year}{month}{day}.txt." + suffix),
            handler=FileHandler(reader=reader, writer=writer),
            worker_type="thread", max_threads=1,
        )
        stored = {}
        for day in (1, 2, 3):
            stored[datetime(2018, 1, day)] = f"content of day {day}"
            source[datetime(2018, 1, day)] = stored[datetime(2018, 1, day)]

        # All files can be read at their original place:
        assert source.collect() == list(stored.values())

        # Move the first two days to a doy layout (same compression):
        target = source.move(
            os.path.join(base, "dst", "{year}", "{doy}.txt." + suffix),
            start="2018-01-01", end="2018-01-03",
        )
        print(f".{suffix}: files after move: {listing(base)}")
        for time, content in stored.items():
            if time.day == 3:
                continue
            try:
                got = target[time]
            except Exception as error:
                got = f"<{type(error).__name__}: {error}>"
            ok = got == content
            print(f"   target[{time:%Y-%m-%d}] -> {got!r}  "
                  f"({'ok' if ok else 'expected ' + repr(content)})")
            if not ok:
                problems.append((suffix, time, got))
finally:
    shutil.rmtree(tmp, ignore_errors=True)

if problems:
    print(f"OBSERVED: {len(problems)} moved files cannot be read back through "
          "the fileset returned by move().")
    print("EXPECTED: move() keeps the content of every file: reading it "
          "through the target fileset gives what was stored.")
    sys.exit(1)
print("OK: moved zip files keep their content.")
sys.exit(0)
