"""C14 / d1: column_relative_humidity with N-d pressure and axis != 0.

The level loop swaps the integration axis of `es` and `qs` to the front but
indexes `p` with the un-swapped array (`p[i]`).  With a pressure array of the
same shape as q (the normal case for model output on hybrid levels) and the
levels on any axis other than 0 the call either raises ValueError or, when the
two extents happen to be equal, silently returns wrong numbers.
"""
import sys, os; sys.path.insert(0, "/tmp/hunt/C14")
import warnings; warnings.simplefilter("ignore")
import numpy as np
import typhon
assert typhon.__file__.startswith("/tmp/hunt/C14/"), typhon.__file__
from typhon.physics import (column_relative_humidity, e_eq_mixed_mk)

G = 9.80665


def brute_crh(q, p, T):
    """independent 1-d oracle: CRH = int q dp / int qs dp (trapezoid)."""
    es = np.array([float(e_eq_mixed_mk(float(t))) for t in T])
    qs = 0.622 * es / (p - 0.378 * es)

    def trap(y, x):
        return sum((x[i + 1] - x[i]) * (y[i] + y[i + 1]) / 2
                   for i in range(len(x) - 1))
    return trap(q, p) / trap(qs, p)


def profiles(ncol, nlev):
    """(ncol, nlev) arrays, every column different; column k has RH = rh[k]."""
    ps = np.linspace(1020e2, 900e2, ncol)            # surface pressure
    sigma = np.linspace(1.0, 0.1, nlev)
    p = ps[:, None] * sigma[None, :]
    T = (300 - 3 * np.arange(ncol))[:, None] - 75 * (1 - sigma)[None, :]
    es = e_eq_mixed_mk(T)
    qs = 0.622 * es / (p - 0.378 * es)
    rh = np.linspace(1.0, 0.2, ncol)
    return rh[:, None] * qs, p, T, rh


fail = False
for ncol, nlev in [(3, 7), (7, 7), (4, 2)]:
    q, p, T, rh = profiles(ncol, nlev)
    expected = np.array([brute_crh(q[k], p[k], T[k]) for k in range(ncol)])
    assert np.allclose(expected, rh, rtol=1e-12)      # saturated -> 1, linear in q
    # reference: the same data with the levels on axis 0 works
    ref = column_relative_humidity(q.T.copy(), p.T.copy(), T.T.copy(), axis=0)
    assert np.allclose(ref, expected, rtol=1e-10), (ref, expected)
    for axis in (1, -1):
        try:
            got = column_relative_humidity(q.copy(), p.copy(), T.copy(), axis=axis)
        except Exception as exc:
            print(f"shape (ncol={ncol}, nlev={nlev}) axis={axis}: "
                  f"raised {type(exc).__name__}: {exc}; expected {expected}")
            fail = True
            continue
        ok = np.shape(got) == expected.shape and np.allclose(got, expected, rtol=1e-10)
        print(f"shape (ncol={ncol}, nlev={nlev}) axis={axis}: observed {got}; "
              f"expected {expected} -> {'ok' if ok else 'WRONG'}")
        fail |= not ok

# rank 3, levels on the middle axis, 3-d pressure
q, p, T, rh = profiles(4, 6)
q3 = np.stack([q, 0.5 * q]); p3 = np.stack([p, p]); T3 = np.stack([T, T])   # (2, 4, 6)
exp3 = np.stack([rh, 0.5 * rh])
q3, p3, T3 = (np.moveaxis(a, 2, 1).copy() for a in (q3, p3, T3))          # (2, 6, 4)
try:
    got = column_relative_humidity(q3, p3, T3, axis=1)
    ok = np.shape(got) == exp3.shape and np.allclose(got, exp3, rtol=1e-10)
    print(f"rank 3 axis=1: observed {got}; expected {exp3} -> {'ok' if ok else 'WRONG'}")
    fail |= not ok
except Exception as exc:
    print(f"rank 3 axis=1: raised {type(exc).__name__}: {exc}; expected {exp3}")
    fail = True

print("DEFECT PRESENT" if fail else "all good")
sys.exit(1 if fail else 0)
