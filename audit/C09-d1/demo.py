"""moist_lapse_rate: small-integer temperature arrays overflow in T**2.

Run: cd /tmp/hunt/C09 && /venv/bin/python out/d1/demo.py
"""
import sys, os; sys.path.insert(0, "/tmp/hunt/C09")
import warnings; warnings.simplefilter("ignore")
import numpy as np
import typhon
assert typhon.__file__.startswith("/tmp/hunt/C09/"), typhon.__file__
from typhon.physics import moist_lapse_rate
from typhon import constants

gamma_d = constants.earth_standard_gravity / constants.isobaric_mass_heat_capacity
fail = False
for dt in (np.int16, np.uint16):
    T = np.arange(100, 401, dtype=dt)          # 100..400 K, whole kelvins
    for p in (100., 1000e2):                   # 1 hPa and 1000 hPa
        with np.errstate(all="ignore"):
            got = moist_lapse_rate(p, T)
        ref = moist_lapse_rate(p, T.astype(float))   # same temperatures as float64
        inside = (got > 0) & (got <= gamma_d)
        same = np.allclose(got, ref, rtol=1e-5, atol=0)
        print(f"T dtype {dt.__name__:6s} p={p:8.0f} Pa: "
              f"{(~inside).sum():3d} of {T.size} values outside (0, g/cp]; "
              f"max |got/ref - 1| = {np.nanmax(np.abs(got / ref - 1)):.3g}")
        if not inside.all():
            i = np.flatnonzero(~inside)[0]
            print(f"    e.g. T={T[i]} K: observed {got[i]:.6g} K/m, "
                  f"expected {ref[i]:.6g} K/m (g/cp = {gamma_d:.6g})")
        fail |= (not inside.all()) or (not same)

# 0-d integer array
got = moist_lapse_rate(100., np.array(200, dtype=np.int16))
ref = moist_lapse_rate(100., 200.)
print(f"0-d int16 T=200 K, p=100 Pa: observed {got:.6g}, expected {ref:.6g}, g/cp {gamma_d:.6g}")
fail |= not np.isclose(got, ref, rtol=1e-5)

if fail:
    print("FAIL: the moist lapse rate depends on the integer width of T and leaves (0, g/cp]")
    sys.exit(1)
print("OK")
