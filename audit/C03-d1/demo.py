"""C03 d1: IntervalTree cannot be built from datetime64 (or timedelta64) intervals."""
import sys, os; sys.path.insert(0, "/tmp/hunt/C03")
import warnings; warnings.simplefilter("ignore")
import typhon; assert typhon.__file__.startswith("/tmp/hunt/C03/")
import numpy as np
from typhon.trees import IntervalTree

day = lambda s: np.datetime64(s, "s")
# unsorted, nested, equal and degenerate intervals with datetime end points
ivs = np.array([
    ["2020-01-05", "2020-01-09"],
    ["2020-01-01", "2020-01-03"],
    ["2020-01-02", "2020-01-20"],   # encloses others
    ["2020-01-05", "2020-01-09"],   # duplicate
    ["2020-01-07", "2020-01-07"],   # degenerate
], dtype="M8[s]")
queries = np.array([
    ["2020-01-03", "2020-01-05"],   # touching end points
    ["2019-12-01", "2019-12-31"],   # outside
    ["2019-12-01", "2020-02-01"],   # covers the whole tree
    ["2020-01-07", "2020-01-07"],
    ["2020-01-10", "2020-01-11"],
], dtype="M8[s]")
points = [day("2020-01-01"), day("2020-01-04"), day("2020-01-07"),
          day("2020-01-20"), day("2020-01-21"), day("2019-12-31")]

exp_q = [[i for i, (a, b) in enumerate(ivs) if a <= q[1] and b >= q[0]] for q in queries]
exp_p = [[i for i, (a, b) in enumerate(ivs) if a <= p <= b] for p in points]

ok = True
for label, data in [("datetime64[s] ndarray", ivs),
                    ("list of [np.datetime64, np.datetime64]", [list(r) for r in ivs])]:
    try:
        tree = IntervalTree(data)
        got_q = [sorted(r) for r in tree.query(queries)]
        got_p = [sorted(r) for r in tree.query_points(points)]
        got_in = [p in tree for p in points] + [list(q) in tree for q in queries]
        exp_in = [bool(e) for e in exp_p] + [bool(e) for e in exp_q]
        if got_q != exp_q or got_p != exp_p or got_in != exp_in:
            ok = False
            print(f"{label}: WRONG RESULT\n  query        {got_q}\n  expected     {exp_q}"
                  f"\n  query_points {got_p}\n  expected     {exp_p}\n  in {got_in}\n  expected {exp_in}")
        else:
            print(f"{label}: ok  query={got_q} points={got_p}")
    except Exception as e:
        ok = False
        print(f"{label}: observed {type(e).__name__}: {e}")
        print(f"   expected query -> {exp_q}, query_points -> {exp_p}")

# timedelta64 end points (same root cause: index column is forced into the dtype of the end points)
try:
    td = np.array([[3, 4], [1, 2]], dtype="m8[s]")
    got = [sorted(r) for r in IntervalTree(td).query(np.array([[2, 3], [5, 6]], dtype="m8[s]"))]
    if got != [[0, 1], []]:
        ok = False; print("timedelta64: WRONG", got)
    else:
        print("timedelta64: ok", got)
except Exception as e:
    ok = False
    print(f"timedelta64: observed {type(e).__name__}: {e}; expected [[0, 1], []]")

# python datetime objects (object dtype) must keep working
import datetime as dt
o = [[dt.datetime(2020, 1, 5), dt.datetime(2020, 1, 9)], [dt.datetime(2020, 1, 1), dt.datetime(2020, 1, 3)]]
r = IntervalTree(o).query([[dt.datetime(2020, 1, 3), dt.datetime(2020, 1, 5)]])
if sorted(r[0]) != [0, 1]:
    ok = False; print("python datetime: WRONG", r)

sys.exit(0 if ok else 1)
