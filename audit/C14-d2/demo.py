"""C14 / d2: integrate_water_vapor, general form (vmr, p, T, z), N-d input.

The hydrostatic form hands `axis` to integrate_column, which lines a 1-d
coordinate up with that axis.  The general form first multiplies
`vmr * density(p, T)` with plain numpy broadcasting, which lines 1-d p / T up
with the LAST axis whatever `axis` says.  For level-first data (axis=0, the
default) with a 1-d pressure grid the call raises, or - if the number of
columns equals the number of levels - silently weights level i with the
density of level j.
"""
import sys, os; sys.path.insert(0, "/tmp/hunt/C14")
import warnings; warnings.simplefilter("ignore")
import numpy as np
import typhon
assert typhon.__file__.startswith("/tmp/hunt/C14/"), typhon.__file__
from typhon.physics import integrate_water_vapor, e_eq_water_mk
from typhon import constants as C

Md, Mw, R, g = C.molar_mass_dry_air, C.molar_mass_water, C.gas_constant, C.g


def column(nlev, Ts, rh):
    p = np.exp(np.linspace(np.log(1000e2), np.log(100e2), nlev))
    T = Ts - 70 * np.log(1000e2 / p) / np.log(10)
    vmr = rh * e_eq_water_mk(T) / p
    # hydrostatic height of the moist column (layer-mean density)
    rho = p * (Md * (1 - vmr) + Mw * vmr) / (R * T)
    z = np.concatenate([[0.], np.cumsum(-np.diff(p) / (0.5 * (rho[1:] + rho[:-1]) * g))])
    return p, T, vmr, z


def brute(vmr, p, T, z):
    """independent oracle: trapezoid of the vapour density e / (R_v T) over z."""
    rv = vmr * p * Mw / (R * T)
    return sum((z[i + 1] - z[i]) * (rv[i] + rv[i + 1]) / 2 for i in range(len(z) - 1))


fail = False


def check(name, call, expected):
    global fail
    try:
        got = call()
    except Exception as exc:
        print(f"{name}: raised {type(exc).__name__}: {exc}\n    expected {expected}")
        fail = True
        return
    ok = np.shape(got) == np.shape(expected) and np.allclose(got, expected, rtol=1e-10)
    print(f"{name}: observed {got}\n    expected {expected} -> {'ok' if ok else 'WRONG'}")
    fail |= not ok


for nlev, ncol in [(400, 3), (5, 5)]:
    # (a) the same p, T, z for every column, vmr differs by a factor
    p, T, vmr, z = column(nlev, 300., 0.8)
    fac = np.linspace(1, 0.2, ncol)
    vmr2 = vmr[:, None] * fac[None, :]                     # (nlev, ncol)
    exp = np.array([brute(vmr2[:, k], p, T, z) for k in range(ncol)])
    hyd = integrate_water_vapor(vmr2, p, axis=0)           # works: 1-d p goes along `axis`
    assert hyd.shape == (ncol,)
    if nlev >= 100:   # the two forms agree on a fine grid
        assert np.allclose(hyd[0], exp[0], rtol=1e-4), (hyd, exp)
    check(f"(nlev={nlev}, ncol={ncol}) vmr 2-d, p/T/z 1-d, axis=0",
          lambda: integrate_water_vapor(vmr2, p, T, z, axis=0), exp)
    # the transposed layout happens to work, it is what broadcasting does
    check(f"(ncol={ncol}, nlev={nlev}) vmr 2-d, p/T/z 1-d, axis=1",
          lambda: integrate_water_vapor(vmr2.T, p, T, z, axis=1), exp)

    # (b) pressure-level data: 1-d p, but T, vmr, z differ from column to column
    cols = [column(nlev, 300. - 4 * k, 0.8 - 0.1 * k) for k in range(ncol)]
    Tn = np.stack([c[1] for c in cols], axis=1)            # (nlev, ncol)
    vn = np.stack([c[2] for c in cols], axis=1)
    zn = np.stack([c[3] for c in cols], axis=1)
    exp = np.array([brute(c[2], c[0], c[1], c[3]) for c in cols])
    check(f"(nlev={nlev}, ncol={ncol}) vmr/T/z 2-d, p 1-d, axis=0",
          lambda: integrate_water_vapor(vn, p, Tn, zn, axis=0), exp)

print("DEFECT PRESENT" if fail else "all good")
sys.exit(1 if fail else 0)
