"""C05 / d3: collocate_filesets / Collocations.search raise a ValueError from
numpy ("number sections must be larger than 0.") instead of reporting zero
collocations when no file of the primary fileset is close enough in time to a
file of the secondary fileset (a gap of more than max_interval between the
data of the two filesets).

A: files 00:00-01:00 and 01:00-02:00, B: files 04:00-05:00 and 05:00-06:00,
max_interval = 10 minutes. Brute force over the complete data: no collocations.
"""
import sys, os
sys.path.insert(0, "/tmp/hunt/C05")
import logging, pickle, shutil, tempfile, warnings
from datetime import datetime, timedelta

import numpy as np
import xarray as xr

import typhon
assert typhon.__file__.startswith("/tmp/hunt/C05/"), typhon.__file__
from typhon.files import FileSet
from typhon.files.handlers.common import FileHandler, expects_file_info
from typhon.collocations import Collocations, Collocator

logging.disable(logging.CRITICAL)
warnings.filterwarnings("ignore")


class PickleHandler(FileHandler):
    @expects_file_info()
    def read(self, file_info, **kwargs):
        with open(file_info.path, "rb") as file:
            return pickle.load(file)

    @expects_file_info(pos=2)
    def write(self, data, file_info, **kwargs):
        with open(file_info.path, "wb") as file:
            pickle.dump(data.load(), file)


T0 = datetime(2020, 1, 1)
NAME = "{year}{month}{day}_{hour}{minute}{second}-" \
       "{end_year}{end_month}{end_day}_{end_hour}{end_minute}{end_second}.pkl"


def write_file(directory, start, end, n=10):
    os.makedirs(directory, exist_ok=True)
    st, en = T0 + timedelta(seconds=start), T0 + timedelta(seconds=end)
    secs = np.linspace(start, end - 1, n).astype(int)
    data = xr.Dataset(
        {"lat": ("time", np.zeros(n)), "lon": ("time", np.zeros(n))},
        coords={"time": np.datetime64(T0, "ns")
                + secs.astype("timedelta64[s]")}
    )
    path = os.path.join(
        directory, f"{st:%Y%m%d_%H%M%S}-{en:%Y%m%d_%H%M%S}.pkl")
    with open(path, "wb") as file:
        pickle.dump(data, file)


def main():
    root = tempfile.mkdtemp(prefix="c05_d3_")
    try:
        for hour in (0, 1):
            write_file(os.path.join(root, "A"), hour * 3600, (hour + 1) * 3600)
        for hour in (4, 5):
            write_file(os.path.join(root, "B"), hour * 3600, (hour + 1) * 3600)
        fs_a = FileSet(os.path.join(root, "A", NAME), name="A",
                       handler=PickleHandler())
        fs_b = FileSet(os.path.join(root, "B", NAME), name="B",
                       handler=PickleHandler())
        out = Collocations(os.path.join(root, "out", NAME), name="out",
                           handler=PickleHandler(), read_mode="compact")
        ok = True
        print("expected: no collocations (0 datasets yielded, 0 files "
              "written), no exception")
        for processes in (None, 1, 3):
            for bundle in (None, "primary", "daily"):
                kwargs = dict(max_interval=600, max_distance=100.,
                              processes=processes, bundle=bundle)
                for kind in ("memory", "fileset"):
                    try:
                        if kind == "memory":
                            n = len(list(Collocator().collocate_filesets(
                                [fs_a, fs_b], **kwargs)))
                        else:
                            out.search([fs_a, fs_b], **kwargs)
                            n = len(list(out.find(no_files_error=False))) \
                                if os.path.isdir(os.path.join(root, "out")) \
                                else 0
                        observed = f"{n} results"
                        ok &= n == 0
                    except Exception as error:
                        observed = f"{type(error).__name__}: {error}"
                        ok = False
                    print(f"processes={processes}, bundle={bundle}, "
                          f"output={kind}: {observed}")
        print("OK" if ok else "DEFECT: exception instead of an empty result")
        return 0 if ok else 1
    finally:
        shutil.rmtree(root, ignore_errors=True)


if __name__ == "__main__":
    sys.exit(main())
