#!/usr/bin/env python3
"""Import independently produced breaking changes into /verif/seeded/<id>/ after confirming them:
   patch applies to /repo HEAD (re-diffed), demo passes clean / fails patched, test suite unchanged,
   and record which checks report it.   usage: seed_import.py <srcdir> <seed-id> <PROP> [--all-checks]"""
import json, os, shutil, subprocess, sys, tempfile, re

def sh(cmd, cwd=None, timeout=900):
    p = subprocess.run(cmd, shell=True, cwd=cwd, capture_output=True, text=True, timeout=timeout)
    return p.returncode, p.stdout + p.stderr

def summary(out):
    m = re.findall(r"(\d+ failed, \d+ passed[^\n]*|\d+ passed[^\n]*)", out)
    s = m[-1] if m else out[-200:]
    return re.sub(r" in [\d.]+s.*", "", s)

def main():
    src, sid, prop = sys.argv[1:4]
    dst = os.path.join("/verif/seeded", sid)
    work = tempfile.mkdtemp(prefix="seed_", dir="/tmp")
    res = {"id": sid, "property": prop, "source": "independent sub-agent given only the property text and a scratch clone"}
    try:
        sh("git clone -q /repo %s/r" % work)
        r = work + "/r"
        head = sh("git rev-parse --short HEAD", r)[1].strip()
        meta = json.load(open(os.path.join(src, "meta.json")))
        demo_src = os.path.join(src, "demo.py")
        # run the demo from inside the scratch clone (some demos derive the clone root from __file__)
        os.makedirs(os.path.join(r, "out", "m0"), exist_ok=True)
        shutil.copy(demo_src, os.path.join(r, "out", "m0", "demo.py"))
        demo = "out/m0/demo.py"
        rc, out = sh("git apply --check %s/patch.diff" % src, r)
        how = "git apply"
        if rc != 0:
            rc2, out2 = sh("patch -p1 -F3 --no-backup-if-mismatch < %s/patch.diff" % src, r)
            how = "patch -F3 (context moved by later fix commits)"
            if rc2 != 0:
                res["status"] = "patch does not apply: " + out2[-300:]
                print(json.dumps(res)); return
            sh("find . -name '*.orig' -delete; find . -name '*.rej' -delete", r)
        else:
            sh("git apply %s/patch.diff" % src, r)
        rc, diff = sh("git diff -- typhon", r)
        sh("git checkout -- .", r)
        # (a) demo on clean
        rc_clean, out_clean = sh("/venv/bin/python %s" % demo, r, timeout=600)
        open(work + "/p.diff", "w").write(diff)
        sh("git apply %s/p.diff" % work, r)
        rc_pat, out_pat = sh("/venv/bin/python %s" % demo, r, timeout=600)
        rc_t, out_t = sh("/venv/bin/python -m pytest -q -p no:cacheprovider --timeout=900 --continue-on-collection-errors -x -q 2>&1 | tail -3", r)
        rc_t, out_t = sh("/venv/bin/python -m pytest -q -p no:cacheprovider --timeout=900 --continue-on-collection-errors 2>&1 | tail -3", r)
        tests = summary(out_t)
        # checks
        props = [prop] if "--all-checks" not in sys.argv else ["C%02d" % i for i in range(1, 21)]
        fired = {}
        for p in props:
            rc_c, out_c = sh("/verif/check %s --root %s --no-evidence" % (p, r))
            rules = re.findall(r"rule (C\d+\.\w+)", out_c)
            cons = re.findall(r"\n  (\S+:\d+) (.+?)  rule (C\d+\.\w+)", out_c)
            fired[p] = {"exit": rc_c, "violations": [{"where": w, "construct": c, "rule": ru} for w, c, ru in cons]}
        ok = rc_clean == 0 and rc_pat != 0 and tests.startswith("2 failed, 123 passed")
        res.update({"status": "confirmed" if ok else "NOT confirmed", "applied_with": how, "repo_head": head,
                    "demo_clean_exit": rc_clean, "demo_patched_exit": rc_pat, "tests_with_patch": tests, "checks": fired})
        if ok:
            os.makedirs(dst, exist_ok=True)
            open(os.path.join(dst, "patch.diff"), "w").write(diff)
            shutil.copy(demo_src, os.path.join(dst, "demo.py"))
            detected = [p for p, v in fired.items() if v["exit"] == 1]
            m2 = {"id": sid, "property": prop, "summary": meta.get("summary"), "file": meta.get("file"), "function": meta.get("function"),
                  "needs": meta.get("needs"), "why_tests_pass": meta.get("why_tests_pass"),
                  "origin": res["source"],
                  "confirmed": {"against_repo_head": head, "patch_applied_with": how,
                                "demo": "cd <scratch clone of /repo> && mkdir -p out/m0 && cp demo.py out/m0/ && /venv/bin/python out/m0/demo.py: exit %d without the patch, exit %d with it" % (rc_clean, rc_pat),
                                "test_suite_with_patch": tests,
                                "commands": ["git clone /repo <scratch>", "git -C <scratch> apply patch.diff", "/venv/bin/python demo.py",
                                             "/venv/bin/python -m pytest -q -p no:cacheprovider --timeout=900 --continue-on-collection-errors",
                                             "./check %s --root <scratch>" % prop]},
                  "detected_by": {p: v["violations"] for p, v in fired.items() if v["exit"] == 1},
                  "check_exit": {p: v["exit"] for p, v in fired.items()},
                  "detected": bool(detected)}
            json.dump(m2, open(os.path.join(dst, "meta.json"), "w"), indent=1)
        else:
            res["demo_clean_tail"] = out_clean[-300:]
            res["demo_patched_tail"] = out_pat[-300:]
        print(json.dumps(res))
    finally:
        shutil.rmtree(work, ignore_errors=True)

main()
