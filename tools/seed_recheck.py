#!/usr/bin/env python3
"""Re-run the check of its property on every seeded change (scratch copy of /repo/typhon + patch) and refresh meta.json."""
import concurrent.futures as cf, glob, json, os, re, shutil, subprocess, sys, tempfile

def one(d):
    meta = json.load(open(os.path.join(d, "meta.json")))
    prop = meta["property"]
    w = tempfile.mkdtemp(prefix="rc_", dir="/tmp")
    try:
        shutil.copytree("/repo/typhon", os.path.join(w, "typhon"))
        p = subprocess.run("patch -p1 -s --no-backup-if-mismatch < %s/patch.diff" % d, shell=True, cwd=w, capture_output=True, text=True)
        if p.returncode != 0:
            return meta["id"], "PATCH-FAILED", []
        c = subprocess.run(["/verif/check", prop, "--root", w, "--no-evidence"], capture_output=True, text=True)
        cons = re.findall(r"\n  (\S+:\d+) (.+?)  rule (C\d+\.\w+)", c.stdout)
        meta["detected_by"] = {prop: [{"where": a, "construct": b, "rule": r} for a, b, r in cons]} if c.returncode == 1 else {}
        meta["check_exit"] = {prop: c.returncode}
        meta["detected"] = c.returncode == 1
        json.dump(meta, open(os.path.join(d, "meta.json"), "w"), indent=1)
        return meta["id"], c.returncode, sorted({r for _, _, r in cons})
    finally:
        shutil.rmtree(w, ignore_errors=True)

dirs = sorted(glob.glob("/verif/seeded/C*-*"))
with cf.ThreadPoolExecutor(12) as ex:
    res = list(ex.map(one, dirs))
bad = [r for r in res if r[1] != 1]
for r in res:
    if r[1] != 1:
        print(r)
print("%d seeded changes, %d reported" % (len(res), len(res) - len(bad)))
