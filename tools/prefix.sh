#!/bin/sh
# prefix.sh <fix commit> <property> : scratch copy of /repo with the files of <fix commit> as they were BEFORE it; runs the check, prints verdict lines
rm -rf /tmp/w/t; mkdir -p /tmp/w/t; cp -r /repo/typhon /tmp/w/t/
for f in $(git -C /repo show --name-only --format= $1); do git -C /repo show $1^:$f > /tmp/w/t/$f; done
TYVERIF_NOVELTY_LIMIT=0 /verif/check $2 --root /tmp/w/t --no-evidence | grep -v "^    required" | grep -v KNOWN-FINDING | cut -c1-260
