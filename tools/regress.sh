#!/bin/sh
# regress.sh: all 20 checks on /repo (exit codes), then seeded corpus and refactoring corpus summaries
cd /verif
for i in $(seq -w 1 20); do ./check C$i --no-evidence > /tmp/w/reg_C$i.log 2>&1; echo "C$i $?"; done | tr '\n' ' '; echo
python3 tools/seed_recheck.py 2>&1 | tail -1
python3 tools/ref_check.py > /tmp/w/reg_ref.log 2>&1; tail -1 /tmp/w/reg_ref.log; grep "exit 1" /tmp/w/reg_ref.log
