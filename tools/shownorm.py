#!/usr/bin/env python3
"""shownorm.py <root> <rel file> <qualname>: print the function as the rules see it (after the normaliser)"""
import ast, sys, os
sys.path.insert(0, os.path.join(os.path.dirname(os.path.abspath(__file__)), ".."))
from tyverif.core import Ctx
ctx = Ctx("C00", root=sys.argv[1])
f = ctx.func(sys.argv[2], sys.argv[3])
n = f.node
if n.body and isinstance(n.body[0], ast.Expr) and isinstance(getattr(n.body[0], "value", None), ast.Constant):
    n.body = n.body[1:]
print(ast.unparse(n))
