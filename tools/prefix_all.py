#!/usr/bin/env python3
"""prefix_all.py [commit ...]: for every `fixed` entry of known_findings.json (or only those of the given commits): put the files of the fix
commit back to their state BEFORE the commit (everything else at HEAD) and run the check of the entry's property (novelty guard off): the
obligation named by the entry must be refuted again.  Prints one line per entry; exit 1 if an entry is not reported."""
import json, os, subprocess, sys, shutil, tempfile, concurrent.futures as cf
k = json.load(open("/verif/known_findings.json"))["findings"]
want = set(sys.argv[1:])
ents = [e for e in k if e.get("status") == "fixed" and e.get("commit") and (not want or any(w_ in e["commit"] for w_ in want))]

def one(e):
    w = tempfile.mkdtemp(prefix="pf_", dir="/tmp")
    try:
        shutil.copytree("/repo/typhon", os.path.join(w, "typhon"))
        c = e["commit"].split("+")[0].strip()
        r = subprocess.run(["git", "-C", "/repo", "show", "--name-only", "--format=", c], capture_output=True, text=True)
        if r.returncode:
            return e, "commit not found"
        for f in r.stdout.split():
            b = subprocess.run(["git", "-C", "/repo", "show", "%s^:%s" % (c, f)], capture_output=True)
            if b.returncode == 0:
                open(os.path.join(w, f), "wb").write(b.stdout)
        env = dict(os.environ, TYVERIF_NOVELTY_LIMIT="0")
        o = subprocess.run(["/verif/check", e["property"], "--root", w, "--no-evidence"], capture_output=True, text=True, env=env)
        names = [x.strip() for x in e["construct"].split(" / ")]
        base = names[0].rsplit(".", 1)[0] if "." in names[0] else names[0]
        names += [base + "." + x for x in names[1:] if "." not in x] + [x.split("[")[0] for x in names]
        hit = any(any(n_ in l for n_ in names) and e["rule"] in l for l in o.stdout.splitlines() if l.startswith("  typhon"))
        return e, ("reported" if hit else "NOT reported (exit %d)" % o.returncode)
    finally:
        shutil.rmtree(w, ignore_errors=True)

with cf.ThreadPoolExecutor(12) as ex:
    res = list(ex.map(one, ents))
bad = 0
for e, v in res:
    if v != "reported":
        bad += 1
        print("%s %s %s %s: %s" % (e["commit"], e["property"], e["rule"], e["construct"], v))
print("%d fixed entries, %d reported again on the tree before their fix" % (len(res), len(res) - bad))
sys.exit(1 if bad else 0)
