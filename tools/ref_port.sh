#!/bin/sh
# ref_port.sh <dir of variant (contains patch.diff)> <old commit> : re-base a patch made against <old commit> of /repo onto /repo HEAD
# (apply to the old tree, 3-way merge every touched file with git merge-file, diff against HEAD)
set -e
V=$1; OLD=$2
W=$(mktemp -d /tmp/w/port.XXXX)
mkdir -p $W/old $W/var $W/new
(cd /repo && git archive $OLD typhon | tar -x -C $W/old)
cp -r $W/old/typhon $W/var/
(cd /repo && git archive HEAD typhon | tar -x -C $W/new)
(cd $W/var && patch -p1 -s < $V/patch.diff)
for f in $(grep '^+++ b/' $V/patch.diff | sed 's#^+++ b/##'); do
  if [ -f $W/old/$f ]; then git merge-file -q $W/var/$f $W/old/$f $W/new/$f || { echo "CONFLICT in $f"; exit 1; }; fi
done
(cd $W && for f in $(grep '^+++ b/' $V/patch.diff | sed 's#^+++ b/##' | sed 's/\t.*//'); do diff -uN new/$f var/$f; done | sed 's#^--- new/#--- a/#; s#^+++ var/#+++ b/#; s#^diff -uN new/\(.*\) var/.*#diff --git a/\1 b/\1#') > $V/patch.diff.new || true
mv $V/patch.diff.new $V/patch.diff
rm -rf $W
echo ported $V
