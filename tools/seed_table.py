#!/usr/bin/env python3
"""Generate /verif/seeded/README.md from seeded/*/meta.json."""
import glob, json, os
rows = []
for f in sorted(glob.glob("/verif/seeded/*/meta.json")):
    d = json.load(open(f))
    rules = sorted({v["rule"] for vs in d.get("detected_by", {}).values() for v in vs})
    rows.append((d["id"], d["property"], d.get("file", ""), d.get("function", ""), (d.get("summary") or "").replace("|", "/").replace("\n", " "),
                 (d.get("needs") or "").replace("|", "/").replace("\n", " "), ", ".join(rules) if rules else "**not reported** (exit %s)" % d.get("check_exit", {}).get(d["property"])))
out = ["# Seeded breaking changes", "",
       "Each directory holds `patch.diff` (against /repo HEAD at the time of confirmation), `demo.py` (exit 0 without the patch, exit 1 with it, run from a scratch clone)",
       "and `meta.json` (what it breaks, what it needs to manifest, what was run, which rules report it).  None of them is ever applied to /repo permanently:",
       "`git -C /repo apply seeded/<id>/patch.diff && ./check <PROP>; git -C /repo checkout -- .`", "",
       "| id | property | where | change | needs | reported by |", "|---|---|---|---|---|---|"]
for r in rows:
    out.append("| %s | %s | `%s` %s | %s | %s | %s |" % (r[0], r[1], os.path.basename(r[2] or ""), r[3], r[4][:260], r[5][:200], r[6]))
n = len(rows)
det = sum(1 for r in rows if "not reported" not in r[6])
out += ["", "%d changes, %d reported by the check of their property." % (n, det), ""]
if os.path.exists("/verif/seeded/NOTES.md"):
    out.append(open("/verif/seeded/NOTES.md").read())
open("/verif/seeded/README.md", "w").write("\n".join(out) + "\n")
print(n, det)
