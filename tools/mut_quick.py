#!/usr/bin/env python3
"""mut_quick.py <srcroot>: for every <srcroot>/Cnn/out/mK/patch.diff apply to a scratch copy of /repo/typhon and run the property's check;
   prints exit codes (1 = reported)."""
import concurrent.futures as cf, glob, os, re, shutil, subprocess, sys, tempfile
src = sys.argv[1]
def one(d):
    prop = d.split(os.sep)[-3]
    w = tempfile.mkdtemp(prefix="mq_", dir="/tmp")
    try:
        shutil.copytree("/repo/typhon", os.path.join(w, "typhon"))
        p = subprocess.run("patch -p1 -s --no-backup-if-mismatch < %s/patch.diff" % d, shell=True, cwd=w, capture_output=True, text=True)
        if p.returncode != 0:
            return d, prop, "PATCH-FAILED", []
        c = subprocess.run(["/verif/check", prop, "--root", w, "--no-evidence"], capture_output=True, text=True)
        rules = sorted(set(re.findall(r"rule (C\d+\.\w+)", c.stdout)))
        err = [l for l in c.stdout.splitlines() if l.startswith("ANALYSIS-ERROR")][:2]
        return d, prop, c.returncode, rules or err
    finally:
        shutil.rmtree(w, ignore_errors=True)
dirs = sorted(d for d in glob.glob(os.path.join(src, "C??", "out", "m*")) if os.path.exists(d + "/patch.diff"))
with cf.ThreadPoolExecutor(6) as ex:
    res = list(ex.map(one, dirs))
tally = {}
for d, prop, rc, rules in res:
    tally[rc] = tally.get(rc, 0) + 1
    print("%s-%s exit %s %s" % (prop, os.path.basename(d), rc, rules))
print(len(res), tally)
