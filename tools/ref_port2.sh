#!/bin/sh
# ref_port2.sh prepare <variant dir> <old commit> : like ref_port.sh, but leaves conflicted files (with markers) in /tmp/w/port/<name>/var for manual
#                                                    resolution;   ref_port2.sh finish <variant dir> : writes the patch from the resolved tree
set -e
MODE=$1; V=$2; OLD=$3
N=$(basename $V); W=/tmp/w/port/$N
if [ "$MODE" = prepare ]; then
  rm -rf $W; mkdir -p $W/old $W/var $W/new
  (cd /repo && git archive $OLD typhon | tar -x -C $W/old)
  cp -r $W/old/typhon $W/var/
  (cd /repo && git archive HEAD typhon | tar -x -C $W/new)
  (cd $W/var && patch -p1 -s < $V/patch.diff)
  for f in $(grep '^+++ b/' $V/patch.diff | sed 's#^+++ b/##' | sed 's/\t.*//'); do
    if [ -f $W/old/$f ]; then git merge-file $W/var/$f $W/old/$f $W/new/$f >/dev/null 2>&1 || echo "CONFLICT $W/var/$f"; fi
  done
else
  (cd $W && for f in $(grep '^+++ b/' $V/patch.diff | sed 's#^+++ b/##' | sed 's/\t.*//'); do diff -uN new/$f var/$f; done | sed 's#^--- new/#--- a/#; s#^+++ var/#+++ b/#; s#^diff -uN new/\(.*\) var/.*#diff --git a/\1 b/\1#') > $V/patch.diff.new || true
  mv $V/patch.diff.new $V/patch.diff
  for f in $(grep '^+++ b/' $V/patch.diff | sed 's#^+++ b/##' | sed 's/\t.*//'); do /venv/bin/python -c "import ast,sys; ast.parse(open('$W/var/$f').read())"; done
  grep -c '^<<<<<<<\|^>>>>>>>' $V/patch.diff || true
  rm -rf $W
fi
