#!/bin/sh
# port_all.sh <old commit>: every seeded / refactoring patch that does not apply to /repo HEAD any more is re-based with ref_port.sh; conflicts are listed
OLD=$1
mkdir -p /tmp/w
for d in /verif/seeded/C??-?? /verif/seeded/refactorings/C??-??; do
  [ -f $d/patch.diff ] || continue
  rm -rf /tmp/w/pa; mkdir -p /tmp/w/pa; (cd /repo && git archive HEAD typhon | tar -x -C /tmp/w/pa)
  if (cd /tmp/w/pa && patch -p1 -s --dry-run < $d/patch.diff >/dev/null 2>&1); then
    # applies (possibly with offsets): refresh only when there is fuzz / offset
    if (cd /tmp/w/pa && patch -p1 --dry-run < $d/patch.diff 2>&1 | grep -q "fuzz\|offset"); then
      cp $d/patch.diff $d/patch.diff.bak; sh /verif/tools/ref_port.sh $d $OLD >/dev/null 2>&1 && rm -f $d/patch.diff.bak || { mv $d/patch.diff.bak $d/patch.diff; echo "CONFLICT(offset) $d"; }
    fi
  else
    cp $d/patch.diff $d/patch.diff.bak
    if sh /verif/tools/ref_port.sh $d $OLD >/dev/null 2>&1; then rm -f $d/patch.diff.bak; echo "ported $d"; else mv $d/patch.diff.bak $d/patch.diff; echo "CONFLICT $d"; fi
  fi
done
rm -rf /tmp/w/pa /tmp/w/port.*
