#!/usr/bin/env python3
"""showfn.py <file> <qualname>... : print functions without doc strings (ast.unparse)"""
import ast, sys
src = open(sys.argv[1]).read()
t = ast.parse(src)
want = sys.argv[2:]
def strip(n):
    for x in ast.walk(n):
        if isinstance(x, (ast.FunctionDef, ast.ClassDef)) and x.body and isinstance(x.body[0], ast.Expr) and isinstance(x.body[0].value, ast.Constant) and isinstance(x.body[0].value.value, str):
            x.body = x.body[1:] or [ast.Pass()]
    return n
for n in t.body:
    if isinstance(n, ast.FunctionDef) and n.name in want:
        print("# line", n.lineno); print(ast.unparse(strip(n))); print()
    if isinstance(n, ast.ClassDef):
        for m in n.body:
            if isinstance(m, ast.FunctionDef) and (n.name + "." + m.name in want or m.name in want):
                print("# line", m.lineno, [ast.unparse(d) for d in m.decorator_list]); print(ast.unparse(strip(m))); print()
