#!/bin/sh
# refshow.sh <variant> : apply the variant to a scratch copy, print check output (no 'required' lines) ; leaves the copy at /tmp/w/t
rm -rf /tmp/w/t; mkdir -p /tmp/w/t; cp -r /repo/typhon /tmp/w/t/
(cd /tmp/w/t && patch -p1 -s < /verif/seeded/refactorings/$1/patch.diff)
P=$(echo $1 | cut -d- -f1)
/verif/check $P --root /tmp/w/t --no-evidence | grep -v "^    required"
