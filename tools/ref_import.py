#!/usr/bin/env python3
"""ref_import.py <srcroot> <tag>: copy <srcroot>/Cnn/out/rK/{patch.diff,meta.json} to seeded/refactorings/Cnn-<tag>K"""
import glob, os, shutil, sys
src, tag = sys.argv[1], sys.argv[2]
n = 0
for d in sorted(glob.glob(os.path.join(src, "C??", "out", "r*"))):
    prop = d.split(os.sep)[-3]
    k = os.path.basename(d)[1:]
    if not (os.path.exists(d + "/patch.diff") and os.path.exists(d + "/meta.json")):
        continue
    dst = "/verif/seeded/refactorings/%s-%s%s" % (prop, tag, k)
    os.makedirs(dst, exist_ok=True)
    shutil.copy(d + "/patch.diff", dst)
    shutil.copy(d + "/meta.json", dst)
    n += 1
print(n, "variants imported")
