#!/usr/bin/env python3
"""Write seeded/refactorings.md from the results of the last `tools/ref_check.py` run (/tmp/ref_results.json)."""
import json
res = json.load(open("/tmp/ref_results.json"))
rounds = {"r": "round 1 (single idioms)", "s": "round 2 (combined idioms, helper extraction, loop restructuring)", "t": "round 3 (same brief as round 2, fresh agents)",
          "u": "round 4 (same brief, fresh agents, on the repaired tree)",
          "v": "round 5 (same brief, fresh agents, novelty guard in place)",
          "w": "round 6 (helpers with guard clauses, reorganised early returns, in-place <-> out-of-place on locals; after the obligations of DESIGN section 29)",
          "x": "round 7 (as round 6 plus module / class constants, explicit dtypes, wrapper + worker splits; after the obligations of DESIGN section 31)",
          "y": "round 8 (plumbing around the computation: forwarding, defaults, error paths, result assembly; after the obligations of DESIGN section 33)",
          "z": "round 9 (guard clauses and early returns, string helpers, context managers, serialisation, save / load / reset; after the obligations of DESIGN section 35)",
          "q": "round 10 (25 variants of C01, C02, C06, C13, C16: only the string / name / date helpers that the table rules of DESIGN sections 36-37 evaluate, restructured heavily)"}
out = ["# Behaviour-preserving variants (`seeded/refactorings/`)", "",
       "Each directory holds `patch.diff` (against `/repo` HEAD) and `meta.json` (what the sub-agent did and how it verified",
       "equivalence: unchanged test result, import check, old-versus-new harness).  `python3 tools/ref_check.py [filter]` applies every",
       "variant to a scratch copy and runs the check of its property: **exit 0** = property decided to hold (right), **exit 1** = false",
       "alarm (wrong; none left), **exit 2** = no verdict (the rule does not recognise the new structure).",
       "Variants that edit lines changed by a later `fix:` commit were re-based with `tools/ref_port.sh`.", ""]
for tag, title in rounds.items():
    rows = [r for r in res if r["variant"].split("-")[1][0] == tag]
    t = {}
    for r in rows:
        t[r["exit"]] = t.get(r["exit"], 0) + 1
    out += ["## %s: %d variants - %d exit 0, %d exit 1, %d exit 2" % (title, len(rows), t.get(0, 0), t.get(1, 0), t.get(2, 0)), "", "| variant | exit | transformation |", "|---|---|---|"]
    for r in rows:
        kind = ""
        try:
            m = json.load(open("/verif/seeded/refactorings/%s/meta.json" % r["variant"]))
            kind = m.get("kind", "")
            fn = m.get("function") or m.get("where") or ""
            if fn:
                kind += " - " + str(fn)
        except Exception:
            pass
        out.append("| %s | %s | %s |" % (r["variant"], r["exit"], kind.replace("|", "/")[:200]))
    out.append("")
open("/verif/seeded/refactorings.md", "w").write("\n".join(out))
print("written", len(res))
