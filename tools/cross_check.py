#!/usr/bin/env python3
"""cross_check.py [filter]: every seeded breaking change applied ON TOP OF every behaviour-preserving variant of the same property
(where both patches apply): the check must still report it (exit 1).  exit 0 on such a combination means the normaliser / a
generalised rule lost the defect on the refactored spelling; exit 2 = cannot analyse.  Results: /tmp/cross_results.json"""
import concurrent.futures as cf, glob, json, os, shutil, subprocess, sys, tempfile

SEEDS = sorted(d for d in glob.glob("/verif/seeded/C??-??") if os.path.exists(d + "/patch.diff"))
REFS = sorted(d for d in glob.glob("/verif/seeded/refactorings/C??-??") if os.path.exists(d + "/patch.diff"))


def touched(patch):
    return sorted({l[6:].split("\t")[0].strip() for l in open(patch) if l.startswith("+++ b/")})


def one(job):
    s, r = job
    prop = os.path.basename(s).split("-")[0]
    w = tempfile.mkdtemp(prefix="cx_", dir="/tmp")
    try:
        shutil.copytree("/repo/typhon", os.path.join(w, "typhon"))
        p = subprocess.run("patch -p1 -s --no-backup-if-mismatch < %s/patch.diff" % r, shell=True, cwd=w, capture_output=True, text=True)
        if p.returncode != 0:
            return s, r, "REF-PATCH-FAILED"
        # the seeded change is merged three-way (base /repo, ours = variant, theirs = /repo + seeded change): overlapping edits -> not applicable
        t = os.path.join(w, "_theirs")
        os.makedirs(t)
        shutil.copytree("/repo/typhon", os.path.join(t, "typhon"))
        p = subprocess.run("patch -p1 -s --no-backup-if-mismatch < %s/patch.diff" % s, shell=True, cwd=t, capture_output=True, text=True)
        if p.returncode != 0:
            return s, r, "SEED-PATCH-FAILED"
        for f in touched(s + "/patch.diff"):
            m = subprocess.run(["git", "merge-file", "-p", os.path.join(w, f), os.path.join("/repo", f), os.path.join(t, f)], capture_output=True)
            if m.returncode != 0:
                return s, r, "n/a"
            open(os.path.join(w, f), "wb").write(m.stdout)
        shutil.rmtree(t)
        for f in touched(s + "/patch.diff"):
            c = subprocess.run(["/venv/bin/python", "-m", "py_compile", os.path.join(w, f)], capture_output=True, text=True)
            if c.returncode != 0:
                return s, r, "n/a"
        # the novelty guard (tyverif/novelty.py) is switched off: this corpus measures what the RULES see on refactored code;
        # CROSS_GUARD=1 keeps it on (then most combinations are "no verdict" by design)
        env = dict(os.environ)
        if not os.environ.get("CROSS_GUARD"):
            env["TYVERIF_NOVELTY_LIMIT"] = "0"
        c = subprocess.run(["/verif/check", prop, "--root", w, "--no-evidence"], capture_output=True, text=True, env=env)
        return s, r, c.returncode
    finally:
        shutil.rmtree(w, ignore_errors=True)


flt = sys.argv[1:]
vflt = [v for v in os.environ.get("CROSS_VARIANTS", "").split(",") if v]        # optional: only variants whose name contains one of these
OUT = os.environ.get("CROSS_OUT", "/tmp/cross_results.json")
jobs = []
for s in SEEDS:
    prop = os.path.basename(s).split("-")[0]
    if flt and not any(a in s for a in flt):
        continue
    ts = set(touched(s + "/patch.diff"))
    for r in REFS:
        if os.path.basename(r).split("-")[0] != prop:
            continue
        if vflt and not any(v in os.path.basename(r) for v in vflt):
            continue
        if ts & set(touched(r + "/patch.diff")):
            jobs.append((s, r))
with cf.ThreadPoolExecutor(int(os.environ.get("CROSS_JOBS", "16"))) as ex:
    res = list(ex.map(one, jobs))
tally = {}
for s, r, rc in res:
    tally[rc] = tally.get(rc, 0) + 1
    if rc in (0, 2):
        print("%s on %s -> exit %s" % (os.path.basename(s), os.path.basename(r), rc))
print("combinations: %d  outcomes: %s" % (len(res), tally))
json.dump([{"seed": os.path.basename(s), "variant": os.path.basename(r), "exit": rc} for s, r, rc in res], open(OUT, "w"), indent=1)
