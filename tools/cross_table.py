#!/usr/bin/env python3
"""cross_table.py: seeded/cross.md from /tmp/cross_results.json (written by tools/cross_check.py)"""
import json, collections
r = json.load(open("/tmp/cross_results.json"))
per = collections.OrderedDict()
for x in r:
    p = x["seed"].split("-")[0]
    d = per.setdefault(p, collections.Counter())
    d[str(x["exit"])] += 1
out = ["# Seeded changes on top of behaviour-preserving variants", "",
       "Every seeded breaking change of a property is merged three-way (`git merge-file`: base `/repo`, ours = the variant, theirs = `/repo` +",
       "the seeded change) into every behaviour-preserving variant of the same property that edits the same file; combinations whose edits",
       "overlap do not merge and are not applicable.  The check of the property is then run on the result: it must still report the change",
       "(exit 1).  Exit 0 would mean that the normaliser or a generalised rule loses the defect on the refactored spelling; exit 2 = the variant",
       "(or the change) is outside what the rules can read.  Produced by `tools/cross_check.py` + `tools/cross_table.py`.", "",
       "| property | combinations | reported (exit 1) | not applicable (edits overlap) | exit 2 | exit 0 |", "|---|---|---|---|---|---|"]
tot = collections.Counter()
for p, d in per.items():
    n = sum(d.values())
    out.append("| %s | %d | %d | %d | %d | %d |" % (p, n, d["1"], d["n/a"], d["2"], d["0"]))
    tot.update(d)
out.append("| **all** | **%d** | **%d** | **%d** | **%d** | **%d** |" % (sum(tot.values()), tot["1"], tot["n/a"], tot["2"], tot["0"]))
out += ["", "Combinations with exit 0 or 2:", ""]
agg = collections.OrderedDict()
for x in r:
    if x["exit"] in (0, 2):
        agg.setdefault((x["seed"], x["exit"]), []).append(x["variant"])
for (s, e), vs in agg.items():
    out.append("* `%s` -> exit %s on %s" % (s, e, ", ".join(vs)))
open("/verif/seeded/cross.md", "w").write("\n".join(out) + "\n")
print("\n".join(out[8:32]))
