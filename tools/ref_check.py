#!/usr/bin/env python3
"""Run behaviour-preserving variants (/tmp/ref/Cnn/out/rK/patch.diff) through the check of their property.
   exit 1 on such a variant is a FALSE ALARM of the checker; exit 2 = cannot analyse (acceptable, listed)."""
import concurrent.futures as cf, glob, json, os, re, shutil, subprocess, sys, tempfile

def one(d):
    prop = os.path.basename(d).split("-")[0]
    w = tempfile.mkdtemp(prefix="rf_", dir="/tmp")
    try:
        shutil.copytree("/repo/typhon", os.path.join(w, "typhon"))
        p = subprocess.run("patch -p1 -s --no-backup-if-mismatch < %s/patch.diff" % d, shell=True, cwd=w, capture_output=True, text=True)
        if p.returncode != 0:
            return d, prop, "PATCH-FAILED", ""
        c = subprocess.run(["/verif/check", prop, "--root", w, "--no-evidence"], capture_output=True, text=True)
        lines = [l for l in c.stdout.splitlines() if l.startswith("VIOLATION") or l.startswith("ANALYSIS-ERROR") or l.startswith("  typhon") or l.startswith("    extracted")]
        return d, prop, c.returncode, "\n".join(lines)[:1500]
    finally:
        shutil.rmtree(w, ignore_errors=True)

dirs = sorted(glob.glob("/verif/seeded/refactorings/C*-*"))
dirs = [d for d in dirs if os.path.exists(d + "/patch.diff")]
if len(sys.argv) > 1:
    dirs = [d for d in dirs if any(a in d for a in sys.argv[1:])]
with cf.ThreadPoolExecutor(8) as ex:
    res = list(ex.map(one, dirs))
tally = {}
for d, prop, rc, out in res:
    tally[rc] = tally.get(rc, 0) + 1
    if rc != 0:
        kind = ""
        try:
            kind = json.load(open(d + "/meta.json")).get("kind", "")
        except Exception:
            pass
        print("=== %s exit %s  [%s]" % (os.path.basename(d), rc, kind))
        print(out)
print("variants: %d  outcomes: %s" % (len(res), tally))
json.dump([{"variant": os.path.basename(d), "property": p, "exit": rc} for d, p, rc, _ in res], open("/tmp/ref_results.json", "w"), indent=1)
