#!/usr/bin/env python3
"""Regenerate tyverif/known_funcs.json: the names of the functions (and the headers of the `for` loops) that
exist in /repo today.  The normaliser inlines / unrolls only constructs that are NOT in this snapshot, so the
rules keep seeing today's code exactly as it was read when they were written."""
import ast, json, os, sys
root = sys.argv[1] if len(sys.argv) > 1 else "/repo"
out = {}
for dp, dn, fn in os.walk(os.path.join(root, "typhon")):
    for f in fn:
        if not f.endswith(".py"):
            continue
        p = os.path.join(dp, f)
        rel = os.path.relpath(p, root)
        try:
            tree = ast.parse(open(p).read())
        except SyntaxError:
            continue
        names = set()

        def rec(node, prefix, nested):
            for ch in ast.iter_child_nodes(node):
                if isinstance(ch, (ast.FunctionDef, ast.AsyncFunctionDef)):
                    names.add(("<nested>." if nested else prefix) + ch.name)
                    rec(ch, prefix, True)
                elif isinstance(ch, ast.ClassDef):
                    rec(ch, prefix + ch.name + ".", nested)
                else:
                    if isinstance(ch, ast.For):
                        names.add("<for>:%s in %s" % (ast.unparse(ch.target), ast.unparse(ch.iter)))
                    if isinstance(ch, (ast.Assign, ast.Return, ast.AugAssign, ast.AnnAssign)) and isinstance(getattr(ch, "value", None), ast.IfExp):
                        names.add("<ifexp>:" + ast.unparse(ch))
                    rec(ch, prefix, nested)
        rec(tree, "", False)
        for st in tree.body:
            if isinstance(st, ast.Assign):
                for t in st.targets:
                    if isinstance(t, ast.Name):
                        names.add("<global>:" + t.id)
        out[rel] = sorted(names)
here = os.path.dirname(os.path.abspath(__file__))
json.dump(out, open(os.path.join(here, "..", "tyverif", "known_funcs.json"), "w"), indent=0, sort_keys=True)
# locals of every function / method: how each is defined (for renaming new names back and recognising new temporaries)
sys.path.insert(0, os.path.join(here, ".."))
from tyverif.normalize import local_signatures
loc = {}
for dp, dn, fn in os.walk(os.path.join(root, "typhon")):
    for f in fn:
        if not f.endswith(".py"):
            continue
        p = os.path.join(dp, f)
        rel = os.path.relpath(p, root)
        try:
            tree = ast.parse(open(p).read())
        except SyntaxError:
            continue
        d = {}
        for n in tree.body:
            if isinstance(n, (ast.FunctionDef, ast.AsyncFunctionDef)):
                d[n.name] = local_signatures(n)
            elif isinstance(n, ast.ClassDef):
                for m in n.body:
                    if isinstance(m, (ast.FunctionDef, ast.AsyncFunctionDef)):
                        q = n.name + "." + m.name
                        decos = [ast.unparse(x) for x in m.decorator_list]
                        if any(x.endswith(".setter") for x in decos):
                            q += ".setter"
                        d[q] = local_signatures(m)
        loc[rel] = d
json.dump(loc, open(os.path.join(here, "..", "tyverif", "known_locals.json"), "w"), indent=0, sort_keys=True)
print(sum(len(v) for v in out.values()), "entries")

# statements of every function (digests): the reference for tyverif/novelty.py
from tyverif.novelty import snapshot_of
st = {}
for dp, dn, fn in os.walk(os.path.join(root, "typhon")):
    for f in fn:
        if not f.endswith(".py"):
            continue
        p = os.path.join(dp, f)
        rel = os.path.relpath(p, root)
        try:
            tree = ast.parse(open(p).read())
        except SyntaxError:
            continue
        st[rel] = snapshot_of(tree)
json.dump(st, open(os.path.join(here, "..", "tyverif", "known_stmts.json"), "w"), indent=0, sort_keys=True)
print("known_stmts:", sum(len(v) for v in st.values()), "functions")
# state snapshot: module-level names, attributes assigned per class, memoised functions, mutable defaults, global statements
from tyverif.state import snapshot as _state_snapshot
json.dump(_state_snapshot(root), open(os.path.join(here, "..", "tyverif", "known_state.json"), "w"), indent=0, sort_keys=True)
