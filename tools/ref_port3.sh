#!/bin/sh
# ref_port3.sh <variant dir> <old commit> : re-base by REPLAYING the fix commits old..HEAD of /repo onto the variant tree with `patch -F3`
# (hunk-wise, tolerant of neighbouring edits).  Leaves /tmp/w/port/<name>/var and .rej files when a hunk does not apply; prints REJECT then.
V=$1; OLD=$2
N=$(basename $V); W=/tmp/w/port/$N
rm -rf $W; mkdir -p $W/var $W/new
(cd /repo && git archive $OLD typhon | tar -x -C $W/var)
(cd /repo && git archive HEAD typhon | tar -x -C $W/new)
(cd $W/var && patch -p1 -s < $V/patch.diff) || { echo "BASE-FAILED $N"; exit 1; }
rej=0
for c in $(cd /repo && git rev-list --reverse $OLD..HEAD); do
  (cd /repo && git diff $c^ $c -- typhon) > $W/fix.diff
  (cd $W/var && patch -p1 -s -F3 -N --no-backup-if-mismatch < $W/fix.diff >/dev/null 2>&1) || rej=1
done
find $W/var -name '*.orig' -delete
if [ $rej = 1 ] || [ -n "$(find $W/var -name '*.rej')" ]; then echo "REJECT $N: $(find $W/var -name '*.rej' | tr '\n' ' ')"; exit 2; fi
(cd $W && diff -ruN new/typhon var/typhon | sed 's#^--- new/#--- a/#; s#^+++ var/#+++ b/#; s#^diff -ruN new/\(.*\) var/.*#diff --git a/\1 b/\1#') > $V/patch.diff || true
for f in $(grep '^+++ b/' $V/patch.diff | sed 's#^+++ b/##' | sed 's/\t.*//'); do /venv/bin/python -c "import ast,sys; ast.parse(open('$W/var/$f').read())" || echo "SYNTAX $N $f"; done
rm -rf $W
echo "ported $N"
