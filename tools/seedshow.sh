#!/bin/sh
# seedshow.sh <seed> [PROP]: apply the seeded change to a scratch copy (/tmp/w/s), print the check output; never touches /repo
rm -rf /tmp/w/s; mkdir -p /tmp/w/s; cp -r /repo/typhon /tmp/w/s/
(cd /tmp/w/s && patch -p1 -s < /verif/seeded/$1/patch.diff)
P=${2:-$(echo $1 | cut -d- -f1)}
/verif/check $P --root /tmp/w/s --no-evidence | grep -v "^    required"
