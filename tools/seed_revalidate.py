#!/usr/bin/env python3
"""Re-confirm every seeded change on the current /repo HEAD: patch applies, demo exits 0 without and non-zero with the patch.
   (Run after fix commits: a repair can make a seeded change harmless or a demo obsolete.)   usage: seed_revalidate.py [filter ...]"""
import concurrent.futures as cf, glob, json, os, shutil, subprocess, sys, tempfile

def sh(cmd, cwd=None, timeout=900):
    try:
        p = subprocess.run(cmd, shell=True, cwd=cwd, capture_output=True, text=True, timeout=timeout)
        return p.returncode, p.stdout + p.stderr
    except subprocess.TimeoutExpired:
        return 124, "timeout"

def one(d):
    w = tempfile.mkdtemp(prefix="sv_", dir="/tmp")
    try:
        sh("git clone -q /repo %s/r" % w)
        r = w + "/r"
        os.makedirs(r + "/out/m0", exist_ok=True)
        shutil.copy(d + "/demo.py", r + "/out/m0/demo.py")
        rc0, o0 = sh("/venv/bin/python out/m0/demo.py", r, 600)
        rc, o = sh("git apply %s/patch.diff || patch -p1 -s -F3 --no-backup-if-mismatch < %s/patch.diff" % (d, d), r)
        if rc != 0:
            return os.path.basename(d), "PATCH-FAILED", rc0, None
        rc1, o1 = sh("/venv/bin/python out/m0/demo.py", r, 600)
        return os.path.basename(d), "ok" if (rc0 == 0 and rc1 != 0) else "STALE", rc0, rc1
    finally:
        shutil.rmtree(w, ignore_errors=True)

dirs = sorted(d for d in glob.glob("/verif/seeded/C*-*") if os.path.exists(d + "/demo.py"))
if len(sys.argv) > 1:
    dirs = [d for d in dirs if any(a in d for a in sys.argv[1:])]
with cf.ThreadPoolExecutor(10) as ex:
    res = list(ex.map(one, dirs))
bad = [r for r in res if r[1] != "ok"]
for r in bad:
    print(r)
print("%d seeded changes, %d re-confirmed on HEAD" % (len(res), len(res) - len(bad)))
