#!/usr/bin/env python3
"""Regenerate /verif/MANIFEST.json from the table below (run from /verif)."""
import json, os, sys
HERE = os.path.dirname(os.path.dirname(os.path.abspath(__file__)))
props = [json.loads(l) for l in open(os.path.join(HERE, "properties.jsonl"))]

# properties with obligations decided by evaluating the syntax tree of small string / name helpers on finite tables (tyverif/strmachine.py, DESIGN.md section 36)
_TB = (" In addition the syntax tree of %s is interpreted by the evaluator tyverif/strmachine.py on a finite table of values supplied by the rule (%s): a finite "
       "model read from the source, like the order-type models - it decides where the structural rules cannot read a restructured function, and it is a "
       "table verdict (a defect outside the rows is not seen by it).")
TABLES = {
 "C02": _TB % ("_fill_placeholders, get_filename, parse_filename, _to_datetime_args, _standardise_datetime_args, _retrieve_time_coverage, _remove_group_capturing and FileInfo.update",
               "9 templates x 153 candidate names; 8 templates x 6 pairs of times round trip; 12 combinations of known / unknown times"),
 "C01": _TB % ("_fill_placeholders", "9 templates x 153 candidate names"),
 "C16": _TB % ("_fill_placeholders", "9 templates x 153 candidate names"),
 "C06": _TB % ("split_units", "40 radius spellings"),
 "C13": _TB % ("get_xarray_groups and get_xarray_group", "6 tables of variable names x 14 group names"),
}

# property -> (technique, decided clauses, not decided / trusted base)
T = {
 "C03": ("order-type models of the predicates/masks/guards read from trees.py (all weak orderings, exhaustive) + def-use provenance in FileSet.match",
         "interval_overlaps/contains are the closed-interval predicates; the three bins of _build_tree partition every row; every descent guard is implied by 'a row of that child can match' and the recursive call receives the tested child; every early return returns the complete answer; rows are only permuted as rows; emptiness by size; extent = global min/max; match() widens period and secondaries with the right signs by the whole max_interval, builds the tree from the secondaries, queries with the primaries and indexes the same lists",
         "numpy behaviour for mixed dtypes, second truncation of sub-second coverages in match(), FileSet.find itself (C01)"),
 "C08": ("formula algebra: function bodies of physics/em.py turned into sympy terms, identities decided by canonical forms (cancel/simplify, branch-wise for np.where)",
         "the three Planck forms and both Rayleigh-Jeans forms describe one spectrum; both brightness-temperature inversions are exact inverses; planck/rayleighjeans = u/(e^u-1); the six unit converters are pairwise inverse and commute; per-unit converters carry the right Jacobian, invert each other and reverse quantity and grid along axis 0 only; Snell's law on the real branch (no clipping), NaN mapping; Rv = -Rh at normal incidence; Rv = 0 != Rh at the Brewster angle",
         "floating-point behaviour (cancellation at small/large hf/kT, monotonicity numerics), complex-index branch of snell, |R| <= 1"),
 "C09": ("formula algebra in Q(x, M_w, M_d) + order model of the temperature guards and masks",
         "six converters: inverse pairs, every two-step route equals the direct one, 0 -> 0 without dividing by the argument, positive derivative on [0,1); RH<->VMR inverse for an opaque saturation function and with equal defaults; e_eq_*_mk reject T <= 0 and return exp(.); mixed phase = ice + (liquid-ice) w^2 with w=0 / w=1 exactly at the ice / liquid mask thresholds and each mask paired with its phase; lapse rate -> g/c_p for vanishing saturation mixing ratio; four constants against reference values",
         "monotonicity of the Murphy-Koop fits, ice <= liquid below the triple point, numerical range of the lapse rate"),
 "C12": ("table agreement + statement-level CFG with exceptional and generator-exit edges (all-exits-release, unreachable-from-exception) + symbolic file-name model",
         "format table = {gz,bz2,zip,xz} -> stdlib classes, read by is_compression_format/get_compressor, every key has a writer branch, suffix compared without its dot; decompress unlinks its temporary copy on every exit reachable after creating it; compress yields a path inside a TemporaryDirectory and calls compress_as inside it; compress_as is unreachable from an exception at the yield and nothing else writes the target; non-compression suffixes pass through untouched; the zip member written and the member opened are the same function of the name",
         "byte-level round trip through the stdlib codecs, partial target after a failure inside compress_as"),
 "C15": ("statement-level CFG (ordering, exception reachability, dominance) + format-table agreement",
         "save_cache opens only a sibling path for writing, dumps one complete document, leaves the with-block and then renames sibling -> target; the rename is unreachable from any exception raised while writing and is the last effect; load_cache parses inside `except Exception` that warns and does not re-raise and updates the cache with the complete dictionary only; the exit hook is registered only after a load that did not raise; writer/reader time formats agree, keep microseconds and are width-stable from datetime.min; get_info looks the cache up first and stores last; the time_coverage setter resets the cache on every path",
         "JSON library behaviour, atomicity of rename in the file system, equality of find() results with/without cache"),
 "C17": ("formula algebra over generic symbolic matrices: return terms evaluated entrywise for (m,n) in {(2,1),(1,2),(2,2)} with symmetric S_a, S_y and compared as rational functions; purity (effect) lint",
         "error_covariance_matrix = (K^T S_y^-1 K + S_a^-1)^-1; gain = S K^T S_y^-1 (any algebraically equal form, e.g. the m-form, passes); A = G K; smoothing_error = A (x - x_a); retrieval_noise = G e_y; ill-typed products are reported; no module state / id()-keyed caches",
         "conditioning, positive definiteness, eigenvalue bounds, limits for vanishing noise/prior; identities are decided for the listed small shapes"),
 "C19": ("formula algebra on the element-wise terms of scores.py + structural check of the shape guard",
         "quantile_score = tau*|d| below, (1-tau)*|d| above, 0 at equality, taus used unchanged; y_test is reshaped to exactly (rows of y_tau, 1) inside a try that raises ValueError; mape and bias: zero on the diagonal, degree-0 homogeneous (also for negative factors), value p resp. +p/-p for predictions p percent off, symmetric mean over samples",
         "minimiser property of the pinball loss (a theorem), numpy broadcasting of odd shapes"),
 "C04": ("CFG dominance + def-use provenance of the collocate() call chain, order models of the temporal mask and the time window, emptiness lint",
         "temporal mask is |dt| < max_interval (strict), computed from the NaN-filtered times with filtered-space pair rows, and the same mask filters pairs, intervals and distances; the common time window subtracts/adds max_interval on the right sides, is sound on a 9-symbol box and selects inclusively; valid = lat and lon not null, all three return paths map pairs back through the index arrays of the same masks; build/query roles and row swap-back under the same flag (direct and binned search); bin tuple packed/unpacked in one order, each offset added to its own row and equal to the searchsorted of the bound that starts its inclusive slice; emptiness tested by size; a cached index is reused only if BOTH coordinate arrays match and have the same shape",
         "sklearn trees, xarray sel/stack on gridded input, equivalence of direct and binned search as a whole, approximate (allclose) index reuse, second truncation of the stored interval"),
 "C06": ("table agreement with SI definitions, monomial algebra of the per-metric scale factors, CFG path rule for the de-shuffling, provenance of pair/distance order",
         "every unit factor equals its SI value in km and to_kilometers multiplies by the matching row; per metric the radius is converted to the tree's unit (1000 resp. 1000/earth_radius) and radius factor x distance factor = 1; the build points are permuted by sigma and every return of pairs with sigma in use passes pairs[0] = sigma[pairs[0]] (row 0 only); pairs are [[build, query]...].T in query-major order and the distances are flattened in the same order; emptiness by size with a (pairs, distances) return; minkowski -> column_stack(geocentric2cart(earth_radius, lat, lon)) and haversine -> radians([lat, lon]) in double precision",
         "sklearn BallTree/KDTree correctness, chord vs arc numerics, split_units parsing"),
 "C13": ("def-use provenance over _create_return / collapse / expand / concat_collocations and the pseudo-group helpers, read-before-increment order, default table",
         "the unique index array that builds the inverse map is the one that selects the data and row i is translated with map i; _rows_for_secondaries reads the running count before incrementing; collapse takes complementary pair rows, computes rows_in_bins from the reference row on every path, sizes and NaN-fills the bin matrix and scatters partner values at [row-in-bin, reference index]; default collapsers are nanmean/nanstd/count-non-NaN along the passed axis with user entries overriding; expand selects group k with pair row k unconditionally; writer and readers of the group/name convention agree; concat shifts row 0/1 by the running primary/secondary size, accumulated after use, and concatenates each group along its own dimension",
         "xarray isel/merge/concat semantics, extra dimensions"),
 "C14": ("API resolution against the installed numpy (helper process, imports the library only), call binding, formula algebra over an opaque integral atom, shape model of the CRH level loop, table checks",
         "every numpy/scipy name of the integration chain exists (or is guarded by a getattr fall-back that exists); integrate_column forwards the caller's y, x, axis unchanged to the trapezoidal rule; IWV hydrostatic = -I(q(vmr), p)/g and general = I(vmr p/(R_v T), z) with the water-vapour gas constant, mixed T/z raises; CRH = IWV(vmr(q))/IWV(vmr(q_s)) with q_s level-wise from the mixed-phase saturation pressure and the level loop bounded by the size of the integration axis (shape model for ndim 1-3); pressure2height = [0, cumsum(-dp/(rho_mean g))] as float with the pressure-addressed standard atmosphere as default; ISA tables monotone and of equal length, log on both sides of the pressure branch",
         "quadrature accuracy, convergence of the two IWV forms, numerical monotonicity"),
 "C18": ("def-use provenance of the database permutation and window, formula algebra on 2-entry / 2-channel symbolic instances, API resolution, guard-order lint",
         "one argsort permutation is applied to projection, x and y and the x-sorted view uses the permuted x; eigenvalue and eigenvector (column) share the index of the smallest eigenvalue, database and observation are projected alike, h^2 = 2 x2_max lambda_min; w = exp(-dy S^-1 dy^T / 2) with S^-1 = inv(s_o); mean and std equal the weighted moments (2-entry instance); weights/x share the window bounds, the x-sorted mask is i_l <= k < i_u shifted by -i_l; NaN fall-back uses existing names and its selecting test is total on an empty window; cdf = cumsum/last, quantiles = interp(taus, cdf, xs)",
         "eigen-solver accuracy, floating-point cancellation in algebraically equal variance formulas, permutation invariance numerics"),
 "C01": ("tick model of the semi-open period composed from find()'s statements and IntervalTree's predicate, two-level directory-pruning model with extracted signs/operators/truncations, CFG definite-assignment and dominance rules, boolean models of filter/sort guards, table checks; IntervalTree rules of C03 shared",
         "files are tested with t0 < E and t1 >= S (end exclusive by exactly one 1-us tick), also in the single-file arm and for `t in fileset`; the search directories start one finest-directory-period before the start, both bounds are truncated to each level's unit, and a file overlapping the query always sits in a directory that passes (model with periods 3 and 6); regex anchored, template escaped before substitution; every yielded file passed overlap and `not is_excluded` (name set or period tree); white/black list split and keep condition; sorted by (t0, t1) iff sort or integer bundle; integer bundling is a partition; set_time_resolution resets exactly the finer fields; resolution table decreasing with month >= 31 d, year >= 366 d; len/iter use find(); the path setter re-derives every path-dependent attribute on every path; time_coverage resets the cache",
         "the file-system walk (fsspec glob, zip), handler-provided times, pandas Grouper semantics, directory names that do not parse"),
 "C02": ("writer/reader table agreement (keyword table of get_filename vs regex table), exhaustive two-digit-year model, offset/scale algebra, CFG/structure rules for defaulting, merge order and rejection",
         "every documented temporal placeholder is written from the right time object and field (day of year counted from 1 January of that object's own year) with the width its regex reads; year2 round-trips over 1965..2064; doy writer +1 / reader -1; millisecond scale and the reader's sub-second weights; partial end times are completed from the start with end fields winning, rolled over by the unit next-coarser than the COARSEST end field exactly when end < start; missing end = start + time_coverage or start, end without start is an error; file-name information first and handler information second, consulted exactly under 'handler'/'both', None never overwrites a time; non-matching names raise ValueError, unknown/unfilled placeholders their dedicated errors; regex anchored/escaped",
         "user regexes with special characters beyond the table's, ends that need a roll-over on the table level (structural C02.endfill only), string-level behaviour of re / str.format outside the tables"),
 "C05": ("CFG/structure rules of the supervision loop and the per-process caller (typestate of the bundle cache), def-use provenance of chunking, pairing and naming; C03.match, C10.align, C13.concat shared",
         "results are drained by a LOOP placed after the liveness filter (or once more after the supervision loop), every non-None queue element is yielded, joins follow, errors are read last; the caller puts every saved bundle, resets the cache after a flush, flushes the tail; a crash is signalled on both queues before re-raising; matches are split into min(processes, len) chunks with one process per chunk; the flat bookkeeping list has align's primary-major order; output names come from the collocations' own time span (min/max primary time); plus file matching, ordered loading and concat offsets",
         "queue interleavings and multiprocessing.Queue semantics, equality of the multisets across process counts as a whole, NetCDF round trip of written files, bundle boundaries after skipped files"),
 "C07": ("formula algebra with sin/cos of the angles as polynomial variables reduced modulo s^2 + c^2 = 1 (Groebner remainder), opaque inverse-trig atoms for argument-order checks, literal/table checks",
         "geodetic2cart(0) lies on the ellipsoid, the surface normal there has the given latitude/longitude and height moves along it; ellipsoid_r_geodetic/geocentric are the radii of surface points and reduce to a for e = 0; geocentric2cart components and cart2geocentric = (sqrt(x^2+y^2+z^2), asin(z/r), atan2(y, x)) in degrees; great_circle_distance symmetric, exactly zero on the diagonal by cancellation (not by a trig identity), longitude-shift invariant, tunnel = 2 R sin(arc/2); one iteration step of cart2geodetic is a fixed point at the true (phi, h); the loop runs while ANY element is unconverged with tolerance <= 1.2e-7 rad; the composed routes forward the ellipsoid; model table",
         "convergence and the 1 cm / 1e-7 deg accuracy of the iteration (e.g. at |lat| = 88), floating point, position + line-of-sight conversions, triangle inequality and bounds"),
 "C10": ("typestate/CFG rules for imap's FIFO and flush, inductive loop-invariant model, effect lint for unordered executor APIs, provenance of the worker tuple, structure of the error wrapper, collect filter, align's cache protocol",
         "imap: insertions by append, removals only by popleft()/pop(0), nothing else touches the queue, every yield is <removed head>.result(), one submit per worker_args element; len(queue) <= workers is inductive and the head is never taken from an empty queue; a drain loop lies on every normal path after the submissions; map returns list(pool.map(...)) and neither uses as_completed/wait; the 11-tuple is packed/unpacked in one order, find() supplies files only under `files is None`; only the read is inside the warning-downgrading try and the handler re-raises unless error_to_warning; collect drops exactly None contents; align pulls a secondary only when not cached, checks its name, decrements once per use, evicts at zero and no primary skips its secondaries",
         "executor behaviour, actual completion orders, pickling of processes"),
 "C11": ("call binding against resolved signatures (incl. the higher-order route through FileSet.map), swapped-argument lint, effect sets, CFG dominance for write/read wrappers, table checks; C10.args, C02.table and C01.pathstate shared",
         "every worker handed to map() binds as f(file, **kwargs) and the direct calls bind without swapped same-named arguments; dry-run delete has no file-system effect, real delete removes exactly its argument; the move worker names the target with destination.get_filename(file.times, fill=file.attr), removes the source only without copy and after the write, creates the target directory first, on a file system object that exists in the worker; write: make_dirs dominates the handler write, compress wrapper iff self.compress with the handler writing to the yielded path; read: decompress iff the flag, post_reader before every return, per-call arguments override defaults; default handler table and suffix derivation; item access dispatch; explicit empty selections select nothing; generated names; path setter completeness",
         "NetCDF/CSV content round trip (library behaviour), arbitrary histories of operations"),
 "C16": ("CFG/guard extraction for the exact-name short cut, linear forms of the search window, order model of the covering test, provenance of the nearest-file computation",
         "the short cut returns only an existing, not excluded (names and periods) file and only without filters, swallowing placeholder errors only; window = [t - R, t + R] (whole axis without resolution) with the filters forwarded; the first file whose closed coverage contains t is returned before any distance is computed; otherwise files[argmin(min over both ends of |coverage - t|)] (abs before min); single-file filesets answer with their path, an empty neighbourhood gives None; fileset[t] / fileset[t, filters] dispatch",
         "ties, behaviour outside one directory period"),
 "C20": ("table partition check, order model of the overlap predicate, constant folding, boolean model of the cache guard, provenance of the mosaic masks, exact rational index model (T4b) of get_native_grids and of the longitude normalisation",
         "27 tiles of 50 x 40 degrees partition [-60,90] x [-180,180] and are named by their west/north edge; _do_overlap is the open-interior intersection and is called with rectangles in table order; cell size x tile dimension = extent, grids are cell centres (lat descending, lon ascending), tiles are read as big-endian int16 (height, width); a tile is downloaded iff the file read below does not exist (no other file matters); block bounds mask the tile grid and tile bounds the block grid with half-open intervals; get_native_grids returns exactly the rows/columns whose cells meet the open rectangle for aligned and unaligned edges; the longitude normalisation keeps -180 as west and +180 as east edge",
         "float rounding at cell edges, KD-tree interpolation, the download itself"),
}

checks = []
na = []
for p in props:
    pid = p["id"]
    have = os.path.isfile(os.path.join(HERE, "tyverif", "rules", pid + ".py"))
    if pid in T and have:
        tech, decided, notdec = T[pid]
        checks.append({
            "property_id": pid,
            "quick_cmd": "./check %s --tier quick" % pid,
            "thorough_cmd": "./check %s --tier thorough" % pid,
            "evidence_file": "evidence/%s.json" % pid,
            "replay_cmd_template": "./check %s --replay {path}" % pid,
            "engine": "tyverif",
            "level_claimed": {
                "category": "other",
                "text": "Static analysis of /repo's current source; typhon is never imported or run. Decides structural necessary conditions of the property (each attached to a named construct), not the behaviour as a whole. Decided: " + decided + "." + TABLES.get(pid, ""),
                "design_ref": "DESIGN.md section 5 (%s)" % pid},
            "level_note": "Trusted: CPython ast, the tyverif engine (CFG / reaching definitions / order models / algebra), sympy canonical forms, reference tables embedded in the rules. NOT decided: " + notdec + ". An unmet obligation whose construct lies in a function that differs from the snapshot of the tree the rules were confirmed on (tyverif/known_stmts.json) in more than 12 statements is answered with 'no verdict' (ANALYSIS-ERROR, exit 2), never with VIOLATION (DESIGN.md section 25).",
            "technique": "static analysis: " + tech,
        })
    else:
        na.append({"property_id": pid, "reason": "check under construction (static rules designed in DESIGN.md section 5, not built yet)"})

m = {"version": 1, "setup_cmd": "true",
     "hooks": {"guard": "TYPHON_VERIF", "enable": "none needed: the checks read /repo's source text; no hook commits exist",
               "baseline_off_cmd": "cd /repo && /venv/bin/python -m pytest -ra -q -p no:cacheprovider --timeout=900 --continue-on-collection-errors",
               "source_commits": [], "add_only": True},
     "engines": [{"name": "tyverif", "path": "tyverif/", "serves_properties": [c["property_id"] for c in checks],
                  "kind_free_text": "repository-specific static analyser (ast + statement CFG with exceptional edges + reaching definitions + order-type models + sympy formula algebra + table agreement + an evaluator of the syntax tree of small string helpers on finite tables); runs under python3-vt; never imports typhon"}],
     "checks": checks,
     "notes": "Exit codes: 0 all decided clauses hold (KNOWN-FINDING lines for listed defects), 1 VIOLATION, 2 ANALYSIS-ERROR (anchor vanished / construct outside the analysable class). known_findings.json lists repaired (fixed:) and open (known) genuine defects. seeded/ holds independently produced breaking changes and which rule reports each.",
     "not_applicable": na}
json.dump(m, open(os.path.join(HERE, "MANIFEST.json"), "w"), indent=1)
print("checks:", [c["property_id"] for c in checks], "na:", len(na))
