#!/usr/bin/env python3
"""Regenerate /verif/MANIFEST.json from the table below (run from /verif)."""
import json, os, sys
HERE = os.path.dirname(os.path.dirname(os.path.abspath(__file__)))
props = [json.loads(l) for l in open(os.path.join(HERE, "properties.jsonl"))]

# property -> (technique, decided clauses, not decided / trusted base)
T = {
 "C03": ("order-type models of the predicates/masks/guards read from trees.py (all weak orderings, exhaustive) + def-use provenance in FileSet.match",
         "interval_overlaps/contains are the closed-interval predicates; the three bins of _build_tree partition every row; every descent guard is implied by 'a row of that child can match' and the recursive call receives the tested child; every early return returns the complete answer; rows are only permuted as rows; emptiness by size; extent = global min/max; match() widens period and secondaries with the right signs by the whole max_interval, builds the tree from the secondaries, queries with the primaries and indexes the same lists",
         "numpy behaviour for mixed dtypes, second truncation of sub-second coverages in match(), FileSet.find itself (C01)"),
 "C08": ("formula algebra: function bodies of physics/em.py turned into sympy terms, identities decided by canonical forms (cancel/simplify, branch-wise for np.where)",
         "the three Planck forms and both Rayleigh-Jeans forms describe one spectrum; both brightness-temperature inversions are exact inverses; planck/rayleighjeans = u/(e^u-1); the six unit converters are pairwise inverse and commute; per-unit converters carry the right Jacobian, invert each other and reverse quantity and grid along axis 0 only; Snell's law on the real branch (no clipping), NaN mapping; Rv = -Rh at normal incidence; Rv = 0 != Rh at the Brewster angle",
         "floating-point behaviour (cancellation at small/large hf/kT, monotonicity numerics), complex-index branch of snell, |R| <= 1"),
 "C09": ("formula algebra in Q(x, M_w, M_d) + order model of the temperature guards and masks",
         "six converters: inverse pairs, every two-step route equals the direct one, 0 -> 0 without dividing by the argument, positive derivative on [0,1); RH<->VMR inverse for an opaque saturation function and with equal defaults; e_eq_*_mk reject T <= 0 and return exp(.); mixed phase = ice + (liquid-ice) w^2 with w=0 / w=1 exactly at the ice / liquid mask thresholds and each mask paired with its phase; lapse rate -> g/c_p for vanishing saturation mixing ratio; four constants against reference values",
         "monotonicity of the Murphy-Koop fits, ice <= liquid below the triple point, numerical range of the lapse rate"),
 "C12": ("table agreement + statement-level CFG with exceptional and generator-exit edges (all-exits-release, unreachable-from-exception) + symbolic file-name model",
         "format table = {gz,bz2,zip,xz} -> stdlib classes, read by is_compression_format/get_compressor, every key has a writer branch, suffix compared without its dot; decompress unlinks its temporary copy on every exit reachable after creating it; compress yields a path inside a TemporaryDirectory and calls compress_as inside it; compress_as is unreachable from an exception at the yield and nothing else writes the target; non-compression suffixes pass through untouched; the zip member written and the member opened are the same function of the name",
         "byte-level round trip through the stdlib codecs, partial target after a failure inside compress_as"),
 "C15": ("statement-level CFG (ordering, exception reachability, dominance) + format-table agreement",
         "save_cache opens only a sibling path for writing, dumps one complete document, leaves the with-block and then renames sibling -> target; the rename is unreachable from any exception raised while writing and is the last effect; load_cache parses inside `except Exception` that warns and does not re-raise and updates the cache with the complete dictionary only; the exit hook is registered only after a load that did not raise; writer/reader time formats agree, keep microseconds and are width-stable from datetime.min; get_info looks the cache up first and stores last; the time_coverage setter resets the cache on every path",
         "JSON library behaviour, atomicity of rename in the file system, equality of find() results with/without cache"),
 "C17": ("formula algebra over generic symbolic matrices: return terms evaluated entrywise for (m,n) in {(2,1),(1,2),(2,2)} with symmetric S_a, S_y and compared as rational functions; purity (effect) lint",
         "error_covariance_matrix = (K^T S_y^-1 K + S_a^-1)^-1; gain = S K^T S_y^-1 (any algebraically equal form, e.g. the m-form, passes); A = G K; smoothing_error = A (x - x_a); retrieval_noise = G e_y; ill-typed products are reported; no module state / id()-keyed caches",
         "conditioning, positive definiteness, eigenvalue bounds, limits for vanishing noise/prior; identities are decided for the listed small shapes"),
 "C19": ("formula algebra on the element-wise terms of scores.py + structural check of the shape guard",
         "quantile_score = tau*|d| below, (1-tau)*|d| above, 0 at equality, taus used unchanged; y_test is reshaped to exactly (rows of y_tau, 1) inside a try that raises ValueError; mape and bias: zero on the diagonal, degree-0 homogeneous (also for negative factors), value p resp. +p/-p for predictions p percent off, symmetric mean over samples",
         "minimiser property of the pinball loss (a theorem), numpy broadcasting of odd shapes"),
 "C04": ("CFG dominance + def-use provenance of the collocate() call chain, order models of the temporal mask and the time window, emptiness lint",
         "temporal mask is |dt| < max_interval (strict), computed from the NaN-filtered times with filtered-space pair rows, and the same mask filters pairs, intervals and distances; the common time window subtracts/adds max_interval on the right sides, is sound on a 9-symbol box and selects inclusively; valid = lat and lon not null, all three return paths map pairs back through the index arrays of the same masks; build/query roles and row swap-back under the same flag (direct and binned search); bin tuple packed/unpacked in one order, each offset added to its own row and equal to the searchsorted of the bound that starts its inclusive slice; emptiness tested by size; a cached index is reused only if BOTH coordinate arrays match and have the same shape",
         "sklearn trees, xarray sel/stack on gridded input, equivalence of direct and binned search as a whole, approximate (allclose) index reuse, second truncation of the stored interval"),
 "C06": ("table agreement with SI definitions, monomial algebra of the per-metric scale factors, CFG path rule for the de-shuffling, provenance of pair/distance order",
         "every unit factor equals its SI value in km and to_kilometers multiplies by the matching row; per metric the radius is converted to the tree's unit (1000 resp. 1000/earth_radius) and radius factor x distance factor = 1; the build points are permuted by sigma and every return of pairs with sigma in use passes pairs[0] = sigma[pairs[0]] (row 0 only); pairs are [[build, query]...].T in query-major order and the distances are flattened in the same order; emptiness by size with a (pairs, distances) return; minkowski -> column_stack(geocentric2cart(earth_radius, lat, lon)) and haversine -> radians([lat, lon]) in double precision",
         "sklearn BallTree/KDTree correctness, chord vs arc numerics, split_units parsing"),
 "C13": ("def-use provenance over _create_return / collapse / expand / concat_collocations and the pseudo-group helpers, read-before-increment order, default table",
         "the unique index array that builds the inverse map is the one that selects the data and row i is translated with map i; _rows_for_secondaries reads the running count before incrementing; collapse takes complementary pair rows, computes rows_in_bins from the reference row on every path, sizes and NaN-fills the bin matrix and scatters partner values at [row-in-bin, reference index]; default collapsers are nanmean/nanstd/count-non-NaN along the passed axis with user entries overriding; expand selects group k with pair row k unconditionally; writer and readers of the group/name convention agree; concat shifts row 0/1 by the running primary/secondary size, accumulated after use, and concatenates each group along its own dimension",
         "xarray isel/merge/concat semantics, extra dimensions"),
 "C14": ("API resolution against the installed numpy (helper process, imports the library only), call binding, formula algebra over an opaque integral atom, shape model of the CRH level loop, table checks",
         "every numpy/scipy name of the integration chain exists (or is guarded by a getattr fall-back that exists); integrate_column forwards the caller's y, x, axis unchanged to the trapezoidal rule; IWV hydrostatic = -I(q(vmr), p)/g and general = I(vmr p/(R_v T), z) with the water-vapour gas constant, mixed T/z raises; CRH = IWV(vmr(q))/IWV(vmr(q_s)) with q_s level-wise from the mixed-phase saturation pressure and the level loop bounded by the size of the integration axis (shape model for ndim 1-3); pressure2height = [0, cumsum(-dp/(rho_mean g))] as float with the pressure-addressed standard atmosphere as default; ISA tables monotone and of equal length, log on both sides of the pressure branch",
         "quadrature accuracy, convergence of the two IWV forms, numerical monotonicity"),
 "C18": ("def-use provenance of the database permutation and window, formula algebra on 2-entry / 2-channel symbolic instances, API resolution, guard-order lint",
         "one argsort permutation is applied to projection, x and y and the x-sorted view uses the permuted x; eigenvalue and eigenvector (column) share the index of the smallest eigenvalue, database and observation are projected alike, h^2 = 2 x2_max lambda_min; w = exp(-dy S^-1 dy^T / 2) with S^-1 = inv(s_o); mean and std equal the weighted moments (2-entry instance); weights/x share the window bounds, the x-sorted mask is i_l <= k < i_u shifted by -i_l; NaN fall-back uses existing names and its selecting test is total on an empty window; cdf = cumsum/last, quantiles = interp(taus, cdf, xs)",
         "eigen-solver accuracy, floating-point cancellation in algebraically equal variance formulas, permutation invariance numerics"),
}

checks = []
na = []
for p in props:
    pid = p["id"]
    have = os.path.isfile(os.path.join(HERE, "tyverif", "rules", pid + ".py"))
    if pid in T and have:
        tech, decided, notdec = T[pid]
        checks.append({
            "property_id": pid,
            "quick_cmd": "./check %s --tier quick" % pid,
            "thorough_cmd": "./check %s --tier thorough" % pid,
            "evidence_file": "evidence/%s.json" % pid,
            "replay_cmd_template": "./check %s --replay {path}" % pid,
            "engine": "tyverif",
            "level_claimed": {
                "category": "other",
                "text": "Static analysis of /repo's current source, no typhon code executed. Decides structural necessary conditions of the property (each attached to a named construct), not the behaviour as a whole. Decided: " + decided + ".",
                "design_ref": "DESIGN.md section 5 (%s)" % pid},
            "level_note": "Trusted: CPython ast, the tyverif engine (CFG / reaching definitions / order models / algebra), sympy canonical forms, reference tables embedded in the rules. NOT decided: " + notdec + ".",
            "technique": "static analysis: " + tech,
        })
    else:
        na.append({"property_id": pid, "reason": "check under construction (static rules designed in DESIGN.md section 5, not built yet)"})

m = {"version": 1, "setup_cmd": "true",
     "hooks": {"guard": "TYPHON_VERIF", "enable": "none needed: the checks read /repo's source text; no hook commits exist",
               "baseline_off_cmd": "cd /repo && /venv/bin/python -m pytest -ra -q -p no:cacheprovider --timeout=900 --continue-on-collection-errors",
               "source_commits": [], "add_only": True},
     "engines": [{"name": "tyverif", "path": "tyverif/", "serves_properties": [c["property_id"] for c in checks],
                  "kind_free_text": "repository-specific static analyser (ast + statement CFG with exceptional edges + reaching definitions + order-type models + sympy formula algebra + table agreement); runs under python3-vt; never imports typhon"}],
     "checks": checks,
     "notes": "Exit codes: 0 all decided clauses hold (KNOWN-FINDING lines for listed defects), 1 VIOLATION, 2 ANALYSIS-ERROR (anchor vanished / construct outside the analysable class). known_findings.json lists repaired (fixed:) and open (known) genuine defects. seeded/ holds independently produced breaking changes and which rule reports each.",
     "not_applicable": na}
json.dump(m, open(os.path.join(HERE, "MANIFEST.json"), "w"), indent=1)
print("checks:", [c["property_id"] for c in checks], "na:", len(na))
