#!/bin/sh
# usage: tools/mutcheck.sh <patch.diff> <PROP> [base]   -- apply a seeded patch to a scratch copy and run the check
PATCH=$1; PROP=$2; BASE=${3:-/tmp/tybase}
D=$(mktemp -d /tmp/mc.XXXXXX)
cp -r $BASE/typhon $D/typhon
(cd $D && patch -p1 -s < $PATCH) || { echo "PATCH FAILED"; rm -rf $D; exit 3; }
/verif/check $PROP --root $D --no-evidence | sed "s#$D/##"
rc=$?
rm -rf $D
